"""Equivalence harness for the lift-over code (property C04).

Usage (from the worktree root):
    /venv/bin/python _refactor/R2/equiv.py dump _refactor/tmp/before.json      # on pristine
    git apply _refactor/R2/patch.diff
    /venv/bin/python _refactor/R2/equiv.py dump _refactor/tmp/after.json
    /venv/bin/python _refactor/R2/equiv.py compare _refactor/tmp/before.json _refactor/tmp/after.json

Every observation is the repr/str (and, where it exists, the extracted sequence) of the result, or the
exception type + message.  Inputs are generated with a fixed seed so that both runs see the same inputs.

Targets location/location.py: Location.first_ancestor_of_type / has_ancestor_of_type / has_ancestor_sequence / lift_over_to_first_ancestor_of_type / lift_over_to_sequence (keys hier/*/lift_type, hier/*/lift_seq, hier/*/loc_*, bare/*, chunk/*/back).
"""
import ast
import json
import os
import random
import sys

ROOT = os.path.dirname(os.path.dirname(os.path.dirname(os.path.abspath(__file__))))
sys.path.insert(0, ROOT)  # always test the code of this worktree

import inscripta.biocantor.location  # noqa: F401,E402  (must be first: circular import otherwise)
from inscripta.biocantor.gene.interval import AbstractInterval
from inscripta.biocantor.location.location_impl import SingleInterval, CompoundInterval, EmptyLocation
from inscripta.biocantor.location.strand import Strand
from inscripta.biocantor.parent import Parent, SequenceType
from inscripta.biocantor.sequence import Sequence
from inscripta.biocantor.sequence.alphabet import Alphabet

assert os.path.abspath(inscripta.biocantor.location.__file__).startswith(ROOT + os.sep)

RESULTS = {}


def observe(key, fn):
    """Run fn and store a full textual observation of its outcome under key."""
    assert key not in RESULTS, key
    try:
        val = fn()
    except Exception as e:  # noqa
        RESULTS[key] = {"exc": type(e).__name__, "msg": str(e), "ctx": type(e.__context__).__name__}
        return None
    rec = {"type": type(val).__name__, "repr": repr(val), "str": str(val)}
    if hasattr(val, "extract_sequence"):
        try:
            rec["seq"] = str(val.extract_sequence())
        except Exception as e:  # noqa
            rec["seq_exc"] = "{}: {}".format(type(e).__name__, e)
    if hasattr(val, "blocks"):
        rec["blocks"] = [(b.start, b.end, str(b.strand)) for b in val.blocks]
    RESULTS[key] = rec
    return val


# ---------------------------------------------------------------------------------------------------------
# the two hierarchy constructors of io/parser.py cannot be imported (io.models does not import in this
# environment), so their source is cut out of the file under test and executed here.
# ---------------------------------------------------------------------------------------------------------
def load_parser_functions():
    path = os.path.join(ROOT, "inscripta", "biocantor", "io", "parser.py")
    with open(path) as fh:
        src = fh.read()
    tree = ast.parse(src)
    wanted = [
        node
        for node in tree.body
        if (isinstance(node, ast.FunctionDef) and not node.name.startswith("__"))
        or (isinstance(node, ast.Assign))
    ]
    ns = {}
    exec(
        "from typing import Optional, Iterable, TextIO, Union\n"
        "from uuid import UUID\n"
        "from inscripta.biocantor.location.location_impl import SingleInterval\n"
        "from inscripta.biocantor.location.strand import Strand\n"
        "from inscripta.biocantor.parent import Parent, SequenceType\n"
        "from inscripta.biocantor.sequence.alphabet import Alphabet\n"
        "from inscripta.biocantor.sequence.sequence import Sequence\n",
        ns,
    )
    mod = ast.Module(body=wanted, type_ignores=[])
    exec(compile(mod, path, "exec"), ns)
    return ns["seq_to_parent"], ns["seq_chunk_to_parent"]


seq_to_parent, seq_chunk_to_parent = load_parser_functions()

RNG = random.Random(20240404)
STRANDS = [Strand.PLUS, Strand.MINUS]


def random_dna(n):
    return "".join(RNG.choice("ACGT") for _ in range(n))


def random_location(length, max_blocks=3, strands=STRANDS, min_len=1):
    """A random single/multi-block location inside [0, length)."""
    nblocks = RNG.randint(1, max_blocks)
    while True:
        if 2 * nblocks > length:
            nblocks = max(1, length // 2)
        points = sorted(RNG.sample(range(0, length + 1), 2 * nblocks))
        starts = points[0::2]
        ends = points[1::2]
        if sum(e - s for s, e in zip(starts, ends)) >= min_len:
            break
    strand = RNG.choice(strands)
    if nblocks == 1:
        return SingleInterval(starts[0], ends[0], strand)
    return CompoundInterval(starts, ends, strand)


def build_hierarchy(depth, chrom_len=80):
    """Returns list of Sequence objects [chromosome, level1, ..., level(depth-1)]; each deeper level is placed on
    the previous by a random location on either strand."""
    chrom = Sequence(random_dna(chrom_len), Alphabet.NT_STRICT, id="chrom", type=SequenceType.CHROMOSOME)
    levels = [chrom]
    for i in range(1, depth):
        prev = levels[-1]
        loc = random_location(len(prev), min_len=max(4, len(prev) // 2))
        data = str(loc.reset_parent(Parent(sequence=prev)).extract_sequence())
        levels.append(
            Sequence(
                data,
                Alphabet.NT_STRICT,
                id="level{}".format(i),
                type="type{}".format(i),
                parent=Parent(location=loc, sequence=prev),
            )
        )
    return levels


def hierarchy_cases():
    unrelated = Sequence("ACGTACGT", Alphabet.NT_STRICT, id="other", type="othertype")
    all_types = [SequenceType.CHROMOSOME, "chromosome", "type1", "type2", "type3", "nonexistent", SequenceType.SEQUENCE_CHUNK]
    for depth in (1, 2, 3, 4):
        for h in range(8):
            levels = build_hierarchy(depth)
            leaf = levels[-1]
            for c in range(4):
                if c == 3:
                    child = random_location(len(leaf), max_blocks=1, strands=[Strand.UNSTRANDED])
                else:
                    child = random_location(len(leaf))
                # alternate between a Sequence parent and an explicit Parent
                if c % 2 == 0:
                    child = child.reset_parent(Parent(sequence=leaf))
                else:
                    child = child.reset_parent(Parent(sequence=leaf, id=leaf.id))
                k = "hier/d{}/h{}/c{}".format(depth, h, c)
                observe(k + "/child", lambda: child)
                for t in all_types:
                    observe(k + "/lift_type/{!r}".format(t), lambda: child.lift_over_to_first_ancestor_of_type(t))
                    observe(k + "/loc_first_anc/{!r}".format(t), lambda: child.first_ancestor_of_type(t))
                    observe(k + "/loc_has_anc/{!r}".format(t), lambda: child.has_ancestor_of_type(t))
                    for inc in (True, False):
                        observe(
                            k + "/par_first_anc/{!r}/{}".format(t, inc),
                            lambda: child.parent.first_ancestor_of_type(t, include_self=inc),
                        )
                        observe(
                            k + "/par_has_anc/{!r}/{}".format(t, inc),
                            lambda: child.parent.has_ancestor_of_type(t, include_self=inc),
                        )
                        observe(
                            k + "/seq_first_anc/{!r}/{}".format(t, inc),
                            lambda: leaf.first_ancestor_of_type(t, include_self=inc),
                        )
                        observe(
                            k + "/seq_has_anc/{!r}/{}".format(t, inc),
                            lambda: leaf.has_ancestor_of_type(t, include_self=inc),
                        )
                for j, s in enumerate(levels + [unrelated]):
                    observe(k + "/lift_seq/{}".format(j), lambda: child.lift_over_to_sequence(s))
                    observe(k + "/loc_has_seq/{}".format(j), lambda: child.has_ancestor_sequence(s))
                    for inc in (True, False):
                        observe(
                            k + "/par_has_seq/{}/{}".format(j, inc),
                            lambda: child.parent.has_ancestor_sequence(s, include_self=inc),
                        )
                observe(k + "/lift_child", lambda: child.parent.lift_child_location_to_parent())
                # single-step lifts all the way up
                cur = child
                for step in range(depth + 1):
                    nxt = observe(k + "/step{}".format(step), lambda: cur.parent.lift_child_location_to_parent())
                    if nxt is None:
                        break
                    cur = nxt
            # sequence-level convenience accessors and slices keep their parent location
            observe("hier/d{}/h{}/leaf_loc_on_parent".format(depth, h), lambda: leaf.location_on_parent)
            observe("hier/d{}/h{}/leaf_parent_strand".format(depth, h), lambda: leaf.parent_strand)
            observe("hier/d{}/h{}/leaf_parent_type".format(depth, h), lambda: leaf.parent_type)
            observe("hier/d{}/h{}/leaf_parent_id".format(depth, h), lambda: leaf.parent_id)
            observe("hier/d{}/h{}/leaf_slice".format(depth, h), lambda: repr(leaf[1:4]))
            observe("hier/d{}/h{}/leaf_rc".format(depth, h), lambda: repr(leaf.reverse_complement()))

    # locations without any parent / parents without location
    bare = SingleInterval(3, 9, Strand.PLUS)
    observe("bare/lift_type", lambda: bare.lift_over_to_first_ancestor_of_type("chromosome"))
    observe("bare/lift_seq", lambda: bare.lift_over_to_sequence(unrelated))
    observe("bare/first", lambda: bare.first_ancestor_of_type("chromosome"))
    observe("bare/has", lambda: bare.has_ancestor_of_type("chromosome"))
    observe("bare/has_seq", lambda: bare.has_ancestor_sequence(unrelated))
    observe("bare/parent_lift1", lambda: Parent(id="x").lift_child_location_to_parent())
    observe("bare/parent_lift2", lambda: Parent(id="x", location=bare).lift_child_location_to_parent())
    observe(
        "bare/parent_lift3", lambda: Parent(id="x", location=bare, parent=Parent(id="y")).lift_child_location_to_parent()
    )
    observe(
        "bare/parent_lift4",
        lambda: Parent(
            id="x", location=bare, parent=Parent(id="y", location=SingleInterval(10, 30, Strand.MINUS))
        ).lift_child_location_to_parent(),
    )
    observe(
        "bare/parent_lift5",
        lambda: Parent(
            id="x",
            location=CompoundInterval([0, 8], [5, 12], Strand.MINUS),
            parent=Parent(id="y", location=CompoundInterval([10, 30], [17, 50], Strand.MINUS)),
        ).lift_child_location_to_parent(),
    )
    observe(
        "bare/parent_lift_empty",
        lambda: Parent(
            id="x", location=EmptyLocation(), parent=Parent(id="y", location=SingleInterval(10, 30, Strand.MINUS))
        ).lift_child_location_to_parent(),
    )
    # non contiguous location to sequence
    chrom = Sequence(random_dna(30), Alphabet.NT_STRICT, id="chrom", type=SequenceType.CHROMOSOME)
    comp = CompoundInterval([1, 8], [4, 12], Strand.PLUS, parent=chrom)
    observe("noncontig/lift_seq", lambda: comp.lift_over_to_sequence(chrom))
    empty_seq = Sequence("", Alphabet.NT_STRICT, id="e", type="empty")
    observe("emptyseq/has", lambda: Parent(sequence=empty_seq).has_ancestor_sequence(empty_seq))
    observe("emptyseq/first", lambda: empty_seq.first_ancestor_of_type("empty"))
    observe("emptyseq/has_type", lambda: empty_seq.has_ancestor_of_type("empty", include_self=False))


def chunk_cases():
    genome = random_dna(120)
    chrom_parent = observe("chunk/seq_to_parent", lambda: seq_to_parent(genome, seq_id="chr1"))
    observe("chunk/seq_to_parent_noid", lambda: seq_to_parent(genome))
    observe(
        "chunk/seq_to_parent_custom",
        lambda: seq_to_parent(genome[:10], alphabet=Alphabet.NT_STRICT, seq_id="s", seq_type="mytype"),
    )
    observe("chunk/seq_to_parent_empty", lambda: seq_to_parent("", seq_id="s"))
    chrom_parent_other = seq_to_parent(genome, seq_id="chr2")
    chrom_parent_otherseq = seq_to_parent(genome[::-1], seq_id="chr1")
    id_only_parent = Parent(id="chr1", sequence_type=SequenceType.CHROMOSOME)
    unknown_parent = Parent(id="chr1")

    windows = [(0, 120, Strand.PLUS), (10, 60, Strand.PLUS), (10, 60, Strand.MINUS), (50, 51, Strand.PLUS), (70, 119, Strand.MINUS)]
    chunk_parents = {}
    for (s, e, strand) in windows:
        seqdata = genome[s:e]
        if strand == Strand.MINUS:
            seqdata = str(Sequence(seqdata, Alphabet.NT_STRICT).reverse_complement())
        name = "w{}_{}_{}".format(s, e, strand.name)
        chunk_parents[name] = observe(
            "chunk/mk/" + name, lambda: seq_chunk_to_parent(seqdata, "chr1", s, e, strand=strand)
        )
    chunk_parents["default_strand"] = observe(
        "chunk/mk/default_strand", lambda: seq_chunk_to_parent(genome[5:20], "chr1", 5, 20)
    )
    chunk_parents["strict_alpha"] = observe(
        "chunk/mk/strict_alpha",
        lambda: seq_chunk_to_parent(genome[5:20], "chr1", 5, 20, alphabet=Alphabet.NT_STRICT),
    )
    chunk_parents["otherchrom"] = seq_chunk_to_parent(genome[10:60], "chr9", 10, 60)
    observe("chunk/mk/badlen", lambda: seq_chunk_to_parent(genome[5:20], "chr1", 5, 21))
    observe("chunk/mk/uuid", lambda: seq_chunk_to_parent(genome[5:20], __import__("uuid").UUID(int=7), 5, 20))

    # chunk whose chromosome carries sequence
    chrom_seq = Sequence(genome, Alphabet.NT_EXTENDED_GAPPED, id="chr1", type=SequenceType.CHROMOSOME)
    chunk_parents["with_chrom_seq"] = Parent(
        id="chr1:20-70",
        sequence=Sequence(
            genome[20:70],
            Alphabet.NT_EXTENDED_GAPPED,
            id="chr1:20-70",
            type=SequenceType.SEQUENCE_CHUNK,
            parent=Parent(location=SingleInterval(20, 70, Strand.PLUS, parent=Parent(sequence=chrom_seq))),
        ),
    )
    # chunk without chromosome ancestor
    chunk_parents["no_chrom"] = Parent(
        id="orphan",
        sequence=Sequence(genome[20:70], Alphabet.NT_EXTENDED_GAPPED, id="orphan", type=SequenceType.SEQUENCE_CHUNK),
    )
    # chunk parent without sequence
    chunk_parents["no_seq"] = Parent(
        id="chunk_noseq",
        sequence_type=SequenceType.SEQUENCE_CHUNK,
        parent=Parent(
            location=SingleInterval(20, 70, Strand.PLUS, parent=Parent(id="chr1", sequence_type=SequenceType.CHROMOSOME))
        ),
    )
    # a parent one level below a chunk
    w = chunk_parents["w10_60_PLUS"]
    sub_seq = Sequence(
        str(w.sequence)[5:25],
        Alphabet.NT_EXTENDED_GAPPED,
        id="sub",
        type="subregion",
        parent=Parent(location=SingleInterval(5, 25, Strand.PLUS), sequence=w.sequence),
    )
    chunk_parents["below_chunk"] = Parent(id="sub", sequence=sub_seq)

    targets = dict(chunk_parents)
    targets["None"] = None
    targets["chrom"] = chrom_parent
    targets["chrom_other_id"] = chrom_parent_other
    targets["chrom_other_seq"] = chrom_parent_otherseq
    targets["id_only"] = id_only_parent
    targets["unknown"] = unknown_parent

    fixed_locs = [
        SingleInterval(0, 5, Strand.PLUS),
        SingleInterval(12, 30, Strand.PLUS),
        SingleInterval(12, 30, Strand.MINUS),
        SingleInterval(5, 15, Strand.PLUS),
        SingleInterval(55, 65, Strand.MINUS),
        SingleInterval(100, 110, Strand.PLUS),
        SingleInterval(0, 120, Strand.MINUS),
        SingleInterval(50, 51, Strand.PLUS),
        CompoundInterval([12, 20], [20, 30], Strand.PLUS),  # adjacent blocks
        CompoundInterval([12, 18], [20, 30], Strand.MINUS),  # overlapping blocks
        CompoundInterval([2, 20, 58], [8, 30, 66], Strand.PLUS),
        CompoundInterval([2, 20, 58], [8, 30, 66], Strand.MINUS),
        CompoundInterval([0, 100], [5, 110], Strand.PLUS),
        SingleInterval(12, 30, Strand.UNSTRANDED),
        EmptyLocation(),
    ]
    rand_locs = [random_location(120) for _ in range(25)]
    locs = fixed_locs + rand_locs

    for tname, target in targets.items():
        for i, loc in enumerate(locs):
            k = "chunk/lift/{}/{}".format(tname, i)
            lifted = observe(k, lambda: AbstractInterval.liftover_location_to_seq_chunk_parent(loc, target))
            if lifted is None or lifted.is_empty:
                continue
            # and back up to the chromosome
            observe(k + "/back", lambda: lifted.lift_over_to_first_ancestor_of_type(SequenceType.CHROMOSOME))
            # chunk-relative -> a different target (goes through the chromosome)
            if i < 14:
                for t2name in ("w10_60_MINUS", "w70_119_MINUS", "w0_120_PLUS", "chrom", "with_chrom_seq", "otherchrom", "no_chrom", "no_seq", "id_only", "None", "below_chunk"):
                    observe(
                        k + "/rechunk/" + t2name,
                        lambda: AbstractInterval.liftover_location_to_seq_chunk_parent(lifted, targets[t2name]),
                    )

    # location that has a chunk ancestor but no chromosome above it
    orphan_loc = SingleInterval(2, 8, Strand.PLUS, parent=chunk_parents["no_chrom"])
    for tname, target in targets.items():
        observe(
            "chunk/orphan/" + tname,
            lambda: AbstractInterval.liftover_location_to_seq_chunk_parent(orphan_loc, target),
        )

    # initialize_location
    init_inputs = [
        ([12], [30], Strand.PLUS),
        ([12], [30], Strand.MINUS),
        ([12, 40], [30, 55], Strand.PLUS),
        ([12, 40], [30, 55], Strand.MINUS),
        ([2, 20, 58], [8, 30, 66], Strand.PLUS),
        ([12, 30], [30, 40], Strand.PLUS),
        ([12], [30, 40], Strand.PLUS),
        ([], [], Strand.PLUS),
        ([100], [110], Strand.MINUS),
        ([30], [12], Strand.PLUS),
    ]
    for tname in ("None", "chrom", "w10_60_PLUS", "w10_60_MINUS", "w50_51_PLUS", "with_chrom_seq", "no_chrom", "no_seq", "id_only", "below_chunk"):
        for i, (starts, ends, strand) in enumerate(init_inputs):
            observe(
                "chunk/init/{}/{}".format(tname, i),
                lambda: AbstractInterval.initialize_location(starts, ends, strand, targets[tname]),
            )
    observe("chunk/init/default", lambda: AbstractInterval.initialize_location([1], [4], Strand.PLUS))


def main():
    mode = sys.argv[1]
    if mode == "dump":
        hierarchy_cases()
        chunk_cases()
        with open(sys.argv[2], "w") as fh:
            json.dump(RESULTS, fh, sort_keys=True, indent=0)
        n_exc = sum(1 for v in RESULTS.values() if "exc" in v)
        print("observations: {} ({} exceptions)".format(len(RESULTS), n_exc))
    elif mode == "compare":
        with open(sys.argv[2]) as fh:
            a = json.load(fh)
        with open(sys.argv[3]) as fh:
            b = json.load(fh)
        bad = [k for k in sorted(set(a) | set(b)) if a.get(k) != b.get(k)]
        for k in bad[:20]:
            print("DIFF", k, "\n   before:", a.get(k), "\n   after: ", b.get(k))
        print("compared {} observations: {} differences".format(len(a), len(bad)))
        sys.exit(1 if bad else 0)


if __name__ == "__main__":
    main()
