"""
Equivalence harness for the lift-over / ancestor-walk code (property C04).

Usage (from the worktree root):
    /venv/bin/python _refactor/R2/equiv.py dump /tmp/pristine.json      # on the pristine tree
    git apply _refactor/R2/patch.diff
    /venv/bin/python _refactor/R2/equiv.py dump /tmp/patched.json       # on the patched tree
    /venv/bin/python _refactor/R2/equiv.py compare /tmp/pristine.json /tmp/patched.json

Every observation is the repr()/str()/to_dict() of a result, or "EXC <type>: <message>" if the call raised.
"""
import json
import os
import random
import sys
import types

if os.environ.get("PYTHONHASHSEED") != "0":
    os.environ["PYTHONHASHSEED"] = "0"
    os.execv(sys.executable, [sys.executable] + sys.argv)

sys.path.insert(0, os.getcwd())

import inscripta.biocantor.location  # noqa: E402,F401  (must come first: circular import otherwise)
from inscripta.biocantor import AbstractLocation  # noqa: E402
from inscripta.biocantor.location.location_impl import SingleInterval, CompoundInterval, EmptyLocation  # noqa: E402
from inscripta.biocantor.location.strand import Strand  # noqa: E402
from inscripta.biocantor.parent import Parent, SequenceType  # noqa: E402
from inscripta.biocantor.sequence import Sequence  # noqa: E402
from inscripta.biocantor.sequence.alphabet import Alphabet  # noqa: E402
from inscripta.biocantor.gene.interval import AbstractInterval  # noqa: E402
from inscripta.biocantor.gene.feature import FeatureInterval  # noqa: E402
from inscripta.biocantor.gene.transcript import TranscriptInterval  # noqa: E402
from inscripta.biocantor.gene.cds_frame import CDSFrame  # noqa: E402
from inscripta.biocantor.gene.collections import (  # noqa: E402
    GeneInterval,
    FeatureIntervalCollection,
    AnnotationCollection,
)

# io/models.py cannot be imported in this environment (marshmallow version); io/parser.py only needs the name
_stub = types.ModuleType("inscripta.biocantor.io.models")
_stub.AnnotationCollectionModel = object
sys.modules["inscripta.biocantor.io.models"] = _stub
from inscripta.biocantor.io import parser as bc_parser  # noqa: E402

seq_to_parent = bc_parser.seq_to_parent
seq_chunk_to_parent = bc_parser.seq_chunk_to_parent

RESULTS = {}


def show(value):
    if isinstance(value, dict):
        return json.dumps(value, default=repr, sort_keys=False)
    if isinstance(value, (list, tuple)):
        return "[" + ", ".join(show(v) for v in value) + "]"
    if isinstance(value, Sequence):
        return "SEQ<{}|{}>".format(str(value), repr(value))
    if isinstance(value, AbstractLocation):
        return "{} @parent={}".format(repr(value), repr(value.parent))
    return repr(value)


def observe(key, thunk):
    assert key not in RESULTS, key
    try:
        RESULTS[key] = show(thunk())
    except Exception as e:  # noqa
        RESULTS[key] = "EXC {}: {}".format(type(e).__name__, e)


# ----------------------------------------------------------------------------------------------------------------------
# random material
# ----------------------------------------------------------------------------------------------------------------------
def rand_dna(rng, n):
    return "".join(rng.choice("ACGT") for _ in range(n))


def rand_location(rng, length, strand=None, max_blocks=3, min_len=1):
    """A random single or multi-block location inside [0, length)."""
    strand = strand or rng.choice([Strand.PLUS, Strand.MINUS])
    nblocks = rng.randint(1, max_blocks)
    points = sorted(rng.sample(range(length + 1), min(2 * nblocks, length + 1) // 2 * 2))
    starts = points[0::2]
    ends = points[1::2]
    if sum(e - s for s, e in zip(starts, ends)) < min_len:
        return SingleInterval(0, length, strand)
    if len(starts) == 1:
        return SingleInterval(starts[0], ends[0], strand)
    return CompoundInterval(starts, ends, strand)


def build_hierarchy(rng, depth):
    """Return (list of sequences from top to bottom, bottom Parent).

    Level 0 is the top (no parent); level k sits on level k-1 through a random location.
    """
    type_names = ["chromosome", "sequence_chunk", "level2", "level3", "level4"]
    top_len = rng.randint(40, 70)
    top = Sequence(rand_dna(rng, top_len), Alphabet.NT_STRICT, id="L0", type=type_names[0])
    seqs = [top]
    for level in range(1, depth + 1):
        above = seqs[-1]
        loc = rand_location(rng, len(above), min_len=max(4, len(above) // 3))
        loc_with_parent = loc.reset_parent(Parent(sequence=above))
        data = str(loc_with_parent.extract_sequence())
        seq = Sequence(
            data,
            Alphabet.NT_STRICT,
            id="L{}".format(level),
            type=type_names[level],
            parent=Parent(location=loc, sequence=above),
        )
        seqs.append(seq)
    return seqs


def section_hierarchies(rng):
    type_queries = ["chromosome", "sequence_chunk", "level2", "level3", "level4", "nosuch", SequenceType.CHROMOSOME]
    n = 0
    for depth in (1, 2, 3, 4):
        for rep in range(10):
            seqs = build_hierarchy(rng, depth)
            bottom = seqs[-1]
            bottom_parent = Parent(sequence=bottom)
            tag = "hier/d{}r{}".format(depth, rep)
            observe(tag + "/bottom_parent", lambda: bottom_parent)
            foreign = Sequence("ACGTACGT", Alphabet.NT_STRICT, id="foreign", type="chromosome")
            for c in range(4):
                child = rand_location(rng, len(bottom), max_blocks=3).reset_parent(bottom_parent)
                ctag = "{}/c{}".format(tag, c)
                observe(ctag + "/child", lambda: child)
                observe(ctag + "/child_seq", lambda: str(child.extract_sequence()))
                for q in type_queries:
                    qn = repr(q)
                    observe(ctag + "/lift_type/" + qn, lambda: child.lift_over_to_first_ancestor_of_type(q))
                    observe(
                        ctag + "/lift_type_seq/" + qn,
                        lambda: str(child.lift_over_to_first_ancestor_of_type(q).extract_sequence()),
                    )
                    observe(ctag + "/loc_first_anc/" + qn, lambda: child.first_ancestor_of_type(q))
                    observe(ctag + "/loc_has_anc/" + qn, lambda: child.has_ancestor_of_type(q))
                    for inc in (True, False):
                        observe(
                            "{}/par_first_anc/{}/{}".format(ctag, qn, inc),
                            lambda: child.parent.first_ancestor_of_type(q, include_self=inc),
                        )
                        observe(
                            "{}/par_has_anc/{}/{}".format(ctag, qn, inc),
                            lambda: child.parent.has_ancestor_of_type(q, inc),
                        )
                for li, s in enumerate(seqs + [foreign]):
                    observe("{}/lift_seq/{}".format(ctag, li), lambda: child.lift_over_to_sequence(s))
                    observe(
                        "{}/lift_seq_seq/{}".format(ctag, li),
                        lambda: str(child.lift_over_to_sequence(s).extract_sequence()),
                    )
                    observe("{}/loc_has_anc_seq/{}".format(ctag, li), lambda: child.has_ancestor_sequence(s))
                    for inc in (True, False):
                        observe(
                            "{}/par_has_anc_seq/{}/{}".format(ctag, li, inc),
                            lambda: child.parent.has_ancestor_sequence(s, include_self=inc),
                        )
                # contiguous child as well (lift_over_to_sequence requires it)
                a = rng.randint(0, len(bottom) - 1)
                b = rng.randint(a + 1, len(bottom))
                contig = SingleInterval(a, b, rng.choice([Strand.PLUS, Strand.MINUS]), parent=bottom_parent)
                for li, s in enumerate(seqs):
                    observe("{}/contig_lift_seq/{}".format(ctag, li), lambda: contig.lift_over_to_sequence(s))
                # one-level lift, step by step
                step = child
                for k in range(depth + 1):
                    observe("{}/step{}".format(ctag, k), lambda: step.parent.lift_child_location_to_parent())
                    try:
                        step = step.parent.lift_child_location_to_parent()
                    except Exception:
                        break
                # sequence-level ancestor walks
                for q in type_queries:
                    for inc in (True, False):
                        observe(
                            "{}/seq_first_anc/{}/{}".format(ctag, repr(q), inc),
                            lambda: bottom.first_ancestor_of_type(q, include_self=inc),
                        )
                        observe(
                            "{}/seq_has_anc/{}/{}".format(ctag, repr(q), inc),
                            lambda: bottom.has_ancestor_of_type(q, include_self=inc),
                        )
                n += 1
    return n


def section_parent_misc(rng):
    seq = Sequence("ACGTACGTACGTACGTACGT", Alphabet.NT_STRICT, id="chrA", type="chromosome")
    seq_b = Sequence("ACGTACGTACGTACGTACGT", Alphabet.NT_STRICT, id="chrB", type="chromosome")
    seq_short = Sequence("ACGT", Alphabet.NT_STRICT)
    loc = SingleInterval(2, 9, Strand.MINUS)
    cloc = CompoundInterval([1, 6], [4, 12], Strand.PLUS)
    parents = {
        "empty": lambda: Parent(),
        "id": lambda: Parent(id="x"),
        "id_type": lambda: Parent(id="x", sequence_type="chromosome"),
        "strand": lambda: Parent(id="x", strand=Strand.MINUS),
        "loc": lambda: Parent(id="x", location=loc),
        "cloc": lambda: Parent(location=cloc, sequence=seq),
        "strand_loc_ok": lambda: Parent(strand=Strand.MINUS, location=loc),
        "strand_loc_bad": lambda: Parent(strand=Strand.PLUS, location=loc),
        "seq": lambda: Parent(sequence=seq),
        "seq_loc": lambda: Parent(sequence=seq, location=loc),
        "seq_loc_too_long": lambda: Parent(sequence=seq_short, location=loc),
        "id_mismatch": lambda: Parent(id="other", sequence=seq),
        "type_mismatch": lambda: Parent(sequence_type="plasmid", sequence=seq),
        "nested": lambda: Parent(id="child", parent=Parent(id="top", sequence_type="chromosome")),
        "nested_str": lambda: Parent(id="child", parent="top"),
        "nested_seq_longer": lambda: Parent(sequence=seq, parent=Parent(sequence=seq_short)),
        "seq_with_parent": lambda: Parent(
            sequence=Sequence("ACGT", Alphabet.NT_STRICT, parent=Parent(id="top", location=SingleInterval(3, 7, Strand.PLUS)))
        ),
        "seq_with_parent_and_parent": lambda: Parent(
            sequence=Sequence(
                "ACGT", Alphabet.NT_STRICT, parent=Parent(id="top", location=SingleInterval(3, 7, Strand.PLUS))
            ),
            parent=Parent(id="top"),
        ),
        "seq_with_parent_and_bad_parent": lambda: Parent(
            sequence=Sequence(
                "ACGT", Alphabet.NT_STRICT, parent=Parent(id="top", location=SingleInterval(3, 7, Strand.PLUS))
            ),
            parent=Parent(id="nottop"),
        ),
        "empty_loc": lambda: Parent(id="x", location=EmptyLocation()),
        "unstranded_loc": lambda: Parent(id="x", location=SingleInterval(1, 2, Strand.UNSTRANDED)),
        "seq_b": lambda: Parent(sequence=seq_b),
    }
    built = {}
    for name, mk in parents.items():
        observe("parent/" + name + "/repr", mk)
        try:
            built[name] = mk()
        except Exception:
            continue
    for name, p in built.items():
        observe("parent/" + name + "/strand", lambda: p.strand)
        observe("parent/" + name + "/strip", lambda: p.strip_location_info())
        observe("parent/" + name + "/reset_none", lambda: p.reset_location(None))
        observe("parent/" + name + "/reset_loc", lambda: p.reset_location(SingleInterval(0, 3, Strand.PLUS)))
        observe("parent/" + name + "/lift_child", lambda: p.lift_child_location_to_parent())
        observe("parent/" + name + "/hash_eq_self", lambda: hash(p) == hash(p))
        for q in ("chromosome", "nosuch", None):
            for inc in (True, False):
                observe(
                    "parent/{}/first_anc/{}/{}".format(name, q, inc),
                    lambda: p.first_ancestor_of_type(q, include_self=inc),
                )
                observe(
                    "parent/{}/has_anc/{}/{}".format(name, q, inc), lambda: p.has_ancestor_of_type(q, include_self=inc)
                )
        for sname, s in (("seq", seq), ("seq_b", seq_b), ("short", seq_short)):
            for inc in (True, False):
                observe(
                    "parent/{}/has_anc_seq/{}/{}".format(name, sname, inc),
                    lambda: p.has_ancestor_sequence(s, include_self=inc),
                )
        for other_name, other in built.items():
            observe("parent/{}/eq/{}".format(name, other_name), lambda: p == other)
            observe("parent/{}/hash_eq/{}".format(name, other_name), lambda: hash(p) == hash(other))
            observe("parent/{}/eq_except_loc/{}".format(name, other_name), lambda: p.equals_except_location(other))
            observe(
                "parent/{}/eq_except_loc_seq/{}".format(name, other_name),
                lambda: p.equals_except_location(other, require_same_sequence=False),
            )
        observe("parent/{}/eq/None".format(name), lambda: p == None)  # noqa: E711
        observe("parent/{}/eq/str".format(name), lambda: p.equals_except_location("x"))


def section_sequence_misc(rng):
    top = Sequence("ACGTTGCAACGTNNACGTAGCTAGCTAGTCGA", Alphabet.NT_EXTENDED, id="top", type="chromosome")
    subs = {
        "plain": Sequence("ACGTACGTAA", Alphabet.NT_STRICT),
        "id": Sequence("ACGTACGTAA", Alphabet.NT_STRICT, id="s1", type="chromosome"),
        "long": Sequence("ACGT" * 10, Alphabet.NT_STRICT),
        "on_plus": Sequence(
            "ACGTACGTAA",
            Alphabet.NT_STRICT,
            id="sp",
            type="sequence_chunk",
            parent=Parent(location=SingleInterval(5, 15, Strand.PLUS, parent=Parent(sequence=top))),
        ),
        "on_minus": Sequence(
            "ACGTACGTAA",
            Alphabet.NT_STRICT,
            type="sequence_chunk",
            parent=Parent(location=SingleInterval(5, 15, Strand.MINUS, parent=Parent(sequence=top))),
        ),
        "on_compound": Sequence(
            "ACGTACGTAA",
            Alphabet.NT_STRICT,
            parent=Parent(location=CompoundInterval([2, 10], [6, 16], Strand.MINUS), sequence_type="chromosome"),
        ),
        "protein": Sequence("MKV", Alphabet.AA),
        "empty": Sequence("", Alphabet.NT_STRICT, id="e"),
        "gapped": Sequence("AC-GT", Alphabet.NT_STRICT_GAPPED, id="g"),
    }
    observe("sequence/bad_parent_len", lambda: Sequence("ACGT", Alphabet.NT_STRICT, parent=Parent(location=SingleInterval(0, 5, Strand.PLUS))))
    observe("sequence/bad_alphabet", lambda: Sequence("ACGTX", Alphabet.NT_STRICT))
    for name, s in subs.items():
        t = "sequence/" + name
        observe(t + "/repr", lambda: s)
        observe(t + "/summary", lambda: s.summary())
        observe(t + "/rc", lambda: s.reverse_complement())
        observe(t + "/rc_id", lambda: s.reverse_complement(new_id="rc", new_type="t"))
        observe(t + "/fasta", lambda: s.to_fasta())
        observe(t + "/fasta7", lambda: s.to_fasta(7))
        observe(t + "/fasta0", lambda: s.to_fasta(0))
        observe(t + "/fastaNone", lambda: s.to_fasta(None))
        observe(t + "/loc_on_parent", lambda: s.location_on_parent)
        observe(t + "/hash_stable", lambda: hash(s) == hash(s))
        for key in (0, 3, -1, -4, slice(2, 7), slice(None, 4), slice(-5, None), slice(6, 2), slice(None, None, 2)):
            observe("{}/getitem/{}".format(t, key), lambda: s[key])
        for q in ("chromosome", "sequence_chunk", "nosuch", None):
            for inc in (True, False):
                observe("{}/first_anc/{}/{}".format(t, q, inc), lambda: s.first_ancestor_of_type(q, include_self=inc))
                observe("{}/has_anc/{}/{}".format(t, q, inc), lambda: s.has_ancestor_of_type(q, include_self=inc))
        for oname, o in subs.items():
            observe("{}/eq/{}".format(t, oname), lambda: s == o)
            observe("{}/append/{}".format(t, oname), lambda: s.append(o))
            observe("{}/append_data/{}".format(t, oname), lambda: s.append(o, new_id="n", data_only=True))
    a = Sequence("ACGT", Alphabet.NT_STRICT, parent=Parent(id="p", location=SingleInterval(0, 4, Strand.PLUS)))
    b = Sequence("TTTT", Alphabet.NT_STRICT, parent=Parent(id="p", location=SingleInterval(6, 10, Strand.PLUS)))
    c = Sequence("ACGT", Alphabet.NT_STRICT, parent=Parent(id="p", location=SingleInterval(12, 16, Strand.MINUS)))
    d = Sequence("TTTT", Alphabet.NT_STRICT, parent=Parent(id="p", location=SingleInterval(6, 10, Strand.MINUS)))
    for n1, s1 in (("a", a), ("b", b), ("c", c), ("d", d)):
        for n2, s2 in (("a", a), ("b", b), ("c", c), ("d", d)):
            observe("sequence/append_loc/{}{}".format(n1, n2), lambda: s1.append(s2, new_id="joined"))


def section_parser(rng):
    genome = rand_dna(rng, 60)
    observe("parser/seq_to_parent/default", lambda: seq_to_parent(genome))
    observe("parser/seq_to_parent/id", lambda: seq_to_parent(genome, seq_id="chr1"))
    observe(
        "parser/seq_to_parent/all",
        lambda: seq_to_parent(genome, Alphabet.NT_STRICT, "chr2", SequenceType.SEQUENCE_CHUNK),
    )
    observe("parser/seq_to_parent/bad", lambda: seq_to_parent("ACGTZ", Alphabet.NT_STRICT))
    for start, end in ((0, 60), (5, 40), (10, 11), (59, 60), (20, 20)):
        for strand in (Strand.PLUS, Strand.MINUS):
            observe(
                "parser/chunk/{}-{}/{}".format(start, end, strand.name),
                lambda: seq_chunk_to_parent(genome[start:end], "chr1", start, end, strand),
            )
    observe("parser/chunk/default_strand", lambda: seq_chunk_to_parent(genome[3:9], "chr1", 3, 9))
    observe("parser/chunk/wrong_len", lambda: seq_chunk_to_parent(genome[3:9], "chr1", 3, 12))
    observe("parser/chunk/alphabet", lambda: seq_chunk_to_parent("ACNN", "chr1", 3, 7, alphabet=Alphabet.NT_STRICT))

    class FakeSeqRecord:
        def __init__(self, seq, id):
            self.seq = seq
            self.id = id

    class FakeModel:
        def to_annotation_collection(self, parent):
            return ("collection-on", parent)

    recs = [
        bc_parser.ParsedAnnotationRecord(FakeModel(), FakeSeqRecord(genome, "chrX")),
        bc_parser.ParsedAnnotationRecord(FakeModel(), None),
        bc_parser.ParsedAnnotationRecord(FakeModel(), FakeSeqRecord("ACGT", "chrY"), Alphabet.NT_STRICT),
    ]
    for i, r in enumerate(recs):
        observe("parser/record/{}".format(i), lambda: r.to_annotation_collection())
    observe(
        "parser/records_to_model",
        lambda: list(bc_parser.ParsedAnnotationRecord.parsed_annotation_records_to_model(recs)),
    )
    gen = bc_parser.ParsedAnnotationRecord.parsed_annotation_records_to_model(iter(recs))
    observe("parser/records_to_model_lazy_type", lambda: type(gen).__name__)
    observe("parser/records_to_model_first", lambda: next(gen))
    import io

    observe("parser/to_fasta_none", lambda: recs[1].to_fasta(io.StringIO()))


def interval_observations(tag, obj):
    observe(tag + "/to_dict", lambda: obj.to_dict())
    observe(tag + "/chunk_loc", lambda: obj.chunk_relative_location)
    observe(tag + "/chrom_loc", lambda: obj.chromosome_location)
    observe(tag + "/bounded", lambda: obj._chunk_relative_bounded_chromosome_location)
    observe(tag + "/parent_dict", lambda: obj._parent_to_dict())
    observe(tag + "/parent_dict_chunk", lambda: obj._parent_to_dict(chromosome_relative_coordinates=False))
    observe(tag + "/is_chunk_relative", lambda: obj.is_chunk_relative)
    observe(tag + "/has_sequence", lambda: obj.has_sequence)
    observe(tag + "/lift_default", lambda: obj.lift_over_to_first_ancestor_of_type())
    observe(tag + "/lift_chunk", lambda: obj.lift_over_to_first_ancestor_of_type(SequenceType.SEQUENCE_CHUNK))
    observe(tag + "/first_anc_chrom", lambda: obj.first_ancestor_of_type(SequenceType.CHROMOSOME))
    observe(tag + "/has_anc_chunk", lambda: obj.has_ancestor_of_type("sequence_chunk"))
    observe(tag + "/len", lambda: len(obj))
    observe(tag + "/blocks", lambda: list(obj.blocks))
    observe(tag + "/identifiers", lambda: sorted(map(str, obj.identifiers)))
    observe(tag + "/identifiers_dict", lambda: obj.identifiers_dict)
    observe(tag + "/hash_stable", lambda: hash(obj) == hash(obj))
    observe(tag + "/eq_self", lambda: obj == obj)
    observe(tag + "/eq_other", lambda: obj == 5)
    observe(tag + "/strand", lambda: (obj.strand, obj.chunk_relative_strand))
    observe(tag + "/start_end", lambda: (obj.start, obj.end, obj.chunk_relative_start, obj.chunk_relative_end))
    observe(tag + "/sizes", lambda: (obj.num_blocks, obj.num_chunk_relative_blocks, obj.chunk_relative_size))
    if hasattr(obj, "get_spliced_sequence"):
        observe(tag + "/spliced", lambda: str(obj.get_spliced_sequence()))
        observe(tag + "/genomic", lambda: str(obj.get_genomic_sequence()))
        observe(tag + "/reference", lambda: str(obj.get_reference_sequence()))
        observe(tag + "/spans", lambda: (obj.chromosome_span, obj.chunk_relative_span))
        observe(tag + "/gaps", lambda: (obj.chromosome_gaps_location, obj.chunk_relative_gaps_location))
        observe(tag + "/rel_blocks", lambda: list(obj.relative_blocks))
        observe(tag + "/merge_quals", lambda: sorted((k, sorted(v)) for k, v in obj._merge_qualifiers({"a": {"z"}, "q": {"1"}}).items()))
        observe(tag + "/export_quals", lambda: obj._export_qualifiers_to_list())
    else:
        observe(tag + "/reference", lambda: str(obj.get_reference_sequence()))


def section_chunks(rng):
    genome = rand_dna(rng, 80)
    chrom_parent = seq_to_parent(genome, seq_id="chr1")
    chrom_parent_noloc = Parent(id="chr1", sequence=Sequence(genome, Alphabet.NT_STRICT, type=SequenceType.CHROMOSOME))
    other_chrom = seq_to_parent(rand_dna(rng, 80), seq_id="chr2")
    unknown_parent = Parent(id="contig", sequence=Sequence(genome, Alphabet.NT_STRICT))
    bare_parent = Parent(id="bare")
    chunk_no_chrom = Parent(
        sequence=Sequence(
            genome[5:30],
            Alphabet.NT_STRICT,
            type=SequenceType.SEQUENCE_CHUNK,
            parent=Parent(location=SingleInterval(5, 30, Strand.PLUS)),
        )
    )
    chunk_no_seq = Parent(
        id="c",
        sequence_type=SequenceType.SEQUENCE_CHUNK,
        parent=Parent(location=SingleInterval(5, 30, Strand.PLUS, parent=Parent(id="chr1", sequence_type="chromosome"))),
    )
    windows = [(0, 80), (0, 40), (10, 50), (25, 60), (40, 80), (33, 47), (70, 80)]
    chunk_parents = {}
    for s, e in windows:
        for strand in (Strand.PLUS, Strand.MINUS):
            data = genome[s:e]
            if strand is Strand.MINUS:
                data = str(Sequence(data, Alphabet.NT_STRICT).reverse_complement())
            chunk_parents["{}-{}{}".format(s, e, strand.name)] = seq_chunk_to_parent(data, "chr1", s, e, strand)
    targets = dict(chunk_parents)
    targets.update(
        {
            "none": None,
            "chrom": chrom_parent,
            "chrom_noloc": chrom_parent_noloc,
            "unknown": unknown_parent,
            "bare": bare_parent,
            "chunk_no_chrom": chunk_no_chrom,
            "chunk_no_seq": chunk_no_seq,
        }
    )

    # raw locations on the chromosome
    locations = {}
    for i in range(14):
        strand = Strand.PLUS if i % 2 == 0 else Strand.MINUS
        locations["r{}".format(i)] = rand_location(rng, 80, strand=strand, max_blocks=4)
    locations["adjacent"] = CompoundInterval([10, 20, 30], [20, 30, 45], Strand.PLUS)
    locations["overlapping"] = CompoundInterval([10, 18], [20, 35], Strand.MINUS)
    locations["whole"] = SingleInterval(0, 80, Strand.PLUS)
    locations["unstranded"] = SingleInterval(12, 30, Strand.UNSTRANDED)
    locations["empty"] = EmptyLocation()
    locations["with_chrom_parent"] = CompoundInterval([12, 40], [30, 55], Strand.MINUS, parent=chrom_parent)

    for lname, loc in locations.items():
        for tname, target in targets.items():
            tag = "lift_loc/{}/{}".format(lname, tname)
            observe(tag, lambda: AbstractInterval.liftover_location_to_seq_chunk_parent(loc, target))
            observe(
                tag + "/seq",
                lambda: str(AbstractInterval.liftover_location_to_seq_chunk_parent(loc, target).extract_sequence()),
            )
            observe(
                tag + "/back",
                lambda: AbstractInterval.liftover_location_to_seq_chunk_parent(
                    loc, target
                ).lift_over_to_first_ancestor_of_type("chromosome"),
            )

    # chunk -> chunk (location already chunk relative)
    for lname in ("r0", "r1", "r2", "r3", "adjacent", "overlapping"):
        for src in ("0-40PLUS", "10-50MINUS", "25-60PLUS", "0-80MINUS"):
            try:
                on_chunk = AbstractInterval.liftover_location_to_seq_chunk_parent(locations[lname], chunk_parents[src])
            except Exception:
                continue
            if on_chunk.is_empty:
                continue
            for tname, target in targets.items():
                tag = "relift/{}/{}/{}".format(lname, src, tname)
                observe(tag, lambda: AbstractInterval.liftover_location_to_seq_chunk_parent(on_chunk, target))
    # chunk without chromosome -> anything
    orphan = SingleInterval(2, 9, Strand.PLUS, parent=chunk_no_chrom)
    for tname, target in targets.items():
        observe(
            "relift_orphan/" + tname, lambda: AbstractInterval.liftover_location_to_seq_chunk_parent(orphan, target)
        )
    # location on a different chromosome
    foreign_chunk = seq_chunk_to_parent(str(other_chrom.sequence)[0:40], "chr2", 0, 40)
    foreign_loc = AbstractInterval.liftover_location_to_seq_chunk_parent(SingleInterval(3, 20, Strand.PLUS), foreign_chunk)
    for tname in ("0-40PLUS", "chrom", "unknown", "bare"):
        observe(
            "relift_foreign/" + tname,
            lambda: AbstractInterval.liftover_location_to_seq_chunk_parent(foreign_loc, targets[tname]),
        )

    # initialize_location
    block_sets = [
        ([5], [25]),
        ([5, 30], [25, 44]),
        ([5, 30, 60], [25, 44, 78]),
        ([12, 20], [20, 33]),
        ([5, 30], [25]),
        ([50], [79]),
    ]
    for bi, (starts, ends) in enumerate(block_sets):
        for strand in (Strand.PLUS, Strand.MINUS):
            for tname, target in targets.items():
                observe(
                    "init_loc/{}/{}/{}".format(bi, strand.name, tname),
                    lambda: AbstractInterval.initialize_location(starts, ends, strand, target),
                )

    # full interval objects
    feature_targets = ["none", "chrom", "chrom_noloc", "unknown", "bare", "0-40PLUS", "10-50MINUS", "25-60PLUS",
                       "40-80MINUS", "33-47PLUS", "70-80PLUS", "0-80MINUS"]
    features = {}
    for bi, (starts, ends) in enumerate(block_sets):
        if len(starts) != len(ends):
            continue
        for strand in (Strand.PLUS, Strand.MINUS):
            for tname in feature_targets:
                tag = "feature/{}/{}/{}".format(bi, strand.name, tname)
                try:
                    feat = FeatureInterval(
                        starts,
                        ends,
                        strand,
                        qualifiers={"a": ["b", "c"], "n": [1]},
                        sequence_name="chr1",
                        feature_types=["t"],
                        feature_name="fname",
                        feature_id="fid" if bi % 2 else None,
                        parent_or_seq_chunk_parent=targets[tname],
                    )
                except Exception as e:  # noqa
                    observe(tag + "/ctor", lambda: (_ for _ in ()).throw(e))
                    continue
                features[(bi, strand.name, tname)] = feat
                interval_observations(tag, feat)
                for t2 in ("none", "chrom", "25-60PLUS", "10-50MINUS", "unknown", "bare"):
                    if targets[t2] is None:
                        continue
                    observe(
                        "{}/relift/{}".format(tag, t2),
                        lambda: feat.liftover_to_parent_or_seq_chunk_parent(targets[t2]).chunk_relative_location,
                    )
                    observe(
                        "{}/relift_dict/{}".format(tag, t2),
                        lambda: feat.liftover_to_parent_or_seq_chunk_parent(targets[t2]).to_dict(),
                    )
                observe(
                    tag + "/relift_foreign",
                    lambda: feat.liftover_to_parent_or_seq_chunk_parent(foreign_chunk).chunk_relative_location,
                )

    # transcripts with CDS
    for tname in feature_targets:
        for strand in (Strand.PLUS, Strand.MINUS):
            tag = "tx/{}/{}".format(strand.name, tname)
            try:
                tx = TranscriptInterval(
                    [5, 30, 60],
                    [25, 44, 78],
                    strand,
                    cds_starts=[10, 30, 60],
                    cds_ends=[25, 44, 70],
                    cds_frames=[CDSFrame.ZERO, CDSFrame.ZERO, CDSFrame.TWO]
                    if strand is Strand.PLUS
                    else [CDSFrame.ZERO, CDSFrame.ONE, CDSFrame.ZERO],
                    transcript_id="tx1",
                    sequence_name="chr1",
                    parent_or_seq_chunk_parent=targets[tname],
                )
            except Exception as e:  # noqa
                observe(tag + "/ctor", lambda: (_ for _ in ()).throw(e))
                continue
            interval_observations(tag, tx)
            observe(tag + "/cds_chunk_loc", lambda: tx.cds.chunk_relative_location)
            observe(tag + "/cds_chrom_loc", lambda: tx.cds.chromosome_location)
            observe(tag + "/cds_bounded", lambda: tx.cds._chunk_relative_bounded_chromosome_location)
            observe(tag + "/cds_seq", lambda: str(tx.get_cds_sequence()))
            observe(
                tag + "/relift",
                lambda: tx.liftover_to_parent_or_seq_chunk_parent(targets["25-60PLUS"]).chunk_relative_location,
            )

    # collections
    for tname in feature_targets:
        tag = "gene/" + tname
        try:
            txs = [
                TranscriptInterval(
                    [5, 30], [25, 44], Strand.PLUS, cds_starts=[10, 30], cds_ends=[25, 40],
                    cds_frames=[CDSFrame.ZERO, CDSFrame.ZERO], transcript_id="t1",
                    parent_or_seq_chunk_parent=targets[tname],
                ),
                TranscriptInterval([8, 50], [20, 70], Strand.PLUS, transcript_id="t2",
                                   parent_or_seq_chunk_parent=targets[tname]),
            ]
            gene = GeneInterval(txs, gene_id="g1", gene_symbol="sym", sequence_name="chr1",
                                parent_or_seq_chunk_parent=targets[tname])
        except Exception as e:  # noqa
            observe(tag + "/ctor", lambda: (_ for _ in ()).throw(e))
        else:
            interval_observations(tag, gene)
            observe(tag + "/primary", lambda: gene.primary_transcript.transcript_id)
            observe(
                tag + "/relift",
                lambda: gene.liftover_to_parent_or_seq_chunk_parent(targets["25-60PLUS"]).chunk_relative_location,
            )
            observe(
                tag + "/relift_children",
                lambda: [
                    t.chunk_relative_location
                    for t in gene.liftover_to_parent_or_seq_chunk_parent(targets["10-50MINUS"]).transcripts
                ],
            )
        tag = "fcoll/" + tname
        try:
            feats = [
                FeatureInterval([5, 30], [25, 44], Strand.MINUS, feature_name="f1",
                                parent_or_seq_chunk_parent=targets[tname]),
                FeatureInterval([48], [66], Strand.PLUS, feature_name="f2", is_primary_feature=True,
                                parent_or_seq_chunk_parent=targets[tname]),
            ]
            coll = FeatureIntervalCollection(feats, feature_collection_name="fc", sequence_name="chr1",
                                             parent_or_seq_chunk_parent=targets[tname])
        except Exception as e:  # noqa
            observe(tag + "/ctor", lambda: (_ for _ in ()).throw(e))
        else:
            interval_observations(tag, coll)
            observe(tag + "/primary", lambda: coll.primary_feature.feature_name)
            observe(
                tag + "/relift",
                lambda: coll.liftover_to_parent_or_seq_chunk_parent(targets["25-60PLUS"]).chunk_relative_location,
            )
        tag = "anncoll/" + tname
        try:
            ac = AnnotationCollection(
                feature_collections=[coll], genes=[gene], sequence_name="chr1",
                parent_or_seq_chunk_parent=targets[tname],
            )
        except Exception as e:  # noqa
            observe(tag + "/ctor", lambda: (_ for _ in ()).throw(e))
        else:
            observe(tag + "/to_dict", lambda: ac.to_dict())
            observe(tag + "/chunk_loc", lambda: ac.chunk_relative_location)
            observe(tag + "/chrom_loc", lambda: ac.chromosome_location)
            observe(tag + "/parent_dict", lambda: ac._parent_to_dict())
            for qs, qe in ((0, 80), (20, 50), (26, 43), (60, 80)):
                observe(
                    "{}/query/{}-{}".format(tag, qs, qe),
                    lambda: ac.query_by_position(qs, qe, completely_within=False).to_dict(),
                )
                observe(
                    "{}/query_expand/{}-{}".format(tag, qs, qe),
                    lambda: [
                        c.chunk_relative_location
                        for c in ac.query_by_position(
                            qs, qe, completely_within=False, expand_location_to_children=True
                        ).iter_children()
                    ],
                )


def dump(path):
    rng = random.Random(20240)
    section_hierarchies(rng)
    section_parent_misc(random.Random(1))
    section_sequence_misc(random.Random(2))
    section_parser(random.Random(3))
    section_chunks(random.Random(4))
    with open(path, "w") as fh:
        json.dump(RESULTS, fh, indent=0, sort_keys=True)
    n_exc = sum(1 for v in RESULTS.values() if v.startswith("EXC "))
    print("wrote {} observations ({} of them exceptions) to {}".format(len(RESULTS), n_exc, path))


def compare(path_a, path_b):
    with open(path_a) as fh:
        a = json.load(fh)
    with open(path_b) as fh:
        b = json.load(fh)
    bad = [k for k in sorted(set(a) | set(b)) if a.get(k) != b.get(k)]
    for k in bad[:40]:
        print("DIFF", k)
        print("   A:", a.get(k))
        print("   B:", b.get(k))
    print("{} observations compared, {} differences".format(len(set(a) | set(b)), len(bad)))
    return 1 if bad else 0


if __name__ == "__main__":
    if sys.argv[1] == "dump":
        dump(sys.argv[2])
    elif sys.argv[1] == "compare":
        sys.exit(compare(sys.argv[2], sys.argv[3]))
    else:
        raise SystemExit(__doc__)
