"""
Equivalence script for property C20 (gene / feature collection / annotation collection aggregates).

Usage (from the worktree root):

    /venv/bin/python _refactor/R2/equiv.py save /tmp/c20_ref.json      # on the pristine checkout
    git apply _refactor/R2/patch.diff
    /venv/bin/python _refactor/R2/equiv.py compare /tmp/c20_ref.json   # on the refactored checkout

Every observation is turned into a string (repr / str / to_dict, or "EXC:<type>:<message>" if the call raised)
so that the two runs can be compared literally.
"""
import os
import sys

HASHSEED = os.environ.get("EQUIV_HASHSEED", "0")  # use the same value for the save and the compare run
if os.environ.get("PYTHONHASHSEED") != HASHSEED:
    # reprs contain sets of strings: pin the hash seed so that two runs are literally comparable
    os.environ["PYTHONHASHSEED"] = HASHSEED
    os.execv(sys.executable, [sys.executable] + sys.argv)

sys.path.insert(0, os.getcwd())  # run from the worktree root

import inscripta.biocantor.location  # noqa: F401,E402  (must be first: circular import otherwise)

import json
import pickle
import random
from uuid import UUID

from inscripta.biocantor.gene.cds import CDSInterval
from inscripta.biocantor.gene.cds_frame import CDSFrame
from inscripta.biocantor.gene.biotype import Biotype
from inscripta.biocantor.gene.collections import AnnotationCollection
from inscripta.biocantor.gene.feature import FeatureInterval, FeatureIntervalCollection
from inscripta.biocantor.gene.gene import GeneInterval
from inscripta.biocantor.gene.interval import AbstractFeatureIntervalCollection
from inscripta.biocantor.gene.transcript import TranscriptInterval
from inscripta.biocantor.gene.variants import VariantInterval, VariantIntervalCollection
from inscripta.biocantor.location import SingleInterval, CompoundInterval, Strand
from inscripta.biocantor.parent import Parent, SequenceType
from inscripta.biocantor.sequence import Sequence, Alphabet

RNG = random.Random(20)
GENOME = "".join(RNG.choice("ACGT") for _ in range(600))
CHUNK_START, CHUNK_END = 50, 550
SMALL_CHUNK_START, SMALL_CHUNK_END = 200, 400


# copies of inscripta.biocantor.io.parser.seq_to_parent / seq_chunk_to_parent (that module cannot be imported here)
def seq_to_parent(seq, alphabet=Alphabet.NT_EXTENDED_GAPPED, seq_id=None, seq_type=SequenceType.CHROMOSOME):
    return Parent(
        sequence=Sequence(seq, alphabet, type=seq_type, id=seq_id), location=SingleInterval(0, len(seq), Strand.PLUS)
    )


def seq_chunk_to_parent(seq, sequence_name, start, end, strand=Strand.PLUS, alphabet=Alphabet.NT_EXTENDED_GAPPED):
    chunk_id = f"{sequence_name}:{start}-{end}"
    return Parent(
        id=chunk_id,
        sequence=Sequence(
            seq,
            alphabet,
            id=chunk_id,
            type=SequenceType.SEQUENCE_CHUNK,
            parent=Parent(
                location=SingleInterval(
                    start,
                    end,
                    strand,
                    parent=Parent(id=sequence_name, sequence_type=SequenceType.CHROMOSOME),
                )
            ),
        ),
    )


class _FakeCgrangesModule:
    """Minimal pure-python stand-in for the optional `cgranges` dependency, so that the optimized query is exercised."""

    class cgranges:  # noqa: N801
        def __init__(self):
            self.items = []

        def add(self, ctg, st, en, label):
            self.items.append((st, en, label))

        def index(self):
            self.items.sort(key=lambda x: (x[0], x[1]))

        def overlap(self, ctg, st, en):
            for s, e, label in self.items:
                if s < en and st < e:
                    yield s, e, label


def with_fake_cgranges(fn):
    import inscripta.biocantor.gene.collections as mod

    missing = object()
    saved = (mod.HAS_CGRANGES, getattr(mod, "cgranges", missing))
    mod.HAS_CGRANGES, mod.cgranges = True, _FakeCgrangesModule
    try:
        return fn()
    finally:
        mod.HAS_CGRANGES = saved[0]
        if saved[1] is missing:
            del mod.cgranges
        else:
            mod.cgranges = saved[1]


def make_parents():
    return {
        "none": None,
        "chrom": seq_to_parent(GENOME, seq_id="chr1"),
        "chunk": seq_chunk_to_parent(GENOME[CHUNK_START:CHUNK_END], "chr1", CHUNK_START, CHUNK_END),
        "smallchunk": seq_chunk_to_parent(
            GENOME[SMALL_CHUNK_START:SMALL_CHUNK_END], "chr1", SMALL_CHUNK_START, SMALL_CHUNK_END
        ),
        "noseq": Parent(id="chr1", sequence_type=SequenceType.CHROMOSOME),
    }


def show(x):
    """Stable string form of a result."""
    if isinstance(x, dict):
        return "{" + ", ".join(f"{show(k)}: {show(v)}" for k, v in x.items()) + "}"
    if isinstance(x, (set, frozenset)):
        return "set(" + ", ".join(sorted(show(v) for v in x)) + ")"
    if isinstance(x, (list, tuple)):
        return type(x).__name__ + "[" + ", ".join(show(v) for v in x) + "]"
    if isinstance(x, (FeatureInterval, TranscriptInterval)):
        return f"{str(x)}|guid={x.guid}|dict={show(x.to_dict())}|rel={x.chunk_relative_location!r}"
    if isinstance(x, (GeneInterval, FeatureIntervalCollection)):
        return f"{x!r}|guid={x.guid}|dict={show(x.to_dict())}|loc={x.chunk_relative_location!r}"
    if isinstance(x, AnnotationCollection):
        return f"{x!r}|guid={x.guid}|loc={x._location!r}|" + snap(lambda: show(x.to_dict()))
    if isinstance(x, (Sequence, CDSInterval)):
        return f"{type(x).__name__}:{str(x)}"
    return repr(x)


def snap(fn):
    try:
        return show(fn())
    except Exception as e:  # noqa
        return f"EXC:{type(e).__name__}:{e}"


def random_blocks(rng, lo, hi, nmax=4):
    n = rng.randint(1, nmax)
    points = sorted(rng.sample(range(lo, hi), 2 * n))
    starts = points[0::2]
    ends = points[1::2]
    return starts, ends


def cds_within(rng, starts, ends, strand):
    """Pick a CDS inside the exons; return (cds_starts, cds_ends, frames)."""
    positions = [p for s, e in zip(starts, ends) for p in range(s, e)]
    if len(positions) < 4:
        return None
    i = rng.randrange(0, len(positions) - 3)
    j = rng.randrange(i + 3, len(positions) + 1)
    cs, ce = positions[i], positions[j - 1] + 1
    cds_starts, cds_ends = [], []
    for s, e in zip(starts, ends):
        a, b = max(s, cs), min(e, ce)
        if a < b:
            cds_starts.append(a)
            cds_ends.append(b)
    if len(cds_starts) == 1:
        loc = SingleInterval(cds_starts[0], cds_ends[0], strand)
    else:
        loc = CompoundInterval(cds_starts, cds_ends, strand)
    frames = CDSInterval.construct_frames_from_location(loc, rng.choice([CDSFrame.ZERO, CDSFrame.ONE, CDSFrame.TWO]))
    return cds_starts, cds_ends, frames


def make_tx_spec(rng, idx, lo=60, hi=540, force_coding=None, primary=None):
    starts, ends = random_blocks(rng, lo, hi)
    strand = rng.choice([Strand.PLUS, Strand.MINUS])
    coding = rng.random() < 0.6 if force_coding is None else force_coding
    spec = dict(
        exon_starts=starts,
        exon_ends=ends,
        strand=strand,
        transcript_id=f"tx{idx}",
        transcript_symbol=f"sym{idx}" if rng.random() < 0.7 else None,
        transcript_type=rng.choice([Biotype.protein_coding, Biotype.lncRNA, None]),
        qualifiers={"note": [f"n{idx}"]} if rng.random() < 0.5 else None,
        is_primary_tx=primary,
        sequence_name="chr1",
    )
    if coding:
        cds = cds_within(rng, starts, ends, strand)
        if cds:
            spec.update(cds_starts=cds[0], cds_ends=cds[1], cds_frames=cds[2], protein_id=f"prot{idx}")
    return spec


def make_feat_spec(rng, idx, lo=60, hi=540, primary=None):
    starts, ends = random_blocks(rng, lo, hi, nmax=3)
    return dict(
        interval_starts=starts,
        interval_ends=ends,
        strand=rng.choice([Strand.PLUS, Strand.MINUS, Strand.UNSTRANDED]),
        feature_types=rng.choice([None, ["promoter"], ["tfbs", "enhancer"], ["promoter", "tfbs"]]),
        feature_name=f"feat{idx}",
        feature_id=f"fid{idx}" if rng.random() < 0.6 else None,
        qualifiers={"q": [f"v{idx}", "shared"]} if rng.random() < 0.5 else None,
        is_primary_feature=primary,
        sequence_name="chr1",
    )


def primary_flags(rng, n):
    mode = rng.choice(["none", "none", "one", "one", "several", "false"])
    if mode == "none":
        return [None] * n
    if mode == "false":
        return [False] * n
    if mode == "one":
        k = rng.randrange(n)
        return [True if i == k else rng.choice([None, False]) for i in range(n)]
    flags = [rng.choice([True, None]) for _ in range(n)]
    flags[0] = True
    flags[-1] = True
    return flags


def gene_kwargs(rng, idx):
    return dict(
        gene_id=f"gene{idx}" if rng.random() < 0.8 else None,
        gene_symbol=f"gsym{idx}" if rng.random() < 0.8 else None,
        gene_type=rng.choice([Biotype.protein_coding, Biotype.lncRNA, None]),
        locus_tag=f"lt{idx}" if rng.random() < 0.5 else None,
        qualifiers=rng.choice([None, {"gene_id": ["other"], "k": ["a", "b"]}, {"locus_tag": ["zzz"]}]),
        sequence_name="chr1",
    )


def fc_kwargs(rng, idx):
    return dict(
        feature_collection_name=f"fc{idx}" if rng.random() < 0.8 else None,
        feature_collection_id=f"fcid{idx}" if rng.random() < 0.8 else None,
        feature_collection_type=rng.choice([None, "regulatory"]),
        locus_tag=f"flt{idx}" if rng.random() < 0.5 else None,
        qualifiers=rng.choice([None, {"feature_type": ["x"], "k": ["a"]}, {"locus_tag": ["zzz"]}]),
        sequence_name="chr1",
    )


def make_variants(parent):
    v1 = VariantInterval(100, 101, "G", "SNV", parent_or_seq_chunk_parent=parent)
    v2 = VariantInterval(300, 303, "A", "deletion", parent_or_seq_chunk_parent=parent)
    return v1, VariantIntervalCollection([v1, v2], "vc", "vcid", sequence_name="chr1", parent_or_seq_chunk_parent=parent)


def observe_gene(out, key, gene, parents, pname):
    o = lambda name, fn: out.__setitem__(f"{key}.{name}", snap(fn))  # noqa: E731
    o("repr", lambda: repr(gene))
    o("span", lambda: (gene.start, gene.end, gene.genomic_start, gene.genomic_end, gene.bin))
    o("rel_span", lambda: (gene.chunk_relative_start, gene.chunk_relative_end))
    o("location", lambda: gene.chunk_relative_location)
    o("chrom_location", lambda: gene.chromosome_location)
    o("strand", lambda: gene.strand)
    o("guid", lambda: gene.guid)
    o("guid_map", lambda: [(k, str(v)) for k, v in gene.guid_map.items()])
    o("children_guids", lambda: gene.children_guids)
    o("is_coding", lambda: gene.is_coding)
    o("id_name", lambda: (gene.id, gene.name, gene.identifiers))
    o("iter", lambda: [str(x) for x in gene])
    o("iter_children", lambda: [str(x) for x in gene.iter_children()])
    o("primary_identity", lambda: [x is gene.primary_transcript for x in gene.transcripts])
    o("get_primary_transcript", lambda: gene.get_primary_transcript())
    o("get_primary_feature", lambda: gene.get_primary_feature())
    o("get_primary_cds", lambda: gene.get_primary_cds())
    o("get_primary_transcript_sequence", lambda: gene.get_primary_transcript_sequence())
    o("get_primary_feature_sequence", lambda: gene.get_primary_feature_sequence())
    o("get_primary_cds_sequence", lambda: gene.get_primary_cds_sequence())
    o("get_primary_protein", lambda: gene.get_primary_protein())
    o("get_merged_transcript", lambda: gene.get_merged_transcript())
    o("get_merged_feature", lambda: gene.get_merged_feature())
    o("get_merged_cds", lambda: gene.get_merged_cds())
    o("merged_blocks", lambda: gene.get_merged_transcript().chromosome_location.blocks)
    o("merged_cds_blocks", lambda: gene.get_merged_cds().chromosome_location.blocks)
    o("to_dict", lambda: gene.to_dict())
    o("to_dict_rel", lambda: gene.to_dict(chromosome_relative_coordinates=False))
    o("export_qualifiers", lambda: list(gene.export_qualifiers().items()))
    o("export_qualifiers_fresh", lambda: gene.export_qualifiers() is not gene.qualifiers)
    o("reference_sequence", lambda: gene.get_reference_sequence())
    o("to_gff", lambda: [str(r) for r in gene.to_gff()])
    o("to_gff_rel", lambda: [str(r) for r in gene.to_gff(chromosome_relative_coordinates=False)])
    o("to_gff_noraise", lambda: [str(r) for r in gene.to_gff(True, False)])
    guids = [tx.guid for tx in gene.transcripts]
    o("query_one", lambda: gene.query_by_guids(guids[-1]))
    o("query_list", lambda: gene.query_by_guids(list(reversed(guids))))
    o("query_some", lambda: gene.query_by_guids(guids[::2] + [UUID(int=5)]))
    o("query_missing", lambda: gene.query_by_guids([UUID(int=1)]))
    o("query_empty", lambda: gene.query_by_guids([]))
    o("query_tuple", lambda: gene.query_by_guids(tuple(guids[:1])))
    o("from_dict", lambda: GeneInterval.from_dict(gene.to_dict(), parents[pname]))
    o("from_dict_noparent", lambda: GeneInterval.from_dict(gene.to_dict()))
    o("eq_roundtrip", lambda: GeneInterval.from_dict(gene.to_dict(), parents[pname]) == gene)
    for vname in ("none", pname):
        try:
            v1, vc = make_variants(parents[vname])
        except Exception as e:  # noqa
            out[f"{key}.variants.{vname}"] = f"EXC:{type(e).__name__}:{e}"
            continue
        o(f"incorporate_variant.{vname}", lambda: gene.incorporate_variants(v1))
        o(f"incorporate_variants.{vname}", lambda: gene.incorporate_variants(vc))


def observe_fc(out, key, fc, parents, pname):
    o = lambda name, fn: out.__setitem__(f"{key}.{name}", snap(fn))  # noqa: E731
    o("repr", lambda: repr(fc))
    o("span", lambda: (fc.start, fc.end, fc.genomic_start, fc.genomic_end, fc.bin))
    o("rel_span", lambda: (fc.chunk_relative_start, fc.chunk_relative_end))
    o("location", lambda: fc.chunk_relative_location)
    o("strand", lambda: fc.strand)
    o("guid", lambda: fc.guid)
    o("guid_map", lambda: [(k, str(v)) for k, v in fc.guid_map.items()])
    o("children_guids", lambda: fc.children_guids)
    o("is_coding", lambda: fc.is_coding)
    o("feature_types", lambda: (type(fc.feature_types).__name__, fc.feature_types))
    o("feature_types_fresh", lambda: [fc.feature_types is f.feature_types for f in fc.feature_intervals])
    o("collection_type", lambda: fc.feature_collection_type)
    o("id_name", lambda: (fc.id, fc.name, fc.identifiers))
    o("iter", lambda: [str(x) for x in fc])
    o("primary_identity", lambda: [x is fc.primary_feature for x in fc.feature_intervals])
    o("get_primary_feature", lambda: fc.get_primary_feature())
    o("get_primary_feature_sequence", lambda: fc.get_primary_feature_sequence())
    o("get_merged_feature", lambda: fc.get_merged_feature())
    o("merged_blocks", lambda: fc.get_merged_feature().chromosome_location.blocks)
    o("merged_types", lambda: fc.get_merged_feature().feature_types)
    o("to_dict", lambda: fc.to_dict())
    o("to_dict_rel", lambda: fc.to_dict(chromosome_relative_coordinates=False))
    o("export_qualifiers", lambda: list(fc.export_qualifiers().items()))
    o("reference_sequence", lambda: fc.get_reference_sequence())
    o("to_gff", lambda: [str(r) for r in fc.to_gff()])
    o("to_gff_rel", lambda: [str(r) for r in fc.to_gff(chromosome_relative_coordinates=False)])
    guids = [f.guid for f in fc.feature_intervals]
    o("query_one", lambda: fc.query_by_guids(guids[-1]))
    o("query_list", lambda: fc.query_by_guids(list(reversed(guids))))
    o("query_some", lambda: fc.query_by_guids(guids[::2] + [UUID(int=5)]))
    o("query_missing", lambda: fc.query_by_guids([UUID(int=1)]))
    o("query_empty", lambda: fc.query_by_guids([]))
    o("from_dict", lambda: FeatureIntervalCollection.from_dict(fc.to_dict(), parents[pname]))
    o("eq_roundtrip", lambda: FeatureIntervalCollection.from_dict(fc.to_dict(), parents[pname]) == fc)
    for vname in ("none", pname):
        try:
            v1, vc = make_variants(parents[vname])
        except Exception as e:  # noqa
            out[f"{key}.variants.{vname}"] = f"EXC:{type(e).__name__}:{e}"
            continue
        o(f"incorporate_variant.{vname}", lambda: fc.incorporate_variants(v1))
        o(f"incorporate_variants.{vname}", lambda: fc.incorporate_variants(vc))


def observe_ac(out, key, ac):
    o = lambda name, fn: out.__setitem__(f"{key}.{name}", snap(fn))  # noqa: E731
    o("repr", lambda: repr(ac))
    o("span", lambda: (ac.start, ac.end, ac.bin))
    o("location", lambda: ac._location)
    o("len", lambda: (len(ac), ac.is_empty, bool(ac)))
    o("guid", lambda: ac.guid)
    o("id_name", lambda: (ac.id, ac.name, ac.identifiers, ac.completely_within))
    o("sequence", lambda: ac.sequence)
    o("children", lambda: [f"{type(c).__name__}:{c.start}-{c.end}:{c.guid}" for c in ac.children])
    o("children_cached", lambda: ac.children is ac.children)
    o("non_variant_children", lambda: [f"{type(c).__name__}:{c.start}:{c.guid}" for c in ac.non_variant_children])
    o("iter", lambda: [f"{type(c).__name__}:{c.start}:{c.guid}" for c in ac])
    o("iter_children", lambda: [f"{type(c).__name__}:{c.start}:{c.guid}" for c in ac.iter_children()])
    o("iter_non_variant", lambda: [f"{type(c).__name__}:{c.start}:{c.guid}" for c in ac.iter_non_variant_children()])
    o("guid_map", lambda: list(ac.guid_map.keys()))
    o("children_guids", lambda: ac.children_guids)
    o("hierarchical", lambda: list(ac.hierarchical_children_guids.items()))
    o("interval_guids_to_collections", lambda: [(k, str(v.guid)) for k, v in ac.interval_guids_to_collections.items()])
    o("child_interval_guid_map", lambda: [(k, str(a.guid), str(b)) for k, (a, b) in ac._child_interval_guid_map.items()])
    o("alt_haplotypes", lambda: ac.alternative_haplotype_mapping)
    o("to_dict", lambda: ac.to_dict())
    o("to_dict_rel", lambda: ac.to_dict(chromosome_relative_coordinates=False))
    o("to_dict_parent", lambda: ac.to_dict(export_parent=True))
    o("to_gff", lambda: [str(r) for r in ac.to_gff()])
    o("to_gff_rel", lambda: [str(r) for r in ac.to_gff(chromosome_relative_coordinates=False)])
    for t in ("feature", "TRANSCRIPT", "Variant", "bogus"):
        o(f"children_by_type.{t}", lambda: [str(c.guid) for c in ac.get_children_by_type(t)])
    o("from_dict", lambda: AnnotationCollection.from_dict(ac.to_dict()))
    o("pickle", lambda: pickle.loads(pickle.dumps(ac)))
    child_guids = [c.guid for c in ac.children]
    grandchild_guids = [g.guid for c in ac.children for g in c.iter_children()]
    o("query_by_guids.one", lambda: ac.query_by_guids(child_guids[0]) if child_guids else None)
    o("query_by_guids.rev", lambda: ac.query_by_guids(list(reversed(child_guids)) + [UUID(int=3)]))
    o("query_by_guids.empty", lambda: ac.query_by_guids([]))
    o("query_by_interval_guids", lambda: ac.query_by_interval_guids(grandchild_guids[::2]))
    o("query_by_interval_guids.one", lambda: ac.query_by_interval_guids(grandchild_guids[0]) if grandchild_guids else 0)
    o("query_by_transcript_interval_guids", lambda: ac.query_by_transcript_interval_guids(grandchild_guids[::2]))
    o("query_by_feature_interval_guids", lambda: ac.query_by_feature_interval_guids(grandchild_guids[1::2]))
    o("query_ident.str", lambda: ac.query_by_feature_identifiers("gene1"))
    o("query_ident.list", lambda: ac.query_by_feature_identifiers(["gsym2", "fc1", "fcid0", "vc", "nothing"]))
    for s, e, cw, co, ex in [
        (None, None, True, False, False),
        (None, None, False, False, False),
        (100, 400, True, False, False),
        (100, 400, False, False, False),
        (100, 400, False, True, False),
        (150, 300, False, False, True),
        (0, 250, True, True, False),
        (250, None, False, False, True),
        (300, 300, True, False, False),
        (400, 100, True, False, False),
        (-1, 100, True, False, False),
        (0, 10000, True, False, False),
    ]:
        o(
            f"query_by_position.{s}.{e}.{cw}.{co}.{ex}",
            lambda: ac.query_by_position(s, e, co, cw, ex),
        )
        o(f"_query_by_position.{s}.{e}.{cw}.{co}", lambda: ac._query_by_position(s or 0, e or 600, cw, co))
        o(
            f"_optimized_query_by_position.{s}.{e}.{cw}.{co}",
            lambda: with_fake_cgranges(lambda: ac._optimized_query_by_position(s or 0, e or 600, cw, co)),
        )
        o(
            f"query_by_position.fake_cgranges.{s}.{e}.{cw}.{co}.{ex}",
            lambda: with_fake_cgranges(lambda: ac.query_by_position(s, e, co, cw, ex)),
        )
    o("_optimized_without_cgranges", lambda: ac._optimized_query_by_position(0, 600, True, False))
    try:
        v1, vc = make_variants(ac.chunk_relative_location.parent if ac._location.parent else None)
        o("incorporate_variants", lambda: ac.incorporate_variants(vc))
        o("incorporate_variant", lambda: ac.incorporate_variants(v1))
    except Exception as e:  # noqa
        out[f"{key}.variants"] = f"EXC:{type(e).__name__}:{e}"


class Stub:
    """Duck-typed interval for direct calls of _find_primary_feature (exercises len-0 truthiness)."""

    def __init__(self, name, length, cds, primary, interval_type="transcript"):
        self.name, self.length, self.cds_size, self.is_primary_feature = name, length, cds, primary
        self.interval_type = interval_type

    def __len__(self):
        return self.length

    def __repr__(self):
        return f"Stub({self.name})"


def main_observations():
    out = {}
    rng = random.Random(2020)
    parents = make_parents()

    # ---- direct calls of the primary-feature chooser -------------------------------------------------
    find = AbstractFeatureIntervalCollection._find_primary_feature
    out["find.empty"] = snap(lambda: find([]))
    stub_cases = {
        "ties_all": [Stub("a", 10, 3, False), Stub("b", 10, 3, False), Stub("c", 10, 3, None)],
        "cds_wins": [Stub("a", 100, 3, False), Stub("b", 10, 9, False), Stub("c", 50, 9, False)],
        "len_tiebreak": [Stub("a", 10, 9, False), Stub("b", 20, 9, False), Stub("c", 20, 9, False)],
        "flag_one": [Stub("a", 100, 30, False), Stub("b", 1, 0, True), Stub("c", 50, 9, False)],
        "flag_two": [Stub("a", 100, 30, True), Stub("b", 1, 0, False), Stub("c", 50, 9, True)],
        "flag_two_first_len0": [Stub("a", 0, 0, True), Stub("b", 1, 0, False), Stub("c", 50, 9, True)],
        "flag_three_mid_len0": [Stub("a", 0, 0, True), Stub("b", 0, 0, True), Stub("c", 50, 9, True)],
        "flag_three": [Stub("a", 0, 0, True), Stub("b", 4, 0, True), Stub("c", 50, 9, True)],
        "flag_len0_only": [Stub("a", 5, 0, False), Stub("b", 0, 0, True)],
        "features": [Stub("a", 5, 99, False, "feature"), Stub("b", 7, 99, False, "feature"), Stub("c", 7, 1, 0, "feature")],
        "mixed": [Stub("a", 50, 0, False, "feature"), Stub("b", 7, 3, False), Stub("c", 7, 3, False, "transcript")],
        "single": [Stub("a", 5, 0, None)],
        "tuple_input": (Stub("a", 5, 0, None), Stub("b", 6, 0, None)),
    }
    for name, stubs in stub_cases.items():
        out[f"find.{name}"] = snap(lambda: find(stubs))

    # ---- genes ------------------------------------------------------------------------------------------
    n_gene = 0
    for pname in ("none", "chrom", "chunk", "smallchunk", "noseq"):
        for rep in range(6):
            n = rng.randint(1, 5)
            flags = primary_flags(rng, n)
            lo, hi = (60, 540) if pname != "smallchunk" or rep % 2 else (150, 450)
            specs = [make_tx_spec(rng, i, lo, hi, primary=flags[i]) for i in range(n)]
            kwargs = gene_kwargs(rng, n_gene)
            key = f"gene.{pname}.{rep}"
            n_gene += 1
            try:
                txs = [TranscriptInterval(**s, parent_or_seq_chunk_parent=parents[pname]) for s in specs]
                gene = GeneInterval(txs, parent_or_seq_chunk_parent=parents[pname], **kwargs)
            except Exception as e:  # noqa
                out[key] = f"EXC:{type(e).__name__}:{e}"
                continue
            observe_gene(out, key, gene, parents, pname)

    # ties: identical structures -> earliest wins; same CDS, differing length; all non coding
    base = dict(exon_starts=[100, 200], exon_ends=[150, 260], strand=Strand.PLUS, sequence_name="chr1")
    cds = dict(cds_starts=[110, 200], cds_ends=[150, 220], cds_frames=[CDSFrame.ZERO, CDSFrame.ONE])
    tie_sets = {
        "identical": [dict(base, **cds, transcript_id="a"), dict(base, **cds, transcript_id="b")],
        "same_cds_longer_second": [
            dict(base, **cds, transcript_id="a"),
            dict(base, **cds, transcript_id="b", exon_starts=[90, 200]),
            dict(base, **cds, transcript_id="c", exon_starts=[90, 200]),
        ],
        "noncoding_longest_spliced": [
            dict(base, transcript_id="a"),
            dict(base, transcript_id="b", exon_ends=[150, 300]),
            dict(base, transcript_id="c", exon_starts=[50, 200], exon_ends=[150, 250]),
        ],
        "coding_beats_long_noncoding": [
            dict(base, transcript_id="a", exon_starts=[10, 200], exon_ends=[150, 500]),
            dict(base, **cds, transcript_id="b"),
        ],
        "mixed_strand": [
            dict(base, transcript_id="a", strand=Strand.MINUS),
            dict(base, **cds, transcript_id="b"),
            dict(base, **cds, transcript_id="c", strand=Strand.MINUS),
        ],
        "two_flags": [
            dict(base, transcript_id="a", is_primary_tx=True),
            dict(base, **cds, transcript_id="b", is_primary_tx=True),
        ],
        "flag_noncoding": [
            dict(base, **cds, transcript_id="a"),
            dict(base, transcript_id="b", is_primary_tx=True),
        ],
        "duplicate_guid": [dict(base, transcript_id="a"), dict(base, transcript_id="a")],
        "duplicate_and_two_flags": [
            dict(base, transcript_id="a", is_primary_tx=True),
            dict(base, transcript_id="a", is_primary_tx=True),
        ],
    }
    for name, specs in tie_sets.items():
        for pname in ("none", "chrom", "chunk"):
            key = f"gene.tie.{name}.{pname}"
            try:
                txs = [TranscriptInterval(**s, parent_or_seq_chunk_parent=parents[pname]) for s in specs]
                gene = GeneInterval(
                    txs, gene_id="g", gene_type=Biotype.protein_coding, sequence_name="chr1",
                    parent_or_seq_chunk_parent=parents[pname],
                )
            except Exception as e:  # noqa
                out[key] = f"EXC:{type(e).__name__}:{e}"
                continue
            observe_gene(out, key, gene, parents, pname)
    out["gene.empty"] = snap(lambda: GeneInterval([]))
    out["gene.none"] = snap(lambda: GeneInterval(None))
    tx_same = TranscriptInterval(**base)
    out["gene.same_object_twice"] = snap(lambda: GeneInterval([tx_same, tx_same]))
    out["gene.explicit_guid"] = snap(lambda: GeneInterval([tx_same], guid=UUID(int=77)).guid)
    out["gene.positional"] = snap(
        lambda: GeneInterval([tx_same], None, "gid", "gsym", Biotype.lncRNA, "lt", {"a": ["b"]}, "chr1", UUID(int=9), None)
    )
    # a transcript that lies outside of the chunk
    out["gene.outside_chunk"] = snap(
        lambda: GeneInterval(
            [TranscriptInterval([10], [40], Strand.PLUS, parent_or_seq_chunk_parent=parents["smallchunk"])],
            parent_or_seq_chunk_parent=parents["smallchunk"],
        )
    )

    # ---- feature collections ---------------------------------------------------------------------------
    n_fc = 0
    for pname in ("none", "chrom", "chunk", "smallchunk", "noseq"):
        for rep in range(5):
            n = rng.randint(1, 5)
            flags = primary_flags(rng, n)
            lo, hi = (60, 540) if pname != "smallchunk" or rep % 2 else (150, 450)
            specs = [make_feat_spec(rng, i, lo, hi, primary=flags[i]) for i in range(n)]
            kwargs = fc_kwargs(rng, n_fc)
            key = f"fc.{pname}.{rep}"
            n_fc += 1
            try:
                feats = [FeatureInterval(**s, parent_or_seq_chunk_parent=parents[pname]) for s in specs]
                fc = FeatureIntervalCollection(feats, parent_or_seq_chunk_parent=parents[pname], **kwargs)
            except Exception as e:  # noqa
                out[key] = f"EXC:{type(e).__name__}:{e}"
                continue
            observe_fc(out, key, fc, parents, pname)
    fbase = dict(interval_starts=[100, 200], interval_ends=[150, 260], strand=Strand.PLUS, sequence_name="chr1")
    f_sets = {
        "identical": [dict(fbase, feature_name="a"), dict(fbase, feature_name="b")],
        "longest_second": [dict(fbase, feature_name="a"), dict(fbase, feature_name="b", interval_ends=[150, 300])],
        "tie_len": [
            dict(fbase, feature_name="a"),
            dict(fbase, feature_name="b", interval_starts=[90, 200]),
            dict(fbase, feature_name="c", interval_ends=[160, 260]),
        ],
        "two_flags": [
            dict(fbase, feature_name="a", is_primary_feature=True),
            dict(fbase, feature_name="b", is_primary_feature=True),
        ],
        "duplicate_guid": [dict(fbase, feature_name="a"), dict(fbase, feature_name="a")],
        "duplicate_and_two_flags": [
            dict(fbase, feature_name="a", is_primary_feature=True),
            dict(fbase, feature_name="a", is_primary_feature=True),
        ],
        "overlapping_mixed_strand": [
            dict(fbase, feature_name="a", strand=Strand.MINUS, feature_types=["x"]),
            dict(fbase, feature_name="b", interval_starts=[120, 250], interval_ends=[210, 300], feature_types=["y", "x"]),
        ],
    }
    for name, specs in f_sets.items():
        for pname in ("none", "chrom", "chunk"):
            key = f"fc.tie.{name}.{pname}"
            try:
                feats = [FeatureInterval(**s, parent_or_seq_chunk_parent=parents[pname]) for s in specs]
                fc = FeatureIntervalCollection(
                    feats, feature_collection_name="fcn", sequence_name="chr1",
                    parent_or_seq_chunk_parent=parents[pname],
                )
            except Exception as e:  # noqa
                out[key] = f"EXC:{type(e).__name__}:{e}"
                continue
            observe_fc(out, key, fc, parents, pname)
    out["fc.empty"] = snap(lambda: FeatureIntervalCollection([]))
    out["fc.none"] = snap(lambda: FeatureIntervalCollection(None))
    f_same = FeatureInterval(**fbase)
    out["fc.same_object_twice"] = snap(lambda: FeatureIntervalCollection([f_same, f_same]))
    out["fc.explicit_guid"] = snap(lambda: FeatureIntervalCollection([f_same], guid=UUID(int=78)).guid)
    out["fc.positional"] = snap(
        lambda: FeatureIntervalCollection([f_same], "n", "i", "t", "lt", "chr1", UUID(int=9), None, {"a": ["b"]}, None)
    )

    # ---- annotation collections ---------------------------------------------------------------------
    for pname in ("none", "chrom", "chunk", "noseq"):
        for rep in range(5):
            key = f"ac.{pname}.{rep}"
            n_genes = rng.randint(0, 3)
            n_fcs = rng.randint(0, 3)
            if rep == 4:
                n_genes = n_fcs = 0
            try:
                genes = []
                for g in range(n_genes):
                    n = rng.randint(1, 3)
                    flags = primary_flags(rng, n)
                    if sum(1 for f in flags if f) > 1:
                        flags = [None] * n
                    txs = [
                        TranscriptInterval(
                            **make_tx_spec(rng, f"{g}_{i}", primary=flags[i]), parent_or_seq_chunk_parent=parents[pname]
                        )
                        for i in range(n)
                    ]
                    genes.append(GeneInterval(txs, parent_or_seq_chunk_parent=parents[pname], **gene_kwargs(rng, g)))
                fcs = []
                for f in range(n_fcs):
                    n = rng.randint(1, 3)
                    feats = [
                        FeatureInterval(**make_feat_spec(rng, f"{f}_{i}"), parent_or_seq_chunk_parent=parents[pname])
                        for i in range(n)
                    ]
                    fcs.append(
                        FeatureIntervalCollection(feats, parent_or_seq_chunk_parent=parents[pname], **fc_kwargs(rng, f))
                    )
                vcs = None
                if rep in (1, 3):
                    vcs = [make_variants(parents[pname])[1]]
                bounds = [(None, None), (None, None), (0, 600), (40, 560), (None, None)][rep]
                ac = AnnotationCollection(
                    fcs,
                    genes,
                    vcs,
                    name=f"ac{rep}",
                    id=f"acid{rep}" if rep % 2 else None,
                    sequence_name="chr1",
                    qualifiers={"organism": ["x"]} if rep % 2 else None,
                    start=bounds[0],
                    end=bounds[1],
                    completely_within=[None, True, False, None, None][rep],
                    parent_or_seq_chunk_parent=parents[pname],
                )
            except Exception as e:  # noqa
                out[key] = f"EXC:{type(e).__name__}:{e}"
                continue
            observe_ac(out, key, ac)
    # same start for several children (stable order: genes, feature collections, variant collections)
    tx = lambda s, e, i: TranscriptInterval([s], [e], Strand.PLUS, transcript_id=i)  # noqa: E731
    ft = lambda s, e, i: FeatureInterval([s], [e], Strand.MINUS, feature_name=i)  # noqa: E731
    same_start = AnnotationCollection(
        [FeatureIntervalCollection([ft(100, 120, "f1")], "fcA"), FeatureIntervalCollection([ft(50, 70, "f2")], "fcB")],
        [GeneInterval([tx(100, 300, "t1")], gene_id="gene1"), GeneInterval([tx(100, 110, "t2")], gene_id="gene2")],
        [make_variants(None)[1]],
    )
    observe_ac(out, "ac.same_start", same_start)
    out["ac.start_only"] = snap(lambda: AnnotationCollection(start=5))
    out["ac.end_only"] = snap(lambda: AnnotationCollection(end=5))
    out["ac.end_only_zero_start"] = snap(lambda: AnnotationCollection(start=0))
    out["ac.bounds_zero"] = snap(lambda: AnnotationCollection(start=0, end=0))
    out["ac.empty_bounds"] = snap(lambda: AnnotationCollection(start=3, end=30))
    out["ac.empty_parent"] = snap(lambda: AnnotationCollection(parent_or_seq_chunk_parent=make_parents()["chrom"]))
    out["ac.empty_chunk_parent"] = snap(lambda: AnnotationCollection(parent_or_seq_chunk_parent=make_parents()["chunk"]))
    observe_ac(out, "ac.totally_empty", AnnotationCollection())
    observe_ac(out, "ac.only_variants", AnnotationCollection(variant_collections=[make_variants(None)[1]]))
    dup_gene = GeneInterval([tx(100, 300, "t1")], gene_id="gene1")
    observe_ac(out, "ac.duplicate_children", AnnotationCollection(genes=[dup_gene, dup_gene]))
    return out


def check_new_optional_parameter():
    """R2 adds a trailing optional parameter to _find_primary_feature; its default must be today's behaviour."""
    import inspect

    find = AbstractFeatureIntervalCollection._find_primary_feature
    if "infer_if_unflagged" not in inspect.signature(find).parameters:
        print("(pristine signature: no infer_if_unflagged parameter to check)")
        return 0
    bad = 0
    cases = [
        [Stub("a", 10, 3, False), Stub("b", 10, 3, False), Stub("c", 12, 3, None)],
        [Stub("a", 100, 3, False), Stub("b", 10, 9, True), Stub("c", 50, 9, False)],
        [Stub("a", 5, 0, None, "feature")],
    ]
    for stubs in cases:
        default = find(stubs)
        if find(stubs, True) is not default or find(stubs, infer_if_unflagged=True) is not default:
            bad += 1
        flagged = [x for x in stubs if x.is_primary_feature]
        expected = flagged[0] if flagged else None
        if find(stubs, False) is not expected:
            bad += 1
    print(f"new optional parameter: {bad} inconsistencies")
    return bad


def main():
    mode, path = sys.argv[1], sys.argv[2]
    obs = main_observations()
    if mode == "compare" and check_new_optional_parameter():
        sys.exit(1)
    if mode == "save":
        with open(path, "w") as fh:
            json.dump(obs, fh, indent=0, sort_keys=True)
        n_exc = sum(1 for v in obs.values() if v.startswith("EXC:"))
        print(f"saved {len(obs)} observations ({n_exc} of them exceptions) to {path}")
    else:
        with open(path) as fh:
            ref = json.load(fh)
        bad = [k for k in sorted(set(ref) | set(obs)) if ref.get(k) != obs.get(k)]
        for k in bad[:20]:
            print(f"DIFF {k}\n   ref: {str(ref.get(k))[:400]}\n   new: {str(obs.get(k))[:400]}")
        print(f"compared {len(obs)} observations against {len(ref)}: {len(bad)} differences")
        sys.exit(1 if bad else 0)


if __name__ == "__main__":
    main()
