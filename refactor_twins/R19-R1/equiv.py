"""Equivalence script for R1 (util/object_validation.py, parent/parent.py constructor).

Usage (from the worktree root):
    /venv/bin/python _refactor/R1/equiv.py save /tmp/r1_pristine.json     # on pristine code
    /venv/bin/python _refactor/R1/equiv.py check /tmp/r1_pristine.json    # with patch applied
"""
import itertools
import json
import os
import sys

if os.environ.get("PYTHONHASHSEED") != "0":  # set reprs appear in messages; make them reproducible
    os.environ["PYTHONHASHSEED"] = "0"
    os.execv(sys.executable, [sys.executable] + sys.argv)
sys.path.insert(0, os.getcwd())  # run from the worktree root

import inscripta.biocantor.location  # noqa: F401  (must come first; circular import otherwise)
from inscripta.biocantor.location import SingleInterval, CompoundInterval, EmptyLocation, Strand
from inscripta.biocantor.parent import Parent
from inscripta.biocantor.parent.parent import _unique_value_or_none
from inscripta.biocantor.sequence import Sequence, Alphabet
from inscripta.biocantor.sequence.sequence import SequenceType
from inscripta.biocantor.util.object_validation import ObjectValidation


def outcome(fn, *args, **kwargs):
    try:
        r = fn(*args, **kwargs)
    except BaseException as e:  # noqa
        return ["EXC", type(e).__module__ + "." + type(e).__name__, str(e)]
    return ["OK", repr(r), str(r)]


def parent_outcome(**kwargs):
    try:
        p = Parent(**kwargs)
    except BaseException as e:  # noqa
        return ["EXC", type(e).__module__ + "." + type(e).__name__, str(e)]
    return [
        "OK",
        repr(p),
        repr(p.id),
        repr(p.sequence_type),
        repr(p.strand),
        repr(p.location),
        repr(p.sequence),
        repr(p.parent),
        hash(p) == hash(Parent(**kwargs)),
    ]


def main():
    results = {}

    # ---------------------------------------------------------------- _unique_value_or_none
    for vals in itertools.product([None, "a", "b", SequenceType.CHROMOSOME], repeat=3):
        out = outcome(_unique_value_or_none, vals)
        if out[0] == "EXC":
            # message shows a set whose order depends on hashing of str; compare sorted characters instead
            out[2] = "".join(sorted(out[2]))
        results[f"unique:{vals!r}"] = out

    # ---------------------------------------------------------------- Parent constructor
    grandparent_seq_long = Sequence("ACGTACGTACGTACGTACGT", Alphabet.NT_STRICT, id="gp", type="chromosome")
    grandparent_seq_short = Sequence("ACG", Alphabet.NT_STRICT, id="gp", type="chromosome")
    gp_long = Parent(sequence=grandparent_seq_long)
    gp_short = Parent(sequence=grandparent_seq_short)
    gp_noseq = Parent(id="gp", sequence_type="chromosome")
    gp_other = Parent(id="other", sequence_type="chromosome")

    sequences = {
        "none": None,
        "plain": Sequence("ACGTACGTAC", Alphabet.NT_STRICT),
        "id_s1": Sequence("ACGTACGTAC", Alphabet.NT_STRICT, id="s1"),
        "id_s1_type": Sequence("ACGTACGTAC", Alphabet.NT_STRICT, id="s1", type="chunk"),
        "with_parent_long": Sequence(
            "ACGTACGTAC",
            Alphabet.NT_STRICT,
            id="s1",
            type="chunk",
            parent=Parent(location=SingleInterval(2, 12, Strand.PLUS), sequence=grandparent_seq_long),
        ),
        "with_parent_noseq": Sequence(
            "ACGTACGTAC", Alphabet.NT_STRICT, id="s1", parent=Parent(id="gp", sequence_type="chromosome")
        ),
    }
    locations = {
        "none": None,
        "single_plus": SingleInterval(2, 6, Strand.PLUS),
        "single_minus": SingleInterval(2, 6, Strand.MINUS),
        "single_unstranded": SingleInterval(0, 10, Strand.UNSTRANDED),
        "single_too_long": SingleInterval(5, 15, Strand.PLUS),
        "single_zero": SingleInterval(3, 3, Strand.PLUS),
        "compound_minus": CompoundInterval([0, 5], [3, 9], Strand.MINUS),
        "compound_too_long": CompoundInterval([0, 5], [3, 11], Strand.PLUS),
        "with_parent_id": SingleInterval(1, 4, Strand.PLUS, parent="s1"),
        "with_parent_other_id": SingleInterval(1, 4, Strand.MINUS, parent="zzz"),
        "with_typed_parent": SingleInterval(1, 4, Strand.PLUS, parent=Parent(id="s1", sequence_type="chunk")),
        "with_other_typed_parent": SingleInterval(1, 4, Strand.PLUS, parent=Parent(sequence_type="weird")),
        "empty": EmptyLocation(),
    }
    strands = {"none": None, "plus": Strand.PLUS, "minus": Strand.MINUS, "unstranded": Strand.UNSTRANDED}
    ids = {"none": None, "s1": "s1", "x": "x"}
    seqtypes = {"none": None, "chunk": "chunk", "chrom_enum": SequenceType.CHROMOSOME}
    parents = {
        "none": None,
        "gp_long": gp_long,
        "gp_short": gp_short,
        "gp_noseq": gp_noseq,
        "gp_other": gp_other,
        "str": "gp",
        "seq": grandparent_seq_long,
        "loc": SingleInterval(2, 12, Strand.PLUS),
    }

    n = 0
    for (kid, vid), (kt, vt), (ks, vs), (kl, vl), (kq, vq), (kp, vp) in itertools.product(
        ids.items(), seqtypes.items(), strands.items(), locations.items(), sequences.items(), parents.items()
    ):
        # thin the grid deterministically to keep the run time reasonable, keeping every pairwise-ish combination
        n += 1
        if n % 7 not in (0, 3):
            continue
        key = f"parent:id={kid},type={kt},strand={ks},loc={kl},seq={kq},parent={kp}"
        results[key] = parent_outcome(id=vid, sequence_type=vt, strand=vs, location=vl, sequence=vq, parent=vp)

    # ---------------------------------------------------------------- ObjectValidation
    seq = Sequence("ACGTACGTACGTACGTACGT", Alphabet.NT_STRICT, id="chr", type="chromosome")
    seq2 = Sequence("TTTTTTTTTTTTTTTTTTTT", Alphabet.NT_STRICT, id="chr", type="chromosome")
    p_seq = Parent(sequence=seq)
    p_seq2 = Parent(sequence=seq2)
    p_noseq = Parent(id="chr", sequence_type="chromosome")
    p_other = Parent(id="chr2", sequence_type="chromosome")
    p_loc = Parent(id="chr", sequence_type="chromosome", location=SingleInterval(0, 5, Strand.PLUS))
    p_nested = Parent(id="chunk", sequence_type="chunk", parent=p_loc)
    p_nested_noloc = Parent(id="chunk", sequence_type="chunk", parent=p_noseq)
    par_objs = {
        "None": None,
        "p_seq": p_seq,
        "p_seq2": p_seq2,
        "p_noseq": p_noseq,
        "p_other": p_other,
        "p_loc": p_loc,
        "p_nested": p_nested,
        "p_nested_noloc": p_nested_noloc,
    }
    loc_objs = {
        "empty": EmptyLocation(),
        "zero": SingleInterval(3, 3, Strand.PLUS),
        "plus_noparent": SingleInterval(2, 8, Strand.PLUS),
        "minus_noparent": SingleInterval(6, 12, Strand.MINUS),
        "plus_seq": SingleInterval(2, 8, Strand.PLUS, parent=p_seq),
        "minus_seq": SingleInterval(7, 12, Strand.MINUS, parent=p_seq),
        "plus_noseq": SingleInterval(2, 8, Strand.PLUS, parent=p_noseq),
        "plus_other": SingleInterval(2, 8, Strand.PLUS, parent=p_other),
        "compound_plus_seq": CompoundInterval([0, 10], [4, 15], Strand.PLUS, parent=p_seq),
        "compound_minus_seq2": CompoundInterval([0, 10], [4, 15], Strand.MINUS, parent=p_seq2),
        "compound_minus_noparent": CompoundInterval([1, 9], [3, 20], Strand.MINUS),
        "unstranded_nested": SingleInterval(0, 3, Strand.UNSTRANDED, parent=p_nested),
    }

    for k, loc in loc_objs.items():
        for meth in (
            "require_location_nonempty",
            "require_location_has_parent",
            "require_location_has_parent_with_sequence",
        ):
            results[f"ov:{meth}:{k}"] = outcome(getattr(ObjectValidation, meth), loc)
    for k, par in par_objs.items():
        for meth in (
            "require_parent_has_location",
            "require_parent_has_parent",
            "require_parent_has_parent_with_location",
        ):
            results[f"ov:{meth}:{k}"] = outcome(getattr(ObjectValidation, meth), par)
    for (k1, a), (k2, b) in itertools.product(par_objs.items(), repeat=2):
        for meth in (
            "require_parents_equal_except_location",
            "require_parents_equal_except_location_and_sequence",
        ):
            results[f"ov:{meth}:{k1}:{k2}"] = outcome(getattr(ObjectValidation, meth), a, b)
    for (k1, a), (k2, b) in itertools.product(loc_objs.items(), repeat=2):
        results[f"ov:same_nonempty_parent:{k1}:{k2}"] = outcome(
            ObjectValidation.require_locations_have_same_nonempty_parent, a, b
        )
        for ms in (False, True):
            results[f"ov:overlap:{k1}:{k2}:{ms}"] = outcome(ObjectValidation.require_locations_overlap, a, b, ms)
            results[f"ov:no_overlap:{k1}:{k2}:{ms}"] = outcome(
                ObjectValidation.require_locations_do_not_overlap, a, b, match_strand=ms
            )
    for obj, typ in itertools.product(
        [1, "s", None, True, SingleInterval(0, 1, Strand.PLUS), EmptyLocation(), p_seq, Strand.PLUS],
        [int, str, bool, SingleInterval, CompoundInterval, type(None), Strand, Parent.__wrapped__],
    ):
        results[f"ov:type:{obj!r}:{typ!r}"] = outcome(ObjectValidation.require_object_has_type, obj, typ)

    mode, path = sys.argv[1], sys.argv[2]
    if mode == "save":
        with open(path, "w") as fh:
            json.dump(results, fh, indent=1, sort_keys=True)
        print(f"saved {len(results)} results")
    else:
        with open(path) as fh:
            expected = json.load(fh)
        got = json.loads(json.dumps(results))
        bad = [k for k in sorted(set(expected) | set(got)) if expected.get(k) != got.get(k)]
        for k in bad[:20]:
            print("DIFF", k, "\n   expected:", expected.get(k), "\n   got:     ", got.get(k))
        n_exc = sum(1 for v in got.values() if v[0] == "EXC")
        print(f"compared {len(got)} results ({n_exc} raising): {len(bad)} differences")
        sys.exit(1 if bad else 0)


if __name__ == "__main__":
    main()
