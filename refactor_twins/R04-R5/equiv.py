"""Equivalence harness for property C04 (lift-over through nested coordinate systems).

Usage (from the worktree root):
    /venv/bin/python _refactor/R1/equiv.py dump  out.json     # run all cases, save {case: observed}
    /venv/bin/python _refactor/R1/equiv.py compare a.json b.json

Run "dump" once on the pristine checkout, once with the patch applied, then "compare".
Every observation is the repr()/str() of a result, or "EXC <type>: <message>" when the call raised.
"""
import ast
import itertools
import json
import os
import random
import sys
import types

sys.path.insert(0, os.getcwd())

import inscripta.biocantor.location  # noqa: F401,E402  (must come first: circular import otherwise)
from inscripta.biocantor.exc import NoSuchAncestorException  # noqa: E402
from inscripta.biocantor.gene.cds_frame import CDSFrame  # noqa: E402
from inscripta.biocantor.gene.collections import AnnotationCollection  # noqa: E402
from inscripta.biocantor.gene.feature import FeatureInterval, FeatureIntervalCollection  # noqa: E402
from inscripta.biocantor.gene.gene import GeneInterval  # noqa: E402
from inscripta.biocantor.gene.interval import AbstractInterval  # noqa: E402
from inscripta.biocantor.gene.transcript import TranscriptInterval  # noqa: E402
from inscripta.biocantor.location.location_impl import SingleInterval, CompoundInterval, EmptyLocation  # noqa: E402
from inscripta.biocantor.location.strand import Strand  # noqa: E402
from inscripta.biocantor.parent import Parent, SequenceType  # noqa: E402
from inscripta.biocantor.sequence.alphabet import Alphabet  # noqa: E402
from inscripta.biocantor.sequence.sequence import Sequence  # noqa: E402

RESULTS = {}


def show(obj):
    if isinstance(obj, (list, tuple)):
        return "[" + ", ".join(show(x) for x in obj) + "]"
    if isinstance(obj, dict):
        return "{" + ", ".join(f"{k!r}: {show(v)}" for k, v in obj.items()) + "}"
    if isinstance(obj, (set, frozenset)):
        return "{" + ", ".join(sorted(show(x) for x in obj)) + "}"
    if isinstance(obj, Sequence):
        return f"SEQ[{str(obj)}|{obj!r}]"
    return repr(obj)


def rec(name, thunk):
    assert name not in RESULTS, name
    try:
        val = thunk()
        RESULTS[name] = show(val)
    except Exception as e:  # noqa
        ctx = type(e.__context__).__name__ if e.__context__ is not None else None
        RESULTS[name] = f"EXC {type(e).__name__}: {e} [context={ctx}]"
        val = None
    return val


# --------------------------------------------------------------------------------------------------
# parser functions: io/parser.py cannot be imported here, so lift the two functions out of the file
# --------------------------------------------------------------------------------------------------
def load_parser_functions():
    path = os.path.join("inscripta", "biocantor", "io", "parser.py")
    with open(path) as fh:
        tree = ast.parse(fh.read())
    wanted = []
    for node in tree.body:
        if isinstance(node, ast.FunctionDef):
            wanted.append(node)
        elif isinstance(node, ast.Assign):
            # module level constants introduced by a refactoring
            wanted.append(node)
    mod = ast.Module(body=wanted, type_ignores=[])
    from typing import Optional, Union, Iterable, TextIO
    from uuid import UUID

    ns = dict(
        Optional=Optional,
        Union=Union,
        Iterable=Iterable,
        TextIO=TextIO,
        UUID=UUID,
        Parent=Parent,
        SequenceType=SequenceType,
        Sequence=Sequence,
        SingleInterval=SingleInterval,
        Strand=Strand,
        Alphabet=Alphabet,
    )
    exec(compile(mod, path, "exec"), ns)
    return ns


PARSER_NS = load_parser_functions()
seq_to_parent = PARSER_NS["seq_to_parent"]
seq_chunk_to_parent = PARSER_NS["seq_chunk_to_parent"]

# make `from inscripta.biocantor.io.parser import seq_chunk_to_parent` work inside AnnotationCollection
_fake = types.ModuleType("inscripta.biocantor.io.parser")
_fake.seq_to_parent = seq_to_parent
_fake.seq_chunk_to_parent = seq_chunk_to_parent
sys.modules["inscripta.biocantor.io.parser"] = _fake


# --------------------------------------------------------------------------------------------------
# 1. random nested hierarchies, depth 1..4
# --------------------------------------------------------------------------------------------------
def random_location(rng, length, strand=None, max_blocks=3, min_len=1):
    """random single or multi-block location inside [0, length)"""
    strand = strand or rng.choice([Strand.PLUS, Strand.MINUS])
    nblocks = rng.randint(1, max_blocks)
    pts = sorted(rng.sample(range(0, length + 1), min(2 * nblocks, length + 1) // 2 * 2))
    starts, ends = pts[0::2], pts[1::2]
    if sum(e - s for s, e in zip(starts, ends)) < min_len:
        starts, ends = [0], [min(length, max(min_len, 1))]
    if len(starts) == 1:
        return SingleInterval(starts[0], ends[0], strand)
    return CompoundInterval(starts, ends, strand)


def build_hierarchy(rng, depth, top_len=48, with_seq=True, unstranded_level=None):
    """Returns list of Sequence objects, index 0 = top ancestor, last = innermost level."""
    data = "".join(rng.choice("ACGT") for _ in range(top_len))
    top = Sequence(data, Alphabet.NT_STRICT, id="L0", type="type0")
    levels = [top]
    for k in range(1, depth):
        par_seq = levels[-1]
        loc = random_location(rng, len(par_seq), min_len=6)
        if unstranded_level == k:
            loc = loc.reset_strand(Strand.UNSTRANDED)
        loc_with_parent = loc.reset_parent(Parent(sequence=par_seq))
        if loc.strand == Strand.UNSTRANDED:
            sub = "".join(str(par_seq)[b.start : b.end] for b in loc.blocks)
        else:
            sub = str(loc_with_parent.extract_sequence())
        seq = Sequence(
            sub,
            Alphabet.NT_STRICT,
            id=f"L{k}",
            type=f"type{k}",
            parent=Parent(location=loc_with_parent),
        )
        levels.append(seq)
    return levels


def exercise_hierarchy(tag, rng, levels):
    inner = levels[-1]
    foreign = Sequence("ACGTACGTAC", Alphabet.NT_STRICT, id="foreign", type="typeX")
    inner_parent = Parent(sequence=inner)
    rec(f"{tag}/inner_parent", lambda: inner_parent)
    for j in range(6):
        loc0 = random_location(rng, len(inner), max_blocks=3)
        if j == 4:
            loc0 = loc0.reset_strand(Strand.UNSTRANDED)
        child = loc0.reset_parent(inner_parent)
        ctag = f"{tag}/c{j}"
        rec(f"{ctag}/child", lambda: child)
        for k in range(len(levels) + 1):
            t = f"type{k}"
            lifted = rec(f"{ctag}/lift_type/{t}", lambda: child.lift_over_to_first_ancestor_of_type(t))
            if lifted is not None:
                rec(f"{ctag}/lift_type/{t}/seq", lambda: lifted.extract_sequence())
                rec(f"{ctag}/lift_type/{t}/parent", lambda: lifted.parent)
            rec(f"{ctag}/first_anc/{t}", lambda: child.first_ancestor_of_type(t))
            rec(f"{ctag}/has_anc/{t}", lambda: child.has_ancestor_of_type(t))
        rec(f"{ctag}/lift_type/None", lambda: child.lift_over_to_first_ancestor_of_type(None))
        for k, seq in enumerate(levels + [foreign]):
            lifted = rec(f"{ctag}/lift_seq/{k}", lambda: child.lift_over_to_sequence(seq))
            if lifted is not None:
                rec(f"{ctag}/lift_seq/{k}/seq", lambda: lifted.extract_sequence())
            rec(f"{ctag}/has_anc_seq/{k}", lambda: child.has_ancestor_sequence(seq))
        # walk the Parent chain by hand
        p = child.parent
        step = 0
        while p is not None and step < 6:
            ptag = f"{ctag}/p{step}"
            rec(f"{ptag}/repr", lambda: p)
            rec(f"{ptag}/strand", lambda: p.strand)
            rec(f"{ptag}/lift_child", lambda: p.lift_child_location_to_parent())
            rec(f"{ptag}/strip", lambda: p.strip_location_info())
            rec(f"{ptag}/reset_none", lambda: p.reset_location(None))
            rec(f"{ptag}/reset_loc", lambda: p.reset_location(SingleInterval(0, 1, Strand.MINUS)))
            rec(f"{ptag}/hash_eq", lambda: (hash(p) == hash(p.reset_location(p.location)), p == p.strip_location_info()))
            for k in range(len(levels) + 1):
                t = f"type{k}"
                for inc in (True, False):
                    rec(f"{ptag}/first_anc/{t}/{inc}", lambda: p.first_ancestor_of_type(t, include_self=inc))
                    rec(f"{ptag}/has_anc/{t}/{inc}", lambda: p.has_ancestor_of_type(t, inc))
            for k, seq in enumerate(levels + [foreign]):
                for inc in (True, False):
                    rec(f"{ptag}/has_anc_seq/{k}/{inc}", lambda: p.has_ancestor_sequence(seq, include_self=inc))
            p = p.parent
            step += 1
    # Sequence level API
    for k, seq in enumerate(levels):
        stag = f"{tag}/s{k}"
        rec(f"{stag}/summary", lambda: seq.summary())
        rec(f"{stag}/loc_on_parent", lambda: seq.location_on_parent)
        rec(f"{stag}/parent_props", lambda: (seq.parent_id, seq.parent_strand, seq.parent_type, seq.is_empty))
        for kk in range(len(levels) + 1):
            t = f"type{kk}"
            for inc in (True, False):
                rec(f"{stag}/first_anc/{t}/{inc}", lambda: seq.first_ancestor_of_type(t, inc))
                rec(f"{stag}/has_anc/{t}/{inc}", lambda: seq.has_ancestor_of_type(t, include_self=inc))
        n = len(seq)
        for key in (slice(1, n - 1), slice(None, 3), slice(-4, None), slice(2, 2), slice(5, 2), 0, -1, n // 2):
            sub = rec(f"{stag}/getitem/{key}", lambda: seq[key])
            if sub is not None and k > 0:
                rec(f"{stag}/getitem/{key}/parentloc", lambda: sub.location_on_parent)
        rec(f"{stag}/getitem/oob", lambda: seq[n + 5])
        rc = rec(f"{stag}/revcomp", lambda: seq.reverse_complement(new_id="rc", new_type="rctype"))
        rec(f"{stag}/revcomp_default", lambda: seq.reverse_complement())
        a, b = rec(f"{stag}/halves", lambda: (seq[: n // 2], seq[n // 2 :])) or (None, None)
        if a is not None:
            rec(f"{stag}/append", lambda: a.append(b, new_id="joined"))
            rec(f"{stag}/append_rev", lambda: b.append(a))
            rec(f"{stag}/append_data_only", lambda: b.append(a, data_only=True))
        rec(f"{stag}/fasta", lambda: seq.to_fasta(num_chars=7))
        rec(f"{stag}/eq_hash", lambda: (seq == levels[0], hash(seq) == hash(seq), seq == seq))


def run_hierarchies():
    rng = random.Random(20240404)
    n = 0
    for depth in (1, 2, 3, 4):
        for rep in range(5):
            levels = build_hierarchy(rng, depth)
            exercise_hierarchy(f"H{depth}.{rep}", rng, levels)
            n += 1
    # unstranded middle level, and levels without sequence
    for rep in range(2):
        levels = build_hierarchy(rng, 3, unstranded_level=1)
        exercise_hierarchy(f"HU.{rep}", rng, levels)


# --------------------------------------------------------------------------------------------------
# 2. hand-made Parent edge cases
# --------------------------------------------------------------------------------------------------
def run_parent_edge_cases():
    seq = Sequence("ACGTACGTAA", Alphabet.NT_STRICT, id="s", type="chromosome")
    empty_seq = Sequence("", Alphabet.NT_STRICT)
    rec("P/empty", lambda: Parent())
    rec("P/id_only", lambda: Parent(id="x"))
    rec("P/id_conflict", lambda: Parent(id="x", sequence=seq))
    rec("P/type_conflict", lambda: Parent(sequence_type="other", sequence=seq))
    rec("P/strand_conflict", lambda: Parent(strand=Strand.PLUS, location=SingleInterval(0, 3, Strand.MINUS)))
    rec("P/strand_ok", lambda: Parent(strand=Strand.MINUS, location=SingleInterval(0, 3, Strand.MINUS)))
    rec("P/loc_too_long", lambda: Parent(sequence=seq, location=SingleInterval(0, 30, Strand.PLUS)))
    rec("P/parent_shorter", lambda: Parent(sequence=seq, parent=Parent(sequence=Sequence("AC", Alphabet.NT_STRICT))))
    rec("P/parent_str", lambda: Parent(id="kid", parent="grandpa"))
    rec(
        "P/seq_parent_and_parent_mismatch",
        lambda: Parent(sequence=Sequence("AC", Alphabet.NT_STRICT, parent=Parent(id="a")), parent=Parent(id="b")),
    )
    rec(
        "P/seq_parent_and_parent_match",
        lambda: Parent(
            sequence=Sequence("AC", Alphabet.NT_STRICT, parent=Parent(id="a")),
            parent=Parent(id="a", location=SingleInterval(3, 5, Strand.PLUS)),
        ),
    )
    for name, p in {
        "strand_only": Parent(strand=Strand.MINUS),
        "zero_len_loc": Parent(location=SingleInterval(4, 4, Strand.MINUS)),
        "zero_len_loc_strand": Parent(strand=Strand.MINUS, location=SingleInterval(4, 4, Strand.MINUS)),
        "unstranded": Parent(strand=Strand.UNSTRANDED),
        "empty_seq": Parent(sequence=empty_seq, sequence_type="t"),
        "loc": Parent(id="q", location=CompoundInterval([1, 5], [3, 9], Strand.PLUS)),
    }.items():
        rec(f"P/{name}/repr", lambda: p)
        rec(f"P/{name}/strand", lambda: p.strand)
        rec(f"P/{name}/strand2", lambda: p.strand)
        rec(f"P/{name}/lift", lambda: p.lift_child_location_to_parent())
        rec(f"P/{name}/first_anc", lambda: p.first_ancestor_of_type("t"))
        rec(f"P/{name}/first_anc_none", lambda: p.first_ancestor_of_type(None))
        rec(f"P/{name}/first_anc_none_noself", lambda: p.first_ancestor_of_type(None, False))
        rec(f"P/{name}/has_anc", lambda: p.has_ancestor_of_type("t"))
        rec(f"P/{name}/has_anc_seq_empty", lambda: p.has_ancestor_sequence(empty_seq))
        rec(f"P/{name}/has_anc_seq", lambda: p.has_ancestor_sequence(seq))
        rec(f"P/{name}/reset_empty", lambda: p.reset_location(EmptyLocation()))
        rec(f"P/{name}/reset_zero", lambda: p.reset_location(SingleInterval(2, 2, Strand.MINUS)))
        rec(f"P/{name}/eq_except", lambda: (p.equals_except_location(Parent()), p.equals_except_location("x")))
    # parent with a location whose parent has no location / no parent
    p_nolocparent = Parent(location=SingleInterval(0, 2, Strand.PLUS), parent=Parent(id="gp"))
    rec("P/lift_no_gp_loc", lambda: p_nolocparent.lift_child_location_to_parent())
    # zero-length child block
    gp = Parent(id="gp", location=CompoundInterval([2, 10], [6, 14], Strand.MINUS))
    pz = Parent(id="p", location=SingleInterval(3, 3, Strand.PLUS), parent=gp)
    rec("P/lift_zero_len_child", lambda: pz.lift_child_location_to_parent())
    # overlapping blocks in the child location are preserved
    pov = Parent(id="p", location=CompoundInterval([0, 2], [4, 6], Strand.PLUS), parent=gp)
    rec("P/lift_overlapping_child", lambda: pov.lift_child_location_to_parent())
    pov2 = Parent(id="p", location=CompoundInterval([0, 3, 5], [3, 5, 8], Strand.MINUS), parent=gp)
    rec("P/lift_adjacent_child", lambda: pov2.lift_child_location_to_parent())
    # out of range child
    poob = Parent(id="p", location=SingleInterval(3, 30, Strand.PLUS), parent=gp)
    rec("P/lift_oob_child", lambda: poob.lift_child_location_to_parent())
    # locations without parents
    rec("L/noparent/first", lambda: SingleInterval(0, 3, Strand.PLUS).first_ancestor_of_type("t"))
    rec("L/noparent/has", lambda: SingleInterval(0, 3, Strand.PLUS).has_ancestor_of_type("t"))
    rec("L/noparent/lift", lambda: SingleInterval(0, 3, Strand.PLUS).lift_over_to_first_ancestor_of_type("t"))
    rec("L/noparent/lift_seq", lambda: SingleInterval(0, 3, Strand.PLUS).lift_over_to_sequence(seq))
    rec("L/noparent/has_seq", lambda: SingleInterval(0, 3, Strand.PLUS).has_ancestor_sequence(seq))
    rec("L/empty/first", lambda: EmptyLocation().first_ancestor_of_type("t"))
    rec("L/empty/has", lambda: EmptyLocation().has_ancestor_of_type("t"))
    rec("L/empty/lift", lambda: EmptyLocation().lift_over_to_first_ancestor_of_type("t"))
    rec("L/empty/lift_seq", lambda: EmptyLocation().lift_over_to_sequence(seq))
    rec("L/empty/has_seq", lambda: EmptyLocation().has_ancestor_sequence(seq))
    noncontig = CompoundInterval([0, 5], [2, 7], Strand.PLUS, parent=seq)
    rec("L/noncontig/lift_seq", lambda: noncontig.lift_over_to_sequence(seq))
    # contiguous child that becomes non contiguous after the first lift
    top = Sequence("ACGTACGTAACCGGTT", Alphabet.NT_STRICT, id="top", type="chromosome")
    mid = Sequence(
        "ACGTCCGG",
        Alphabet.NT_STRICT,
        id="mid",
        type="mid",
        parent=Parent(location=CompoundInterval([0, 10], [4, 14], Strand.PLUS, parent=top)),
    )
    low = Sequence(
        "GTCC", Alphabet.NT_STRICT, id="low", type="low", parent=Parent(location=SingleInterval(2, 6, Strand.PLUS, mid))
    )
    c = SingleInterval(0, 4, Strand.MINUS, parent=low)
    rec("L/split/lift_seq_mid", lambda: c.lift_over_to_sequence(mid))
    rec("L/split/lift_seq_top", lambda: c.lift_over_to_sequence(top))
    rec("L/split/lift_type_top", lambda: c.lift_over_to_first_ancestor_of_type("chromosome"))
    rec("L/split/lift_type_enum", lambda: c.lift_over_to_first_ancestor_of_type(SequenceType.CHROMOSOME))
    rec("L/split/scan", lambda: list(c.scan_windows(2, 1)))
    rec("L/split/contains", lambda: c.contains(SingleInterval(1, 2, Strand.PLUS, parent=low)))
    rec("L/split/rel", lambda: c.location_relative_to(SingleInterval(1, 3, Strand.PLUS, parent=low)))
    rec("L/split/rel_nullparent", lambda: SingleInterval(1, 3, Strand.PLUS).location_relative_to(c))
    rec("L/split/p2r", lambda: c.parent_to_relative_location(SingleInterval(1, 3, Strand.PLUS, parent=low)))


# --------------------------------------------------------------------------------------------------
# 3. parser constructors
# --------------------------------------------------------------------------------------------------
GENOME = "AAGTATTCTTGGACCTAATTAAAAAAAAAAAAAAAAAATTAGGTCCAAGAATACTTGGCATCGACTTAGCATCAGCAGGACTTAC"


def run_parser():
    rec("parser/seq_to_parent/default", lambda: seq_to_parent(GENOME))
    rec("parser/seq_to_parent/id", lambda: seq_to_parent(GENOME, seq_id="chr1"))
    rec("parser/seq_to_parent/kw", lambda: seq_to_parent(GENOME, Alphabet.NT_STRICT, "chr1", "plasmid"))
    rec("parser/seq_to_parent/empty", lambda: seq_to_parent(""))
    rec("parser/seq_to_parent/bad", lambda: seq_to_parent("XYZ!", Alphabet.NT_STRICT))
    for (s, e), strand in itertools.product([(0, 10), (5, 40), (30, len(GENOME)), (7, 7)], list(Strand)):
        rec(f"parser/chunk/{s}-{e}/{strand.name}", lambda: seq_chunk_to_parent(GENOME[s:e], "chrX", s, e, strand))
    rec("parser/chunk/default_strand", lambda: seq_chunk_to_parent(GENOME[3:9], "chrX", 3, 9))
    rec("parser/chunk/alphabet", lambda: seq_chunk_to_parent("ACGT", "chrX", 3, 7, Strand.MINUS, Alphabet.NT_STRICT))
    rec("parser/chunk/len_mismatch", lambda: seq_chunk_to_parent(GENOME[3:9], "chrX", 3, 19))
    rec("parser/chunk/kwargs", lambda: seq_chunk_to_parent(seq="ACGT", sequence_name="n", start=1, end=5))


# --------------------------------------------------------------------------------------------------
# 4. chromosome -> chunk lift-over in the gene layer
# --------------------------------------------------------------------------------------------------
def chunk_parents():
    out = {}
    out["none"] = None
    out["chrom_seq"] = seq_to_parent(GENOME, seq_id="chrX")
    out["chrom_noseq"] = Parent(id="chrX", sequence_type=SequenceType.CHROMOSOME)
    out["chrom_other"] = Parent(id="chrY", sequence_type=SequenceType.CHROMOSOME)
    out["unknown_type"] = Parent(id="weird", sequence=Sequence(GENOME, Alphabet.NT_EXTENDED_GAPPED, id="weird"))
    out["unknown_noseq"] = Parent(id="weird2", location=SingleInterval(2, 20, Strand.PLUS))
    for s, e in [(0, 30), (10, 50), (20, 22), (40, len(GENOME)), (0, len(GENOME))]:
        out[f"chunk_{s}_{e}"] = seq_chunk_to_parent(GENOME[s:e], "chrX", s, e)
    out["chunk_other_chrom"] = seq_chunk_to_parent(GENOME[10:50], "chrY", 10, 50)
    # chunk lying on the minus strand of the chromosome
    rc = str(Sequence(GENOME[10:50], Alphabet.NT_EXTENDED_GAPPED).reverse_complement())
    out["chunk_minus"] = seq_chunk_to_parent(rc, "chrX", 10, 50, Strand.MINUS)
    # chunk whose chromosome carries sequence
    chrom_with_seq = Parent(
        id="chrX", sequence=Sequence(GENOME, Alphabet.NT_EXTENDED_GAPPED, id="chrX", type=SequenceType.CHROMOSOME)
    )
    out["chunk_chromseq"] = Parent(
        id="chrX:10-50",
        sequence=Sequence(
            GENOME[10:50],
            Alphabet.NT_EXTENDED_GAPPED,
            id="chrX:10-50",
            type=SequenceType.SEQUENCE_CHUNK,
            parent=Parent(location=SingleInterval(10, 50, Strand.PLUS, parent=chrom_with_seq)),
        ),
    )
    # chunk without chromosome ancestor
    out["chunk_no_chrom"] = Parent(
        id="orphan",
        sequence=Sequence(GENOME[10:50], Alphabet.NT_EXTENDED_GAPPED, id="orphan", type=SequenceType.SEQUENCE_CHUNK),
    )
    # chunk typed parent without sequence
    out["chunk_no_seq"] = Parent(
        id="noseq",
        sequence_type=SequenceType.SEQUENCE_CHUNK,
        parent=Parent(
            location=SingleInterval(10, 50, Strand.PLUS, parent=Parent(id="chrX", sequence_type=SequenceType.CHROMOSOME))
        ),
    )
    # a chunk made of two pieces of the chromosome
    out["chunk_compound"] = Parent(
        id="cc",
        sequence=Sequence(
            GENOME[5:15] + GENOME[30:45],
            Alphabet.NT_EXTENDED_GAPPED,
            id="cc",
            type=SequenceType.SEQUENCE_CHUNK,
            parent=Parent(
                location=CompoundInterval(
                    [5, 30], [15, 45], Strand.PLUS, parent=Parent(id="chrX", sequence_type=SequenceType.CHROMOSOME)
                )
            ),
        ),
    )
    return out


LOCATIONS = {
    "single_plus": ([12], [28], Strand.PLUS),
    "single_minus": ([12], [28], Strand.MINUS),
    "multi_plus": ([2, 14, 33], [8, 25, 47], Strand.PLUS),
    "multi_minus": ([2, 14, 33], [8, 25, 47], Strand.MINUS),
    "adjacent": ([12, 20], [20, 31], Strand.PLUS),
    "overlapping": ([12, 18], [20, 31], Strand.MINUS),
    "far": ([60, 70], [65, 80], Strand.PLUS),
    "edge": ([0, 45], [10, 50], Strand.MINUS),
    "unstranded": ([12], [28], Strand.UNSTRANDED),
}


def describe_interval(tag, iv):
    rec(f"{tag}/to_dict", lambda: iv.to_dict())
    rec(f"{tag}/to_dict_rel", lambda: iv.to_dict(chromosome_relative_coordinates=False))
    rec(f"{tag}/chrom_loc", lambda: iv.chromosome_location)
    rec(f"{tag}/chunk_loc", lambda: iv.chunk_relative_location)
    rec(f"{tag}/bounded", lambda: iv._chunk_relative_bounded_chromosome_location)
    rec(f"{tag}/parent_dict", lambda: iv._parent_to_dict())
    rec(f"{tag}/parent_dict_rel", lambda: iv._parent_to_dict(False))
    rec(f"{tag}/lift_default", lambda: iv.lift_over_to_first_ancestor_of_type())
    rec(f"{tag}/lift_chunk", lambda: iv.lift_over_to_first_ancestor_of_type(SequenceType.SEQUENCE_CHUNK))
    rec(f"{tag}/lift_str", lambda: iv.lift_over_to_first_ancestor_of_type("chromosome"))
    rec(f"{tag}/has_anc", lambda: (iv.has_ancestor_of_type("chromosome"), iv.has_ancestor_of_type("sequence_chunk")))
    rec(f"{tag}/first_anc", lambda: iv.first_ancestor_of_type("chromosome"))
    rec(f"{tag}/first_anc_chunk", lambda: iv.first_ancestor_of_type(SequenceType.SEQUENCE_CHUNK))
    rec(
        f"{tag}/props",
        lambda: (
            iv.is_chunk_relative,
            iv.has_sequence,
            len(iv),
            iv.strand,
            iv.num_blocks,
            list(iv.blocks),
        ),
    )
    rec(
        f"{tag}/chunk_props",
        lambda: (
            iv.chunk_relative_size,
            iv.chunk_relative_start,
            iv.chunk_relative_end,
            iv.chunk_relative_strand,
            iv.num_chunk_relative_blocks,
            iv.chunk_relative_blocks,
        ),
    )
    rec(f"{tag}/identifiers", lambda: (iv.identifiers, iv.identifiers_dict, iv.id, iv.name))
    rec(f"{tag}/hash_eq", lambda: (hash(iv) == hash(iv), iv == iv, iv == 3))
    if hasattr(iv, "get_spliced_sequence"):
        rec(f"{tag}/spliced", lambda: iv.get_spliced_sequence())
        rec(f"{tag}/genomic", lambda: iv.get_genomic_sequence())
        rec(f"{tag}/spans", lambda: (iv.chromosome_span, iv.chunk_relative_span))
        rec(f"{tag}/gaps", lambda: (iv.chromosome_gaps_location, iv.chunk_relative_gaps_location))
        rec(f"{tag}/rel_blocks", lambda: list(iv.relative_blocks))
        rec(f"{tag}/pos", lambda: (iv.sequence_pos_to_feature(iv.start), iv.feature_pos_to_sequence(1)))
        rec(f"{tag}/pos_chunk", lambda: (iv.feature_pos_to_chunk_relative(0), iv.chunk_relative_pos_to_feature(0)))
        rec(f"{tag}/ival", lambda: iv.sequence_interval_to_feature(iv.start, iv.start + 3, Strand.PLUS))
        rec(f"{tag}/ival2", lambda: iv.feature_interval_to_sequence(1, 4, Strand.MINUS))
        rec(f"{tag}/ival3", lambda: iv.feature_interval_to_chunk_relative(0, 2, Strand.PLUS))
        rec(f"{tag}/ival4", lambda: iv.chunk_relative_interval_to_feature(0, 200, Strand.PLUS))
        rec(f"{tag}/merge_q", lambda: iv._merge_qualifiers({"a": {"z"}, "new": {"1"}}))
    rec(f"{tag}/ref_seq", lambda: iv.get_reference_sequence())
    if hasattr(iv, "to_bed12"):
        rec(f"{tag}/bed", lambda: iv.to_bed12())
        rec(f"{tag}/bed_rel", lambda: iv.to_bed12(chromosome_relative_coordinates=False))
    rec(f"{tag}/gff", lambda: [str(x) for x in iv.to_gff()])
    rec(f"{tag}/gff_rel", lambda: [str(x) for x in iv.to_gff(chromosome_relative_coordinates=False)])


def run_gene_layer():
    parents = chunk_parents()
    for pname, p in parents.items():
        rec(f"G/parent/{pname}", lambda: p)
    # static liftover, from chromosome coordinates
    base_locs = {}
    for lname, (starts, ends, strand) in LOCATIONS.items():
        for pname, p in parents.items():
            tag = f"G/init/{lname}/{pname}"
            loc = rec(tag, lambda: AbstractInterval.initialize_location(starts, ends, strand, p))
            if loc is not None:
                base_locs[(lname, pname)] = loc
                rec(f"{tag}/seq", lambda: loc.extract_sequence())
                rec(f"{tag}/back", lambda: loc.lift_over_to_first_ancestor_of_type(SequenceType.CHROMOSOME))
    rec("G/init/mismatch", lambda: AbstractInterval.initialize_location([1, 2], [3], Strand.PLUS))
    rec("G/init/positional", lambda: AbstractInterval.initialize_location([1], [3], Strand.PLUS, parents["chunk_10_50"]))
    # chunk -> chromosome -> other chunk
    for (lname, pname), loc in base_locs.items():
        if lname not in ("single_minus", "multi_plus", "multi_minus", "adjacent", "edge"):
            continue
        for qname, q in parents.items():
            tag = f"G/relift/{lname}/{pname}->{qname}"
            loc2 = rec(tag, lambda: AbstractInterval.liftover_location_to_seq_chunk_parent(loc, q))
            if loc2 is not None and not loc2.is_empty:
                rec(f"{tag}/seq", lambda: loc2.extract_sequence())
    rec(
        "G/relift/kw",
        lambda: AbstractInterval.liftover_location_to_seq_chunk_parent(
            location=SingleInterval(12, 20, Strand.PLUS), parent_or_seq_chunk_parent=parents["chunk_10_50"]
        ),
    )
    rec("G/relift/default", lambda: AbstractInterval.liftover_location_to_seq_chunk_parent(SingleInterval(1, 2, Strand.PLUS)))

    # feature / transcript / gene / collection objects on every parent
    for pname, p in parents.items():
        for lname, (starts, ends, strand) in LOCATIONS.items():
            tag = f"G/feat/{lname}/{pname}"
            f = rec(
                f"{tag}/build",
                lambda: FeatureInterval(
                    starts,
                    ends,
                    strand,
                    qualifiers={"a": ["b", "c"]},
                    feature_name="fn",
                    feature_id="fid",
                    feature_types=["t1"],
                    sequence_name="chrX",
                    parent_or_seq_chunk_parent=p,
                ),
            )
            if f is None:
                continue
            describe_interval(tag, f)
            for qname in ("chunk_10_50", "chunk_0_30", "chrom_seq", "chunk_other_chrom", "chunk_minus", "chunk_no_chrom"):
                f2 = rec(f"{tag}/liftover/{qname}", lambda: f.liftover_to_parent_or_seq_chunk_parent(parents[qname]))
                if f2 is not None:
                    rec(f"{tag}/liftover/{qname}/chunk_loc", lambda: f2.chunk_relative_location)
                    rec(f"{tag}/liftover/{qname}/bounded", lambda: f2._chunk_relative_bounded_chromosome_location)
            if f.chunk_relative_location.parent is not None:
                rec(f"{tag}/from_loc", lambda: FeatureInterval.from_location(f.chunk_relative_location).to_dict())
                rec(
                    f"{tag}/from_chunk_loc",
                    lambda: FeatureInterval.from_chunk_relative_location(f.chunk_relative_location).to_dict(),
                )
        for lname in ("multi_plus", "multi_minus", "single_plus", "edge"):
            starts, ends, strand = LOCATIONS[lname]
            tag = f"G/tx/{lname}/{pname}"
            if lname.startswith("multi"):
                cds = dict(
                    cds_starts=[4, 14, 33],
                    cds_ends=[8, 25, 40],
                    cds_frames=[CDSFrame.ZERO, CDSFrame.ONE, CDSFrame.ZERO],
                )
            else:
                cds = {}
            tx = rec(
                f"{tag}/build",
                lambda: TranscriptInterval(
                    starts,
                    ends,
                    strand,
                    transcript_id="txid",
                    transcript_symbol="txsym",
                    sequence_name="chrX",
                    parent_or_seq_chunk_parent=p,
                    **cds,
                ),
            )
            if tx is None:
                continue
            describe_interval(tag, tx)
            if cds:
                rec(f"{tag}/cds_loc", lambda: (tx.cds_location, tx.cds_chunk_relative_location))
                rec(f"{tag}/cds_seq", lambda: tx.get_cds_sequence())
                rec(f"{tag}/protein", lambda: tx.get_protein_sequence())
            for qname in ("chunk_10_50", "chunk_40_85", "chunk_chromseq"):
                tx2 = rec(f"{tag}/liftover/{qname}", lambda: tx.liftover_to_parent_or_seq_chunk_parent(parents[qname]))
                if tx2 is not None:
                    rec(f"{tag}/liftover/{qname}/chunk_loc", lambda: tx2.chunk_relative_location)
            gene = rec(
                f"{tag}/gene/build",
                lambda: GeneInterval([tx], gene_id="g", gene_symbol="gs", sequence_name="chrX", parent_or_seq_chunk_parent=p),
            )
            if gene is not None:
                describe_interval(f"{tag}/gene", gene)
        tag = f"G/coll/{pname}"

        def build_collection():
            feats = [
                FeatureInterval(*LOCATIONS[n], feature_name=n, parent_or_seq_chunk_parent=p)
                for n in ("single_plus", "multi_minus", "far")
            ]
            fc = FeatureIntervalCollection(feats, feature_collection_id="fc", parent_or_seq_chunk_parent=p)
            txs = [
                TranscriptInterval(*LOCATIONS[n], transcript_id=n, parent_or_seq_chunk_parent=p)
                for n in ("multi_plus", "edge")
            ]
            gene = GeneInterval(txs, gene_id="g1", parent_or_seq_chunk_parent=p)
            return AnnotationCollection([fc], [gene], name="ac", sequence_name="chrX", parent_or_seq_chunk_parent=p)

        ac = rec(f"{tag}/build", build_collection)
        if ac is None:
            continue
        describe_interval(tag, ac)
        rec(f"{tag}/to_dict_parent", lambda: ac.to_dict(export_parent=True))
        for child in ac:
            describe_interval(f"{tag}/child/{child.id}", child)
        for (s, e), cw, expand in itertools.product([(12, 40), (0, 20), (30, 85), (58, 60), (20, 20)], (True, False), (True, False)):
            qtag = f"{tag}/query/{s}-{e}/{cw}/{expand}"
            sub = rec(qtag, lambda: ac.query_by_position(s, e, completely_within=cw, expand_location_to_children=expand))
            if sub is not None:
                rec(f"{qtag}/loc", lambda: (sub.chunk_relative_location, sub.chromosome_location))
                rec(f"{qtag}/dict", lambda: sub.to_dict())
                rec(f"{qtag}/parent_dict", lambda: sub._parent_to_dict())
                for child in sub:
                    rec(f"{qtag}/child/{child.id}/loc", lambda: child.chunk_relative_location)
                    for gc in child:
                        rec(f"{qtag}/child/{child.id}/{gc.name or gc.id}/loc", lambda: gc.chunk_relative_location)
                        rec(f"{qtag}/child/{child.id}/{gc.name or gc.id}/seq", lambda: gc.get_spliced_sequence())
                # re-query the subset: chunk -> chromosome -> smaller chunk
                sub2 = rec(f"{qtag}/requery", lambda: sub.query_by_position(s + 2, e - 1, completely_within=False))
                if sub2 is not None:
                    rec(f"{qtag}/requery/loc", lambda: sub2.chunk_relative_location)
                    rec(f"{qtag}/requery/dict", lambda: sub2.to_dict(export_parent=True))
        rec(f"{tag}/from_dict_roundtrip", lambda: AnnotationCollection.from_dict(ac.to_dict(export_parent=True)).to_dict(export_parent=True))


def main():
    mode = sys.argv[1]
    if mode == "dump":
        run_hierarchies()
        run_parent_edge_cases()
        run_parser()
        run_gene_layer()
        with open(sys.argv[2], "w") as fh:
            json.dump(RESULTS, fh, indent=0, sort_keys=True)
        n_exc = sum(1 for v in RESULTS.values() if v.startswith("EXC "))
        print(f"{len(RESULTS)} observations written to {sys.argv[2]} ({n_exc} are exceptions)")
    elif mode == "compare":
        with open(sys.argv[2]) as fh:
            a = json.load(fh)
        with open(sys.argv[3]) as fh:
            b = json.load(fh)
        bad = [k for k in sorted(set(a) | set(b)) if a.get(k) != b.get(k)]
        for k in bad[:20]:
            print("DIFF", k)
            print("   A:", str(a.get(k))[:600])
            print("   B:", str(b.get(k))[:600])
        print(f"compared {len(a)} vs {len(b)} observations: {len(bad)} differences")
        sys.exit(1 if bad else 0)
    else:
        raise SystemExit(__doc__)


if __name__ == "__main__":
    main()
