"""
Equivalence harness for the GFF3 export path (property C11).

Usage (from the worktree root):
    /venv/bin/python _refactor/<Rn>/equiv.py dump /tmp/out_pristine.json      # on pristine code
    (apply patch)
    /venv/bin/python _refactor/<Rn>/equiv.py dump /tmp/out_patched.json
    /venv/bin/python _refactor/<Rn>/equiv.py compare /tmp/out_pristine.json /tmp/out_patched.json

Everything that is recorded is text: str() of rows, file text written by collection_to_gff3, exception type + message,
warnings (category + message).  The harness exercises:
  * GFFAttributes.escape_key / escape_value / __str__ on awkward strings and qualifier dictionaries,
  * GFFRow.__str__,
  * to_gff of CDSInterval, TranscriptInterval, GeneInterval, FeatureInterval, FeatureIntervalCollection,
    AnnotationCollection (both strands, 1..5 blocks, coding/non-coding, frame offsets, adjacent CDS blocks,
    no parent / chromosome parent / chunk parent (both chunk strands), chromosome- and chunk-relative modes,
    raise_on_reserved_attributes True/False),
  * collection_to_gff3 for all combinations of its flags, lists and one-shot generators of collections.
"""
import sys

sys.path.insert(0, ".")

import io
import itertools
import json
import random
import warnings

import inscripta.biocantor.location  # noqa: F401  (must be first: circular import otherwise)
from inscripta.biocantor.location import SingleInterval, Strand
from inscripta.biocantor.parent import Parent, SequenceType
from inscripta.biocantor.sequence import Sequence
from inscripta.biocantor.sequence.alphabet import Alphabet
from inscripta.biocantor.gene.biotype import Biotype
from inscripta.biocantor.gene.cds import CDSInterval
from inscripta.biocantor.gene.cds_frame import CDSFrame, CDSPhase
from inscripta.biocantor.gene.collections import AnnotationCollection
from inscripta.biocantor.gene.feature import FeatureInterval, FeatureIntervalCollection
from inscripta.biocantor.gene.gene import GeneInterval
from inscripta.biocantor.gene.transcript import TranscriptInterval
from inscripta.biocantor.io.gff3.constants import BioCantorFeatureTypes
from inscripta.biocantor.io.gff3 import constants as gff3_constants
from inscripta.biocantor.io.gff3.rows import GFFAttributes, GFFRow
from inscripta.biocantor.io.gff3.writer import collection_to_gff3


# --------------------------------------------------------------------------------------------------------------------
# copied from inscripta/biocantor/io/parser.py (cannot be imported in this environment)
# --------------------------------------------------------------------------------------------------------------------
def seq_to_parent(seq, alphabet=Alphabet.NT_EXTENDED_GAPPED, seq_id=None, seq_type=SequenceType.CHROMOSOME):
    return Parent(
        sequence=Sequence(seq, alphabet, type=seq_type, id=seq_id), location=SingleInterval(0, len(seq), Strand.PLUS)
    )


def seq_chunk_to_parent(seq, sequence_name, start, end, strand=Strand.PLUS, alphabet=Alphabet.NT_EXTENDED_GAPPED):
    chunk_id = f"{sequence_name}:{start}-{end}"
    return Parent(
        id=chunk_id,
        sequence=Sequence(
            seq,
            alphabet,
            id=chunk_id,
            type=SequenceType.SEQUENCE_CHUNK,
            parent=Parent(
                location=SingleInterval(
                    start,
                    end,
                    strand,
                    parent=Parent(id=sequence_name, sequence_type=SequenceType.CHROMOSOME),
                )
            ),
        ),
    )


# --------------------------------------------------------------------------------------------------------------------
def capture(fn):
    """Run fn, returning a JSON-able record of result / exception / warnings."""
    with warnings.catch_warnings(record=True) as w:
        warnings.simplefilter("always")
        try:
            res = {"ok": fn()}
        except Exception as e:  # noqa
            res = {"exc": type(e).__name__, "msg": str(e)}
    res["warnings"] = [[x.category.__name__, str(x.message)] for x in w]
    return res


def rows_of(it):
    """Consume an iterator of rows; record what was produced before any exception."""
    out = []
    with warnings.catch_warnings(record=True) as w:
        warnings.simplefilter("always")
        exc = None
        try:
            for row in it:
                out.append(
                    [
                        str(row),
                        repr((row.seqid, row.source, row.type, row.start, row.end, row.score, row.strand, row.phase)),
                        row.attributes.id,
                        row.attributes.parent,
                        row.attributes.name,
                        repr(sorted((str(k), sorted(map(str, v))) for k, v in row.attributes.attributes.items())),
                    ]
                )
        except Exception as e:  # noqa
            exc = [type(e).__name__, str(e)]
    return {"rows": out, "exc": exc, "warnings": [[x.category.__name__, str(x.message)] for x in w]}


NASTY = [
    "",
    "a",
    "A b",
    "semi;colon",
    "eq=uals",
    "per%cent",
    "tab\there",
    "new\nline",
    "cr\rhere",
    "gt>lt<",
    "amp&er",
    "com,ma",
    'quo"te',
    "single'quote",
    "üñíçødé ☃",
    "%25already",
    ";=%\t\n\r >,&",
    "MiXeD CaSe",
    " leading and trailing ",
    ",,,",
    "%%%",
    " linesep",
    "\x00nul",
    "İstanbul",  # lower() changes length
    "ß",
]


def section_attrs():
    res = {}
    for i, s in enumerate(NASTY):
        for lower in (True, False):
            res[f"key-{i}-{lower}"] = capture(lambda: GFFAttributes.escape_key(s, lower=lower))
        res[f"key-{i}-default"] = capture(lambda: GFFAttributes.escape_key(s))
        for comma in (True, False):
            res[f"val-{i}-{comma}"] = capture(lambda: GFFAttributes.escape_value(s, escape_comma=comma))
        res[f"val-{i}-default"] = capture(lambda: GFFAttributes.escape_value(s))
        res[f"priv-{i}"] = capture(lambda: [GFFAttributes._escape_str(s), GFFAttributes._escape_str_with_comma(s)])
    frng = random.Random(99)
    alphabet = list(";=%\t\n\r >,&\"'abcXYZ019_-.:|\u00e9\u2603\u0130\x0b\x0c\x1c\x85\u2028\\()[]{}*+?^$")
    for i in range(300):
        s = "".join(frng.choice(alphabet) for _ in range(frng.randint(0, 12)))
        res[f"fuzz-{i}"] = capture(
            lambda: [
                GFFAttributes.escape_key(s, lower=True),
                GFFAttributes.escape_key(s, lower=False),
                GFFAttributes.escape_value(s, escape_comma=True),
                GFFAttributes.escape_value(s, escape_comma=False),
                str(GFFAttributes(id=s, qualifiers={s: {s, "z"}}, name=s, parent=s, raise_on_reserved_attributes=False)),
            ]
        )
    for j, v in enumerate([0, 1, -5, 1.5, None, True, (1, 2), frozenset(), Strand.PLUS, float("nan"), b"x;y"]):
        for comma in (True, False):
            res[f"valobj-{j}-{comma}"] = capture(lambda: GFFAttributes.escape_value(v, escape_comma=comma))

    quals = [
        {},
        {"a": {"b"}},
        {"b": {"2", "1", "10"}, "a": {"x"}},
        {"empty": set(), "a": {"x"}},
        {"Key;With=Stuff": {"v;1", "v,2", "v=3"}},
        {"ID": {"x"}},
        {"Name": {"x"}, "z": {"y"}},
        {"Parent": {"x"}, "a": {"y"}},
        {"ID": set(), "a": {"y"}},
        {"Note": {"hello world"}, "Dbxref": {"db:1", "db:2"}},
        {"note": {"hello world"}, "Alias": {"al"}, "Target": {"t 1 2 +"}},
        {"Gap": {"M8"}, "Derives_from": {"d"}, "Ontology_term": {"GO:1"}},
        {"id": {"lower"}, "name": {"lower"}, "parent": {"lower"}},
        {"UPPER": {"V"}, "lower": {"v"}},
        {1: {2, 3}, 2: {"x"}},
        {"a": {1, 2, 10}},
        {"a": {""}},
        {"a": {"", "b"}},
        {1: {"x"}, "a": {"y"}},  # unsortable keys -> TypeError
        {"a": ["x"]},  # not a set -> constructor exception
        {"a": {"x"}, "b": "notaset"},
        {"gene_id": {"g1"}, "gene_name": {"n"}, "gene_biotype": {"protein_coding"}, "locus_tag": {"l"}},
        {"İ": {"İ"}, "ß": {"ß"}},
    ]
    quals += [{s: {s}} for s in NASTY] + [{"k": set(NASTY)}]
    ids = [("id1", None, None), ("id,1", "pa;rent", "na=me"), ("", "", ""), ("x y", "p>q", "n\tm"), (5, 6, 7)]
    for qi, q in enumerate(quals):
        for ii, (id_, parent, name) in enumerate(ids):
            for raise_ in (True, False, None):

                def f():
                    a = GFFAttributes(
                        id=id_, qualifiers=q, name=name, parent=parent, raise_on_reserved_attributes=raise_
                    )
                    return str(a)

                res[f"attrs-{qi}-{ii}-{raise_}"] = capture(f)
    # default for raise_on_reserved_attributes / positional construction
    res["attrs-default-raise"] = capture(lambda: str(GFFAttributes("i", {"ID": {"x"}})))
    res["attrs-default-ok"] = capture(lambda: str(GFFAttributes("i", {"q": {"x"}}, name="n")))
    res["constants"] = {
        k: repr(getattr(gff3_constants, k))
        for k in sorted(dir(gff3_constants))
        # BIOCANTOR_QUALIFIERS_REGEX is built from a set: its text depends on hash randomisation, so skip it
        if k.isupper() and not k.startswith("_") and k != "BIOCANTOR_QUALIFIERS_REGEX"
    }
    return res


def section_rows():
    res = {}
    n = 0
    for type_, strand, phase, score in itertools.product(
        list(BioCantorFeatureTypes), list(Strand), list(CDSPhase), [".", 0.5, 1, "1e-5"]
    ):
        attrs = GFFAttributes(id=f"id{n}", qualifiers={"k": {"v w"}}, name="n" if n % 2 else None, parent=None)
        row = GFFRow("seq 1" if n % 3 else "chr1", "BioCantor", type_, n, n + 10, score, strand, phase, attrs)
        res[f"row-{n}"] = capture(lambda: str(row))
        n += 1
    return res


# --------------------------------------------------------------------------------------------------------------------
GENOME_LEN = 400
rng0 = random.Random(11)
GENOME = "".join(rng0.choice("ACGT") for _ in range(GENOME_LEN))


def parents():
    """name -> factory of parent (fresh per call)"""
    return {
        "none": lambda: None,
        "chrom": lambda: seq_to_parent(GENOME, seq_id="chr1"),
        "chunk_0_400": lambda: seq_chunk_to_parent(GENOME, "chr1", 0, 400),
        "chunk_50_300": lambda: seq_chunk_to_parent(GENOME[50:300], "chr1", 50, 300),
        "chunk_100_200": lambda: seq_chunk_to_parent(GENOME[100:200], "chr1", 100, 200),
        "chunk_120_260_minus": lambda: seq_chunk_to_parent(GENOME[120:260], "chr1", 120, 260, strand=Strand.MINUS),
    }


def random_blocks(rng, n, lo=10, hi=390):
    pts = sorted(rng.sample(range(lo, hi), 2 * n))
    starts, ends = pts[0::2], pts[1::2]
    return starts, ends


def random_quals(rng):
    pool_k = ["note", "Note", "k;1", "k=2", "K 3", "ünï", "product", "gene_id", "x%y", "tab\tkey", "dbxref", "Alias"]
    pool_v = NASTY[1:] + ["v1", "v2", "10", "2"]
    q = {}
    for k in rng.sample(pool_k, rng.randint(0, 4)):
        q[k] = [rng.choice(pool_v) for _ in range(rng.randint(1, 3))]
    return q


def make_tx_kwargs(rng, idx):
    n = rng.randint(1, 5)
    starts, ends = random_blocks(rng, n)
    strand = rng.choice([Strand.PLUS, Strand.MINUS])
    kw = dict(
        exon_starts=starts,
        exon_ends=ends,
        strand=strand,
        qualifiers=random_quals(rng),
        transcript_id=rng.choice([None, f"tx{idx}", "tx;id", "tx id,1"]),
        transcript_symbol=rng.choice([None, f"TXSYM{idx}", "sym=1", "sym,2 x"]),
        transcript_type=rng.choice([None, Biotype.protein_coding, Biotype.lncRNA, Biotype.tRNA]),
        sequence_name="chr1",
        is_primary_tx=rng.choice([None, None, False]),
    )
    if rng.random() < 0.7:
        # coding: CDS inside the exons
        total = sum(e - s for s, e in zip(starts, ends))
        if total >= 6:
            a = rng.randint(0, total - 4)
            b = rng.randint(a + 3, total)
            # map transcript-in-genome-order offsets to blocks
            cds_s, cds_e = [], []
            off = 0
            for s, e in zip(starts, ends):
                ln = e - s
                bs, be = max(a, off), min(b, off + ln)
                if bs < be:
                    cds_s.append(s + bs - off)
                    cds_e.append(s + be - off)
                off += ln
            if rng.random() < 0.3 and cds_e[0] - cds_s[0] > 2:
                # split the first CDS block into two adjacent (0bp gap) blocks
                mid = cds_s[0] + 1
                cds_s = [cds_s[0], mid] + cds_s[1:]
                cds_e = [mid, cds_e[0]] + cds_e[1:]
            kw["cds_starts"], kw["cds_ends"] = cds_s, cds_e
            mode = rng.random()
            if mode < 0.5:
                loc = TranscriptInterval.initialize_location(cds_s, cds_e, strand)
                kw["cds_frames"] = CDSInterval.construct_frames_from_location(
                    loc, rng.choice([CDSFrame.ZERO, CDSFrame.ONE, CDSFrame.TWO])
                )
            else:
                kw["cds_frames"] = [rng.choice([CDSFrame.ZERO, CDSFrame.ONE, CDSFrame.TWO]) for _ in cds_s]
            kw["protein_id"] = rng.choice([None, f"prot{idx}", "prot;1,2"])
            kw["product"] = rng.choice([None, "some product", "prod=x;y"])
    return kw


def make_feature_kwargs(rng, idx):
    n = rng.randint(1, 4)
    starts, ends = random_blocks(rng, n)
    return dict(
        interval_starts=starts,
        interval_ends=ends,
        strand=rng.choice([Strand.PLUS, Strand.MINUS, Strand.UNSTRANDED]),
        qualifiers=random_quals(rng),
        sequence_name="chr1",
        feature_types=rng.choice([None, ["promoter"], ["a b", "c;d"], ["x,y"]]),
        feature_name=rng.choice([None, f"feat{idx}", "fe;at"]),
        feature_id=rng.choice([None, f"fid{idx}", "fid,1"]),
        is_primary_feature=rng.choice([None, None, False]),
    )


MODES = list(itertools.product([True, False], [True, False]))  # (chromosome_relative, raise_on_reserved)


def all_modes(obj, **extra):
    out = {}
    for chrom, raise_ in MODES:
        try:
            it = obj.to_gff(chromosome_relative_coordinates=chrom, raise_on_reserved_attributes=raise_, **extra)
        except Exception as e:  # noqa  (eager failure; to_gff is normally a generator)
            out[f"{chrom}-{raise_}"] = {"eager_exc": [type(e).__name__, str(e)]}
            continue
        out[f"{chrom}-{raise_}"] = rows_of(it)
    return out


def build(fn):
    try:
        return fn(), None
    except Exception as e:  # noqa
        return None, [type(e).__name__, str(e)]


def section_models():
    res = {}
    rng = random.Random(2024)
    tx_specs = [make_tx_kwargs(rng, i) for i in range(40)]
    feat_specs = [make_feature_kwargs(rng, i) for i in range(24)]
    collections_for_writer = {}

    for pname, pfac in parents().items():
        # --- transcripts and their CDS -----------------------------------------------------------------------------
        txs = []
        for i, kw in enumerate(tx_specs):
            tx, err = build(lambda: TranscriptInterval(parent_or_seq_chunk_parent=pfac(), **kw))
            if err:
                res[f"{pname}/tx{i}/build"] = err
                continue
            txs.append((i, tx))
            res[f"{pname}/tx{i}/to_gff"] = all_modes(tx)
            res[f"{pname}/tx{i}/to_gff_parent"] = all_modes(
                tx, parent="the;parent", parent_qualifiers={"pq": {"1", "2"}, "gene_id": {"G"}}
            )
            # positional call + defaults
            res[f"{pname}/tx{i}/to_gff_defaults"] = rows_of(tx.to_gff())
            res[f"{pname}/tx{i}/to_gff_positional"] = rows_of(tx.to_gff("P", {"q": {"v"}}, False, False))
            if tx.cds:
                res[f"{pname}/tx{i}/cds_to_gff"] = all_modes(tx.cds)
                res[f"{pname}/tx{i}/cds_to_gff_parent"] = all_modes(
                    tx.cds, parent="tx,parent", parent_qualifiers={"pq": {"b", "a"}, "ID": {"reserved"}}
                )
                res[f"{pname}/tx{i}/cds_to_gff_defaults"] = rows_of(tx.cds.to_gff())
                res[f"{pname}/tx{i}/cds_to_gff_positional"] = rows_of(tx.cds.to_gff("P", {"q": {"v"}}, False, True))
        # transcript without sequence name
        kw = dict(tx_specs[0], sequence_name=None)
        tx, err = build(lambda: TranscriptInterval(parent_or_seq_chunk_parent=pfac(), **kw))
        res[f"{pname}/tx-noname"] = err or all_modes(tx)

        # --- genes -------------------------------------------------------------------------------------------------
        genes = []
        grng = random.Random(7)
        pos = 0
        gi = 0
        while pos < len(tx_specs):
            k = grng.randint(1, 3)
            specs = tx_specs[pos : pos + k]
            pos += k

            def mk():
                tlist = [TranscriptInterval(parent_or_seq_chunk_parent=pfac(), **s) for s in specs]
                return GeneInterval(
                    tlist,
                    gene_id=grng.choice([None, f"gene{gi}", "ge;ne"]),
                    gene_symbol=grng.choice([None, f"GSYM{gi}", "g sym,1"]),
                    gene_type=grng.choice([None, Biotype.protein_coding, Biotype.lncRNA]),
                    locus_tag=grng.choice([None, f"LT_{gi}", "lt=1"]),
                    qualifiers=random_quals(grng),
                    sequence_name="chr1",
                    parent_or_seq_chunk_parent=pfac(),
                )

            gene, err = build(mk)
            if err:
                res[f"{pname}/gene{gi}/build"] = err
            else:
                genes.append(gene)
                res[f"{pname}/gene{gi}/to_gff"] = all_modes(gene)
                res[f"{pname}/gene{gi}/to_gff_defaults"] = rows_of(gene.to_gff())
                res[f"{pname}/gene{gi}/to_gff_positional"] = rows_of(gene.to_gff(False, False))
            gi += 1
        # gene without a sequence name
        gene, err = build(
            lambda: GeneInterval(
                [TranscriptInterval(parent_or_seq_chunk_parent=pfac(), **tx_specs[1])],
                gene_id="noname",
                parent_or_seq_chunk_parent=pfac(),
            )
        )
        res[f"{pname}/gene-noname"] = err or all_modes(gene)
        # gene with reserved qualifier
        gene, err = build(
            lambda: GeneInterval(
                [TranscriptInterval(parent_or_seq_chunk_parent=pfac(), **tx_specs[2])],
                gene_id="reserved",
                qualifiers={"ID": ["boom"], "Note": ["n"], "ok": ["fine"]},
                sequence_name="chr1",
                parent_or_seq_chunk_parent=pfac(),
            )
        )
        res[f"{pname}/gene-reserved"] = err or all_modes(gene)

        # --- features ----------------------------------------------------------------------------------------------
        fcs = []
        frng = random.Random(13)
        pos = 0
        fi = 0
        for i, kw in enumerate(feat_specs):
            f, err = build(lambda: FeatureInterval(parent_or_seq_chunk_parent=pfac(), **kw))
            if err:
                res[f"{pname}/feat{i}/build"] = err
                continue
            res[f"{pname}/feat{i}/to_gff"] = all_modes(f)
            res[f"{pname}/feat{i}/to_gff_parent"] = all_modes(
                f, parent="fc parent", parent_qualifiers={"pq": {"1"}, "Name": {"reserved"}}
            )
            res[f"{pname}/feat{i}/to_gff_defaults"] = rows_of(f.to_gff())
            res[f"{pname}/feat{i}/to_gff_positional"] = rows_of(f.to_gff("P", {"q": {"v"}}, False, False))
        kw = dict(feat_specs[0], sequence_name=None)
        f, err = build(lambda: FeatureInterval(parent_or_seq_chunk_parent=pfac(), **kw))
        res[f"{pname}/feat-noname"] = err or all_modes(f)
        while pos < len(feat_specs):
            k = frng.randint(1, 3)
            specs = feat_specs[pos : pos + k]
            pos += k

            def mkfc():
                flist = [FeatureInterval(parent_or_seq_chunk_parent=pfac(), **s) for s in specs]
                return FeatureIntervalCollection(
                    flist,
                    feature_collection_name=frng.choice([None, f"fc{fi}", "fc;name"]),
                    feature_collection_id=frng.choice([None, f"fcid{fi}"]),
                    feature_collection_type=frng.choice([None, "regulatory", "ty pe"]),
                    locus_tag=frng.choice([None, f"FLT{fi}"]),
                    qualifiers=random_quals(frng),
                    sequence_name="chr1",
                    parent_or_seq_chunk_parent=pfac(),
                )

            fc, err = build(mkfc)
            if err:
                res[f"{pname}/fc{fi}/build"] = err
            else:
                fcs.append(fc)
                res[f"{pname}/fc{fi}/to_gff"] = all_modes(fc)
                res[f"{pname}/fc{fi}/to_gff_defaults"] = rows_of(fc.to_gff())
                res[f"{pname}/fc{fi}/to_gff_positional"] = rows_of(fc.to_gff(False, False))
            fi += 1
        fc, err = build(
            lambda: FeatureIntervalCollection(
                [FeatureInterval(parent_or_seq_chunk_parent=pfac(), **feat_specs[1])],
                feature_collection_id="noname",
                parent_or_seq_chunk_parent=pfac(),
            )
        )
        res[f"{pname}/fc-noname"] = err or all_modes(fc)

        # --- annotation collections --------------------------------------------------------------------------------
        def mkac(g, f, **kw):
            return AnnotationCollection(
                feature_collections=f, genes=g, sequence_name="chr1", parent_or_seq_chunk_parent=pfac(), **kw
            )

        def exportable(items):
            """children whose chunk-relative export works (non-empty inside the chunk)"""
            keep = []
            for it in items:
                try:
                    with warnings.catch_warnings():
                        warnings.simplefilter("ignore")
                        list(it.to_gff(chromosome_relative_coordinates=False, raise_on_reserved_attributes=False))
                    keep.append(it)
                except Exception:  # noqa
                    pass
            return keep

        variants = {
            "all": lambda: mkac(genes, fcs, name="all", id="all-id"),
            "exportable": lambda: mkac(exportable(genes), exportable(fcs), name="exportable"),
            "genes": lambda: mkac(genes[:5], None),
            "fcs": lambda: mkac(None, fcs[:4]),
            "rev": lambda: mkac(list(reversed(genes[:6])), list(reversed(fcs[:3])), qualifiers={"cq": ["v"]}),
            "one": lambda: mkac(genes[:1], None),
            "empty": lambda: mkac(None, None),
            "ranged": lambda: mkac(genes[:5], fcs[:2], start=0, end=400),
        }
        for vname, vfac in variants.items():
            ac, err = build(vfac)
            if err:
                res[f"{pname}/ac-{vname}/build"] = err
                continue
            res[f"{pname}/ac-{vname}/to_gff"] = all_modes(ac)
            res[f"{pname}/ac-{vname}/to_gff_defaults"] = rows_of(ac.to_gff())
            res[f"{pname}/ac-{vname}/to_gff_positional"] = rows_of(ac.to_gff(False, False))
            res[f"{pname}/ac-{vname}/unsorted"] = rows_of(ac._unsorted_gff_iter())
            res[f"{pname}/ac-{vname}/unsorted_positional"] = rows_of(ac._unsorted_gff_iter(False, False))
            collections_for_writer[f"{pname}/{vname}"] = ac
    res.update(section_writer(collections_for_writer))
    return res


class RecordingHandle(io.StringIO):
    pass


def run_writer(cols, **kw):
    handle = RecordingHandle()
    with warnings.catch_warnings(record=True) as w:
        warnings.simplefilter("always")
        exc = None
        ret = None
        try:
            ret = collection_to_gff3(cols, handle, **kw)
        except Exception as e:  # noqa
            exc = [type(e).__name__, str(e)]
    return {
        "text": handle.getvalue(),
        "ret": repr(ret),
        "exc": exc,
        "warnings": [[x.category.__name__, str(x.message)] for x in w],
    }


def section_writer(cols):
    res = {}
    groups = {
        "single-none": ["none/all"],
        "single-chrom": ["chrom/all"],
        "single-chunk": ["chunk_50_300/all"],
        "single-chunk-minus": ["chunk_120_260_minus/all"],
        "single-chunk-exportable": ["chunk_50_300/exportable"],
        "single-chunk-minus-exportable": ["chunk_120_260_minus/exportable"],
        "multi-chunk-exportable": ["chunk_100_200/exportable", "chunk_0_400/exportable", "chunk_50_300/exportable"],
        "multi-chrom": ["chrom/rev", "chrom/all", "chrom/genes"],
        "multi-mixed": ["chrom/rev", "chunk_100_200/genes", "chrom/genes"],
        "multi-noseq": ["none/all", "none/genes"],
        "multi-seq-then-noseq": ["chrom/rev", "none/genes", "chrom/fcs"],
        "empty-collection": ["chrom/empty"],
        "no-collections": [],
    }
    flags = list(itertools.product([True, False], repeat=4))
    for gname, keys in groups.items():
        missing = [k for k in keys if k not in cols]
        if missing:
            raise RuntimeError(f"harness: collections {missing} were not built")
        members = [cols[k] for k in keys]
        for add_seq, ordered, chrom, raise_ in flags:
            kw = dict(
                add_sequences=add_seq,
                ordered=ordered,
                chromosome_relative_coordinates=chrom,
                raise_on_reserved_attributes=raise_,
            )
            tag = f"writer/{gname}/{add_seq}-{ordered}-{chrom}-{raise_}"
            res[tag + "/list"] = run_writer(list(members), **kw)
            res[tag + "/gen"] = run_writer((m for m in members), **kw)
        res[f"writer/{gname}/defaults"] = run_writer(list(members))
        res[f"writer/{gname}/ordered-1"] = run_writer(list(members), ordered=1)
        res[f"writer/{gname}/ordered-None"] = run_writer(list(members), ordered=None, add_sequences=None)
        res[f"writer/{gname}/tuple"] = run_writer(tuple(members), add_sequences=True)
    # different sequence names (sorting by sequence_name)
    for order in ([2, 0, 1], [0, 1, 2], [1, 2, 0]):
        acs = []
        for j in order:
            name = ["chrB", "chrA", "chrC"][j]
            p = seq_to_parent(GENOME[: 100 + 50 * j], seq_id=name)
            tx = TranscriptInterval(
                [5 + j, 40],
                [20, 60 + j],
                Strand.MINUS if j % 2 else Strand.PLUS,
                cds_starts=[10, 40],
                cds_ends=[20, 55],
                cds_frames=[CDSFrame.ZERO, CDSFrame.ONE],
                sequence_name=name,
                transcript_id=f"t{j}",
                parent_or_seq_chunk_parent=p,
            )
            g = GeneInterval([tx], gene_id=f"g{j}", sequence_name=name, parent_or_seq_chunk_parent=p)
            acs.append(AnnotationCollection(genes=[g], sequence_name=name, parent_or_seq_chunk_parent=p))
        for add_seq, ordered, chrom, raise_ in flags:
            kw = dict(
                add_sequences=add_seq,
                ordered=ordered,
                chromosome_relative_coordinates=chrom,
                raise_on_reserved_attributes=raise_,
            )
            tag = f"writer/named-{order}/{add_seq}-{ordered}-{chrom}-{raise_}"
            res[tag + "/list"] = run_writer(list(acs), **kw)
            res[tag + "/gen"] = run_writer(iter(acs), **kw)
        h = io.StringIO()
        collection_to_gff3(acs, h, True, True, True, True)
        res[f"writer/named-{order}/positional-all"] = h.getvalue()
    return res


def main():
    if sys.argv[1] == "dump":
        res = {"attrs": section_attrs(), "rows": section_rows(), "models": section_models()}
        with open(sys.argv[2], "w") as fh:
            json.dump(res, fh, indent=1, sort_keys=True, default=repr)
        n = sum(len(v) for v in res.values())
        print(f"dumped {n} records to {sys.argv[2]}")
    elif sys.argv[1] == "compare":
        a = json.load(open(sys.argv[2]))
        b = json.load(open(sys.argv[3]))
        bad = 0
        for sec in sorted(set(a) | set(b)):
            ka, kb = a.get(sec, {}), b.get(sec, {})
            for k in sorted(set(ka) | set(kb)):
                if ka.get(k, "<missing>") != kb.get(k, "<missing>"):
                    bad += 1
                    if bad <= 10:
                        print("DIFF", sec, k)
                        print("  A:", json.dumps(ka.get(k))[:600])
                        print("  B:", json.dumps(kb.get(k))[:600])
        total = sum(len(v) for v in a.values())
        print(f"compared {total} records: {'IDENTICAL' if not bad else str(bad) + ' DIFFERENCES'}")
        sys.exit(1 if bad else 0)


if __name__ == "__main__":
    main()
