"""Equivalence script for the location set-algebra refactoring.

Usage (from the worktree root):

    /venv/bin/python _refactor/R1/equiv.py save  /tmp/wt/T02/_refactor/R1/baseline.json   # on pristine code
    git apply _refactor/R1/patch.diff
    /venv/bin/python _refactor/R1/equiv.py check /tmp/wt/T02/_refactor/R1/baseline.json   # on refactored code
    /venv/bin/python _refactor/R1/equiv.py show  KEY                                       # print one full record

Every record is the full textual description (type, blocks, strand, length, parent chain, identity with
the operands) of the value returned by one call, or the exception type and message. Only a digest of
each record is stored, keyed by a readable description of the call.
"""
import hashlib
import itertools
import json
import os
import random
import sys

if os.environ.get("PYTHONHASHSEED") != "0":  # some error messages print a set: fix the hash seed
    os.execve(sys.executable, [sys.executable] + sys.argv, dict(os.environ, PYTHONHASHSEED="0"))

sys.path.insert(0, os.path.dirname(os.path.dirname(os.path.dirname(os.path.abspath(__file__)))))  # worktree root

import inscripta.biocantor.location  # noqa: F401  (must come first: circular import otherwise)
from inscripta.biocantor import DistanceType, SequenceType
from inscripta.biocantor.location.location_impl import (
    SingleInterval,
    CompoundInterval,
    EmptyLocation,
    _EmptyLocation,
)
from inscripta.biocantor.location.location import Location
from inscripta.biocantor.location.strand import Strand
from inscripta.biocantor.parent import Parent
from inscripta.biocantor.sequence import Sequence
from inscripta.biocantor.sequence.alphabet import Alphabet
from inscripta.biocantor.util.object_validation import ObjectValidation

STRANDS = (Strand.PLUS, Strand.MINUS, Strand.UNSTRANDED)
FLAGS = (False, True)


# --------------------------------------------------------------------------------------------------------
# descriptions
# --------------------------------------------------------------------------------------------------------
def pdesc(parent, depth=0):
    if parent is None:
        return "None"
    if depth > 4:
        return "..."
    seq = parent.sequence
    seq_txt = "None" if seq is None else f"{str(seq)}|{seq.id}|{seq.sequence_type}|P={pdesc(seq.parent, depth + 1)}"
    loc = parent.location
    loc_txt = "None" if loc is None else ldesc(loc, depth + 1)
    return (
        f"Parent(id={parent.id},type={parent.sequence_type},strand={parent.strand},loc={loc_txt},"
        f"seq={seq_txt},parent={pdesc(parent.parent, depth + 1)})"
    )


def ldesc(loc, depth=0):
    if type(loc) is _EmptyLocation:
        return "EmptyLocation" + ("" if loc is EmptyLocation() else "(not singleton)")
    try:
        blocks = [(type(b).__name__[0], b.start, b.end, str(b.strand)) for b in loc.blocks]
    except Exception as e:  # out-of-bounds blocks
        blocks = f"blocks raise {type(e).__name__}: {e}"
    extra = ""
    if type(loc) is CompoundInterval:
        extra = f" _starts={loc._starts} _ends={loc._ends}"
    return (
        f"{type(loc).__name__}[{loc.start}-{loc.end}:{loc.strand} len={len(loc)} n={loc.num_blocks} "
        f"blocks={blocks}{extra} str={str(loc)} parent={pdesc(loc.parent, depth + 1)}]"
    )


def desc(x, operands=()):
    if isinstance(x, Location):
        ident = "".join(f" is#{i}" for i, o in enumerate(operands) if x is o)
        return ldesc(x) + ident
    if isinstance(x, (list, tuple)):
        return type(x).__name__ + "(" + "; ".join(desc(v, operands) for v in x) + ")"
    if hasattr(x, "__next__"):
        return "iter(" + "; ".join(desc(v, operands) for v in x) + ")"
    if type(x).__name__ == "Parent" or type(x) is getattr(Parent, "__wrapped__", None):
        return pdesc(x)
    if isinstance(x, Sequence):
        return f"Sequence({str(x)})"
    return f"{type(x).__name__}:{x!r}"


def call(fn, *operands):
    try:
        res = fn()
        if hasattr(res, "__next__"):
            res = list(res)
        return desc(res, operands)
    except Exception as e:  # noqa
        return f"RAISES {type(e).__name__}: {e}"


# --------------------------------------------------------------------------------------------------------
# inputs
# --------------------------------------------------------------------------------------------------------
def make_parents(length):
    seq = ("ACGTTGCAAGCTTAGCCATG" * 10)[:length]
    chrom_seq = Parent(id="chr", sequence=Sequence(seq, Alphabet.NT_STRICT, id="chr", type=SequenceType.CHROMOSOME))
    chrom_noseq = Parent(id="chr", sequence_type=SequenceType.CHROMOSOME)
    other_chrom = Parent(id="other", sequence_type=SequenceType.CHROMOSOME)
    chunk_id = f"chr:10-{10 + length}"
    chunk = Parent(
        id=chunk_id,
        sequence=Sequence(
            seq,
            Alphabet.NT_EXTENDED_GAPPED,
            id=chunk_id,
            type=SequenceType.SEQUENCE_CHUNK,
            parent=Parent(
                location=SingleInterval(
                    10, 10 + length, Strand.PLUS, parent=Parent(id="chr", sequence_type=SequenceType.CHROMOSOME)
                )
            ),
        ),
    )
    return {"none": None, "seq": chrom_seq, "noseq": chrom_noseq, "other": other_chrom, "chunk": chunk, "str": "chr"}


def build(spec, strand, parent):
    """spec: tuple of (start, end) blocks; one block -> SingleInterval"""
    if spec[0] == "C":  # marker: a CompoundInterval even if it has one block
        spec = spec[1:]
    elif len(spec) == 1:
        return SingleInterval(spec[0][0], spec[0][1], strand, parent)
    return CompoundInterval([b[0] for b in spec], [b[1] for b in spec], strand, parent)


def specs_small(length, rng):
    intervals = [(s, e) for s in range(length + 1) for e in range(s, length + 1)]
    singles = [(iv,) for iv in intervals]
    doubles = [(a, b) for a, b in itertools.combinations_with_replacement(intervals, 2)]
    triples = [tuple(rng.choice(intervals) for _ in range(3)) for _ in range(80)]
    # a compound interval with only one block is legal too
    one_block_compounds = [("C", iv) for iv in intervals]
    return singles, doubles, triples + one_block_compounds


def specs_large(length, rng, n):
    out = []
    for _ in range(n):
        k = rng.choice((1, 1, 2, 3, 4, 5, 6))
        mode = rng.choice(("sorted", "any"))
        if mode == "sorted":
            cuts = sorted(rng.randint(0, length) for _ in range(2 * k))
            out.append(tuple((cuts[2 * i], cuts[2 * i + 1]) for i in range(k)))
        else:
            blocks = []
            for _ in range(k):
                s = rng.randint(0, length)
                e = rng.randint(s, min(length, s + 12))
                blocks.append((s, e))
            out.append(tuple(blocks))
    return out


# --------------------------------------------------------------------------------------------------------
# operations
# --------------------------------------------------------------------------------------------------------
def unary_ops(a, length, light=False):
    yield "str", lambda: str(a)
    yield "repr", lambda: repr(a)
    yield "len", lambda: len(a)
    yield "blocks", lambda: a.blocks
    yield "scan_blocks", lambda: list(a.scan_blocks())
    yield "num_blocks", lambda: a.num_blocks
    yield "is_contiguous", lambda: a.is_contiguous
    yield "is_overlapping", lambda: a.is_overlapping
    yield "is_empty", lambda: a.is_empty
    yield "full_span", lambda: a._full_span_interval
    yield "optimize_blocks", lambda: a.optimize_blocks()
    if type(a) is CompoundInterval:
        yield "optimize_and_combine_blocks", lambda: a.optimize_and_combine_blocks()
        yield "_combine_blocks(True)", lambda: a._combine_blocks(True)
        yield "_combine_blocks(False)", lambda: a._combine_blocks(False)
        yield "to_compound_location", lambda: str(a.to_compound_location())
        yield "from_single_intervals", lambda: CompoundInterval.from_single_intervals(a.blocks)
    yield "gap_list", lambda: a.gap_list()
    yield "gaps_location", lambda: a.gaps_location()
    yield "merge_overlapping", lambda: a.merge_overlapping()
    yield "reverse", lambda: a.reverse()
    yield "reverse_strand", lambda: a.reverse_strand()
    for s in STRANDS:
        yield f"reset_strand({s})", lambda s=s: a.reset_strand(s)
    yield "reset_parent(None)", lambda: a.reset_parent(None)
    yield "reset_parent(other)", lambda: a.reset_parent(Parent(id="zzz"))
    for shift in (-2, -1, 0, 1, 3):
        yield f"shift_position({shift})", lambda shift=shift: a.shift_position(shift)
    for x, y in ((0, 0), (1, 0), (0, 1), (2, 3), (-1, 0), (0, -1), (7, 0), (0, 40)):
        yield f"extend_absolute({x},{y})", lambda x=x, y=y: a.extend_absolute(x, y)
        yield f"extend_relative({x},{y})", lambda x=x, y=y: a.extend_relative(x, y)
    yield "extract_sequence", lambda: a.extract_sequence()
    yield "to_biopython", lambda: str(a.to_biopython())
    yield "hash==", lambda: hash(a) == hash(a.reset_strand(a.strand)) if not a.is_empty else None
    positions = range(-1, length + 2) if not light else (-1, 0, 1, length // 2, length - 1, length)
    for pos in positions:
        yield f"parent_to_relative_pos({pos})", lambda pos=pos: a.parent_to_relative_pos(pos)
        yield f"relative_to_parent_pos({pos})", lambda pos=pos: a.relative_to_parent_pos(pos)
    rel = range(-1, min(len(a), 7) + 2) if not light else (0, 1, len(a) // 2, len(a))
    for rs in rel:
        for re_ in rel:
            for s in STRANDS if not light else (Strand.PLUS, Strand.MINUS):
                yield (
                    f"relative_interval_to_parent_location({rs},{re_},{s})",
                    lambda rs=rs, re_=re_, s=s: a.relative_interval_to_parent_location(rs, re_, s),
                )
    for w, st, sp in ((1, 1, 0), (2, 1, 0), (2, 2, 1), (3, 5, 0), (0, 1, 0), (1, 1, 99)):
        yield f"scan_windows({w},{st},{sp})", lambda w=w, st=st, sp=sp: list(a.scan_windows(w, st, sp))
    yield "first_ancestor(chromosome)", lambda: a.first_ancestor_of_type("chromosome")
    yield "has_ancestor(chromosome)", lambda: a.has_ancestor_of_type("chromosome")
    yield "lift_to_chromosome", lambda: a.lift_over_to_first_ancestor_of_type("chromosome")


def binary_ops(a, b):
    for ms, fs, sp in itertools.product(FLAGS, FLAGS, FLAGS):
        yield f"has_overlap({ms},{fs},{sp})", lambda ms=ms, fs=fs, sp=sp: a.has_overlap(b, ms, fs, sp)
        yield f"intersection({ms},{fs},{sp})", lambda ms=ms, fs=fs, sp=sp: a.intersection(b, ms, fs, sp)
        yield f"contains({ms},{fs},{sp})", lambda ms=ms, fs=fs, sp=sp: a.contains(b, ms, fs, sp)
    yield "has_overlap()", lambda: a.has_overlap(b)
    yield "intersection()", lambda: a.intersection(b)
    yield "contains()", lambda: a.contains(b)
    yield "minus()", lambda: a.minus(b)
    for ms, sp in itertools.product(FLAGS, FLAGS):
        yield f"minus({ms},{sp})", lambda ms=ms, sp=sp: a.minus(b, ms, sp)
    yield "union", lambda: a.union(b)
    yield "union_preserve_overlaps", lambda: a.union_preserve_overlaps(b)
    yield "distance_to()", lambda: a.distance_to(b)
    for dt in DistanceType:
        yield f"distance_to({dt.name})", lambda dt=dt: a.distance_to(b, dt)
    for ob in FLAGS:
        yield f"location_relative_to({ob})", lambda ob=ob: a.location_relative_to(b, optimize_blocks=ob)
        yield f"parent_to_relative_location({ob})", lambda ob=ob: a.parent_to_relative_location(b, ob)
    yield "eq", lambda: a == b
    yield "ne", lambda: a != b
    if type(a) is SingleInterval:
        yield "compare", lambda: a.compare(b)
        yield "lt", lambda: a < b
        yield "ge", lambda: a >= b
    yield "require_locations_overlap", lambda: ObjectValidation.require_locations_overlap(a, b)
    yield "require_locations_overlap(ms)", lambda: ObjectValidation.require_locations_overlap(a, b, True)
    yield "require_locations_do_not_overlap", lambda: ObjectValidation.require_locations_do_not_overlap(a, b)
    yield "require_parents_equal", lambda: ObjectValidation.require_parents_equal_except_location(a.parent, b.parent)
    yield (
        "require_same_nonempty_parent",
        lambda: ObjectValidation.require_locations_have_same_nonempty_parent(a, b),
    )


def misc_records():
    """constructors, validation helpers, EmptyLocation identities"""
    parents = make_parents(6)
    for pname, parent in parents.items():
        for s, e in ((0, 0), (0, 6), (0, 7), (6, 6), (7, 7), (3, 2), (-1, 2), (-2, -1), (2, 9)):
            for strand in STRANDS:
                yield f"ctor SI({s},{e},{strand},{pname})", lambda s=s, e=e, strand=strand, parent=parent: (
                    SingleInterval(s, e, strand, parent)
                )
        for starts, ends in (
            ([], []),
            ([0], []),
            ([0, 3], [2]),
            ([0], [3]),
            ([0, 4], [2, 6]),
            ([0, 4], [2, 7]),
            ([4, 0], [6, 2]),
            ([0, 1], [9, 2]),
            ([0, 0], [5, 3]),
            ([-1, 3], [2, 5]),
            ([3, 1], [2, 5]),
            ([1, 3], [5, 2]),
            ((0, 2, 2), (2, 2, 4)),
            ((1, 1, 1), (1, 1, 1)),
        ):
            for strand in STRANDS:
                yield f"ctor CI({starts},{ends},{strand},{pname})", lambda st=starts, en=ends, strand=strand, p=parent: (
                    CompoundInterval(st, en, strand, p)
                )
                yield f"ctor+blocks CI({starts},{ends},{strand},{pname})", lambda st=starts, en=ends, strand=strand, p=parent: (
                    CompoundInterval(st, en, strand, p).blocks
                )
                yield f"sort({starts},{ends},{strand},{pname})", lambda st=starts, en=ends, strand=strand: (
                    CompoundInterval._sort_starts_ends(st, en, strand)
                )
    # out-of-bounds inner blocks: the constructor only sees the end of the last block
    seq_parent = parents["seq"]
    for strand in STRANDS:
        for starts, ends in (([0, 1], [9, 2]), ([0, 1, 2], [3, 40, 5])):
            def mk(st=starts, en=ends, strand=strand):
                return CompoundInterval(st, en, strand, seq_parent)

            for name in (
                "reverse",
                "reverse_strand",
                "optimize_blocks",
                "optimize_and_combine_blocks",
                "gap_list",
                "merge_overlapping",
                "is_overlapping",
                "is_contiguous",
                "extract_sequence",
                "__str__",
                "__repr__",
                "to_biopython",
            ):
                yield f"oob {starts}{ends}{strand} {name}", lambda mk=mk, name=name: (
                    getattr(mk(), name)() if callable(getattr(type(mk()), name, None)) else getattr(mk(), name)
                )
            yield f"oob {starts}{ends}{strand} shift", lambda mk=mk: mk().shift_position(0)
            yield f"oob {starts}{ends}{strand} rel2par", lambda mk=mk: mk().relative_to_parent_pos(1)
            yield f"oob {starts}{ends}{strand} par2rel", lambda mk=mk: mk().parent_to_relative_pos(1)
            yield f"oob {starts}{ends}{strand} minus", lambda mk=mk: mk().minus(SingleInterval(1, 2, strand, seq_parent))
            yield f"oob {starts}{ends}{strand} inter", lambda mk=mk: mk().intersection(
                SingleInterval(1, 2, strand, seq_parent)
            )
            yield f"oob {starts}{ends}{strand} union", lambda mk=mk: mk().union(SingleInterval(1, 2, strand, seq_parent))
            yield f"oob {starts}{ends}{strand} dist", lambda mk=mk: mk().distance_to(
                SingleInterval(1, 2, strand, seq_parent)
            )
            yield f"oob {starts}{ends}{strand} ext", lambda mk=mk: mk().extend_absolute(1, 1)
    # from_single_intervals validation
    yield "fsi []", lambda: CompoundInterval.from_single_intervals([])
    yield "fsi strands", lambda: CompoundInterval.from_single_intervals(
        [SingleInterval(0, 1, Strand.PLUS), SingleInterval(2, 3, Strand.MINUS)]
    )
    yield "fsi parents", lambda: CompoundInterval.from_single_intervals(
        [SingleInterval(0, 1, Strand.PLUS, "a"), SingleInterval(2, 3, Strand.PLUS, "b")]
    )
    yield "fsi both", lambda: CompoundInterval.from_single_intervals(
        [SingleInterval(0, 1, Strand.MINUS, "a"), SingleInterval(2, 3, Strand.PLUS, "b")]
    )
    # ObjectValidation
    si = SingleInterval(0, 0, Strand.PLUS)
    yield "ov nonempty0", lambda: ObjectValidation.require_location_nonempty(si)
    yield "ov nonempty1", lambda: ObjectValidation.require_location_nonempty(SingleInterval(0, 1, Strand.PLUS))
    yield "ov nonemptyE", lambda: ObjectValidation.require_location_nonempty(EmptyLocation())
    for pname, parent in parents.items():
        loc = SingleInterval(0, 1, Strand.PLUS, parent)
        yield f"ov has_parent {pname}", lambda loc=loc: ObjectValidation.require_location_has_parent(loc)
        yield f"ov has_parent_seq {pname}", lambda loc=loc: (
            ObjectValidation.require_location_has_parent_with_sequence(loc)
        )
        if loc.parent is not None:
            yield f"ov parent_has_loc {pname}", lambda loc=loc: ObjectValidation.require_parent_has_location(loc.parent)
            yield f"ov parent_has_loc stripped {pname}", lambda loc=loc: (
                ObjectValidation.require_parent_has_location(loc.parent.strip_location_info())
            )
            yield f"ov parent_has_parent {pname}", lambda loc=loc: ObjectValidation.require_parent_has_parent(loc.parent)
            yield f"ov parent_has_parent_loc {pname}", lambda loc=loc: (
                ObjectValidation.require_parent_has_parent_with_location(loc.parent)
            )
        for qname, q in parents.items():
            if isinstance(parent, str) or isinstance(q, str):
                continue
            yield f"ov parents_equal {pname} {qname}", lambda p=parent, q=q: (
                ObjectValidation.require_parents_equal_except_location(p, q)
            )
            if parent is not None:
                yield f"ov parents_equal_noseq {pname} {qname}", lambda p=parent, q=q: (
                    ObjectValidation.require_parents_equal_except_location_and_sequence(p, q)
                )
    for obj, typ in ((si, SingleInterval), (si, CompoundInterval), (EmptyLocation(), SingleInterval), (1, int)):
        yield f"ov type {type(obj).__name__} {typ.__name__}", lambda obj=obj, typ=typ: (
            ObjectValidation.require_object_has_type(obj, typ)
        )
    # EmptyLocation
    e = EmptyLocation()
    other = SingleInterval(1, 3, Strand.PLUS)
    otherp = SingleInterval(1, 3, Strand.PLUS, "chr")
    for name in (
        "length",
        "parent",
        "strand",
        "start",
        "end",
        "is_contiguous",
        "is_empty",
        "blocks",
        "num_blocks",
        "is_overlapping",
        "_full_span_interval",
        "parent_id",
        "parent_type",
    ):
        yield f"empty.{name}", lambda name=name: getattr(e, name)
    for name, args in (
        ("__str__", ()),
        ("__repr__", ()),
        ("__len__", ()),
        ("scan_blocks", ()),
        ("optimize_blocks", ()),
        ("gap_list", ()),
        ("gaps_location", ()),
        ("extract_sequence", ()),
        ("parent_to_relative_pos", (0,)),
        ("relative_to_parent_pos", (0,)),
        ("parent_to_relative_location", (other,)),
        ("relative_interval_to_parent_location", (0, 0, Strand.PLUS)),
        ("has_overlap", (other,)),
        ("has_overlap", (otherp, False, False, True)),
        ("has_overlap", (other, False, False, True)),
        ("reverse", ()),
        ("reverse_strand", ()),
        ("reset_strand", (Strand.PLUS,)),
        ("reset_parent", (None,)),
        ("shift_position", (1,)),
        ("location_relative_to", (other,)),
        ("_location_relative_to", (other,)),
        ("distance_to", (other,)),
        ("intersection", (other,)),
        ("intersection", (otherp, True, False, True)),
        ("intersection", (other, True, False, True)),
        ("union", (other,)),
        ("union_preserve_overlaps", (other,)),
        ("minus", (other,)),
        ("minus", (otherp, True, True)),
        ("minus", (other, True, True)),
        ("extend_absolute", (1, 1)),
        ("extend_relative", (1, 1)),
        ("merge_overlapping", ()),
        ("to_biopython", ()),
        ("first_ancestor_of_type", ("chromosome",)),
        ("has_ancestor_of_type", ("chromosome",)),
        ("contains", (other,)),
        ("contains", (otherp, False, False, True)),
        ("scan_windows", (1, 1, 0)),
    ):
        yield f"empty.{name}{args}", lambda name=name, args=args: getattr(e, name)(*args)
    # comparisons with foreign objects, sorting, hashing, bad distance types
    ci = CompoundInterval([0, 3], [2, 5], Strand.PLUS)
    for lname, loc in (("si", other), ("sip", otherp), ("ci", ci), ("empty", e)):
        for oname, obj in (("int", 5), ("none", None), ("str", "1-3:+"), ("si", SingleInterval(1, 3, Strand.PLUS)),
                           ("ci", CompoundInterval([0, 3], [2, 5], Strand.PLUS)), ("ci1", CompoundInterval([1], [3], Strand.PLUS))):
            yield f"foreign {lname} == {oname}", lambda loc=loc, obj=obj: loc == obj
            yield f"foreign {lname} != {oname}", lambda loc=loc, obj=obj: loc != obj
        yield f"baddist {lname} None", lambda loc=loc: loc.distance_to(other, None)
        yield f"baddist {lname} str", lambda loc=loc: loc.distance_to(ci, "inner")
    pool = [
        SingleInterval(s, en, strand, parent)
        for s, en in ((0, 2), (0, 1), (1, 1), (3, 4), (0, 2))
        for strand in STRANDS
        for parent in (None, "chr", "abc")
    ]
    yield "sorted singles", lambda: sorted(pool)
    yield "sorted singles reversed", lambda: sorted(pool, reverse=True)
    yield "min/max singles", lambda: [min(pool), max(pool)]
    yield "set of singles", lambda: len(set(pool))
    yield "compare to compound", lambda: [p_.compare(ci) for p_ in pool]
    yield "compare to empty (no parent)", lambda: pool[0].compare(e)
    yield "compare to empty (parent)", lambda: pool[1].compare(e)
    yield "empty == empty", lambda: e == EmptyLocation()
    yield "empty == _EmptyLocation()", lambda: e == _EmptyLocation()
    yield "empty == other", lambda: e == other
    yield "hash(empty)", lambda: hash(e) == hash("EmptyLocation")
    yield "empty singleton", lambda: EmptyLocation() is EmptyLocation()


# --------------------------------------------------------------------------------------------------------
def collect():
    records = {}

    def put(key, value):
        # random specs can repeat: the repeated call must then give the same record
        assert records.get(key, value) == value, key
        records[key] = value

    rng = random.Random(20261003)

    for key, fn in misc_records():
        put("misc|" + key, call(fn))
    for key, fn in downstream_records():
        put(key, call(fn))

    # ---- small genome -------------------------------------------------------------------------------
    length = 5
    parents = make_parents(length)
    singles, doubles, triples = specs_small(length, rng)
    all_specs = singles + doubles + triples

    def name(spec, strand, pname):
        prefix = "C" if spec[0] == "C" else ""
        blocks = spec[1:] if spec[0] == "C" else spec
        return f"{prefix}{','.join(f'{s}-{e}' for s, e in blocks)}:{strand}@{pname}"

    # unary: every spec, every strand, parents none / seq / chunk
    for pname in ("none", "seq", "chunk", "noseq"):
        specs = all_specs if pname in ("none", "seq") else singles + rng.sample(doubles, 40) + triples[:20]
        for spec in specs:
            for strand in STRANDS:
                try:
                    a = build(spec, strand, parents[pname])
                except Exception as e:  # noqa
                    put(f"U|{name(spec, strand, pname)}|ctor", f"RAISES {type(e).__name__}: {e}")
                    continue
                for op, fn in unary_ops(a, length):
                    put(f"U|{name(spec, strand, pname)}|{op}", call(fn, a))

    # binary: exhaustive singles x singles (one strand pair each way), sampled pairs otherwise
    def run_pair(sa, stra, pa, sb, strb, pb):
        try:
            a = build(sa, stra, parents[pa])
            b = build(sb, strb, parents[pb])
        except Exception:  # noqa
            return
        key = f"B|{name(sa, stra, pa)}|{name(sb, strb, pb)}"
        if key + "|eq" in records:
            return
        for op, fn in binary_ops(a, b):
            put(f"{key}|{op}", call(fn, a, b))

    for sa in singles:
        for sb in singles:
            for stra, strb in ((Strand.PLUS, Strand.PLUS), (Strand.PLUS, Strand.MINUS), (Strand.UNSTRANDED, Strand.MINUS)):
                run_pair(sa, stra, "none", sb, strb, "none")
    strand_pairs = list(itertools.product(STRANDS, STRANDS))
    for stra, strb in strand_pairs:
        for _ in range(450):
            sa = rng.choice(rng.choice((singles, doubles, doubles, triples)))
            sb = rng.choice(rng.choice((singles, doubles, doubles, triples)))
            run_pair(sa, stra, "none", sb, strb, "none")
    # union / union_preserve_overlaps need equal strands: more same-strand pairs
    for strand in STRANDS:
        for pname, n in (("none", 500), ("seq", 200), ("chunk", 60)):
            for _ in range(n):
                sa = rng.choice(rng.choice((singles, doubles, doubles, triples)))
                sb = rng.choice(rng.choice((singles, doubles, doubles, triples)))
                run_pair(sa, strand, pname, sb, strand, pname)
    parent_pairs = [
        ("seq", "seq"),
        ("seq", "seq"),
        ("chunk", "chunk"),
        ("noseq", "noseq"),
        ("str", "noseq"),
        ("seq", "none"),
        ("none", "seq"),
        ("seq", "noseq"),
        ("seq", "other"),
        ("chunk", "seq"),
        ("other", "noseq"),
    ]
    for pa, pb in parent_pairs:
        for stra, strb in strand_pairs:
            for _ in range(45):
                sa = rng.choice(rng.choice((singles, doubles, doubles, triples)))
                sb = rng.choice(rng.choice((singles, doubles, doubles, triples)))
                run_pair(sa, stra, pa, sb, strb, pb)

    # operands that are EmptyLocation
    e = EmptyLocation()
    for pname in ("none", "seq"):
        for spec in rng.sample(singles, 8) + rng.sample(doubles, 12) + triples[:5]:
            for strand in STRANDS:
                try:
                    a = build(spec, strand, parents[pname])
                except Exception:  # noqa
                    continue
                for op, fn in binary_ops(a, e):
                    put(f"B|{name(spec, strand, pname)}|EMPTY|{op}", call(fn, a, e))
                for op, fn in binary_ops(e, a):
                    put(f"B|EMPTY|{name(spec, strand, pname)}|{op}", call(fn, e, a))

    # ---- larger genome, random ----------------------------------------------------------------------
    length = 60
    parents = make_parents(length)
    big = specs_large(length, rng, 260)
    for i, spec in enumerate(big[:90]):
        for pname in ("none", "seq", "chunk"):
            strand = STRANDS[i % 3] if pname != "none" else STRANDS[(i + 1) % 3]
            try:
                a = build(spec, strand, parents[pname])
            except Exception as ex:  # noqa
                put(f"UL|{name(spec, strand, pname)}|ctor", f"RAISES {type(ex).__name__}: {ex}")
                continue
            if f"UL|{name(spec, strand, pname)}|str" in records:
                continue
            for op, fn in unary_ops(a, length, light=True):
                put(f"UL|{name(spec, strand, pname)}|{op}", call(fn, a))
    for _ in range(1300):
        sa, sb = rng.choice(big), rng.choice(big)
        stra, strb = rng.choice(strand_pairs)
        pa, pb = rng.choice([("none", "none")] * 4 + parent_pairs)
        run_pair(sa, stra, pa, sb, strb, pb)
    return records


def downstream_records():
    """the gene layer on top of the locations: transcripts on a chromosome and on sequence chunks"""
    from inscripta.biocantor.gene.cds_frame import CDSFrame
    from inscripta.biocantor.gene.feature import FeatureInterval
    from inscripta.biocantor.gene.transcript import TranscriptInterval

    rng = random.Random(77)
    genome = "".join(rng.choice("ACGT") for _ in range(90))
    chrom = Parent(
        sequence=Sequence(genome, Alphabet.NT_EXTENDED_GAPPED, type=SequenceType.CHROMOSOME, id="chr1"),
        location=SingleInterval(0, len(genome), Strand.PLUS),
    )  # = io.parser.seq_to_parent

    def chunk_parent(start, end):  # = io.parser.seq_chunk_to_parent
        chunk_id = f"chr1:{start}-{end}"
        return Parent(
            id=chunk_id,
            sequence=Sequence(
                genome[start:end],
                Alphabet.NT_EXTENDED_GAPPED,
                id=chunk_id,
                type=SequenceType.SEQUENCE_CHUNK,
                parent=Parent(
                    location=SingleInterval(
                        start, end, Strand.PLUS, parent=Parent(id="chr1", sequence_type=SequenceType.CHROMOSOME)
                    )
                ),
            ),
        )

    parents = {"none": None, "chrom": chrom, "chunk10-80": chunk_parent(10, 80), "chunk30-60": chunk_parent(30, 60)}
    for i in range(40):
        k = rng.choice((1, 2, 3, 4))
        cuts = sorted(rng.sample(range(2, 88), 2 * k))
        starts, ends = cuts[0::2], cuts[1::2]
        strand = rng.choice((Strand.PLUS, Strand.MINUS))
        cds_lo = rng.randint(starts[0], ends[-1] - 1)
        cds_hi = rng.randint(cds_lo + 1, ends[-1])
        cds_blocks = [(max(s, cds_lo), min(e, cds_hi)) for s, e in zip(starts, ends) if max(s, cds_lo) < min(e, cds_hi)]
        query = SingleInterval(*sorted(rng.sample(range(0, 90), 2)), rng.choice(STRANDS))
        for pname, parent in parents.items():
            tag = f"D|tx{i} {starts}{ends}{strand} cds={cds_blocks}@{pname}"
            try:
                tx = TranscriptInterval(
                    starts,
                    ends,
                    strand,
                    cds_starts=[b[0] for b in cds_blocks] or None,
                    cds_ends=[b[1] for b in cds_blocks] or None,
                    cds_frames=[CDSFrame.ZERO for _ in cds_blocks] or None,
                    sequence_name="chr1",
                    parent_or_seq_chunk_parent=parent,
                )
                feat = FeatureInterval(starts, ends, strand, sequence_name="chr1", parent_or_seq_chunk_parent=parent)
            except Exception as ex:  # noqa
                yield f"{tag}|ctor", lambda ex=ex: f"RAISES {type(ex).__name__}: {ex}"
                continue
            for obj_name, obj in (("tx", tx), ("feat", feat)):
                for attr in (
                    "chromosome_location",
                    "chunk_relative_location",
                    "chromosome_gaps_location",
                    "chunk_relative_gaps_location",
                    "chromosome_span",
                    "chunk_relative_span",
                    "blocks",
                    "chunk_relative_blocks",
                    "relative_blocks",
                    "cds_location",
                    "cds_chunk_relative_location",
                    "cds_blocks",
                    "chunk_relative_cds_blocks",
                    "cds_start",
                    "cds_end",
                    "chunk_relative_cds_start",
                    "chunk_relative_cds_end",
                    "chromosome_intron_location",
                ):
                    yield f"{tag}|{obj_name}.{attr}", lambda obj=obj, attr=attr: getattr(obj, attr)
                for meth in (
                    "to_dict",
                    "get_spliced_sequence",
                    "get_genomic_sequence",
                    "get_reference_sequence",
                    "get_transcript_sequence",
                    "get_cds_sequence",
                    "get_protein_sequence",
                    "get_5p_interval",
                    "get_3p_interval",
                ):
                    yield f"{tag}|{obj_name}.{meth}()", lambda obj=obj, meth=meth: str(getattr(obj, meth)())
                yield f"{tag}|{obj_name}.to_bed12", lambda obj=obj: str(obj.to_bed12())
                yield f"{tag}|{obj_name}.to_gff", lambda obj=obj: [str(x) for x in obj.to_gff()]
                yield f"{tag}|{obj_name}.intersect", lambda obj=obj: str(obj.intersect(query).to_dict())
                yield f"{tag}|{obj_name}.intersect(same strand)", lambda obj=obj: str(
                    obj.intersect(query.reset_strand(strand)).to_dict()
                )
                for pos in range(0, 90, 7):
                    for meth in (
                        "sequence_pos_to_feature",
                        "sequence_pos_to_transcript",
                        "sequence_pos_to_cds",
                        "chunk_relative_pos_to_feature",
                        "chunk_relative_pos_to_transcript",
                        "feature_pos_to_sequence",
                        "transcript_pos_to_sequence",
                        "cds_pos_to_sequence",
                        "feature_pos_to_chunk_relative",
                        "transcript_pos_to_chunk_relative",
                    ):
                        if hasattr(obj, meth):
                            yield f"{tag}|{obj_name}.{meth}({pos})", lambda obj=obj, meth=meth, pos=pos: getattr(
                                obj, meth
                            )(pos)
                for lo, hi in ((0, 5), (3, 20), (10, 60), (40, 90)):
                    for meth in (
                        "sequence_interval_to_feature",
                        "sequence_interval_to_transcript",
                        "sequence_interval_to_cds",
                        "chunk_relative_interval_to_feature",
                        "chunk_relative_interval_to_transcript",
                        "feature_interval_to_sequence",
                        "transcript_interval_to_sequence",
                        "cds_interval_to_sequence",
                    ):
                        if hasattr(obj, meth):
                            yield f"{tag}|{obj_name}.{meth}({lo},{hi})", lambda obj=obj, meth=meth, lo=lo, hi=hi: getattr(
                                obj, meth
                            )(lo, hi, Strand.PLUS)


def digest(text):
    return hashlib.sha1(text.encode()).hexdigest()[:8]


def grouped(records):
    """{operand group: {operation: digest}} - keeps the baseline file small"""
    groups = {}
    for key, value in records.items():
        group, _, op = key.rpartition("|")
        groups.setdefault(group, {})[op] = digest(value)
    return groups


def main():
    mode = sys.argv[1]
    records = collect()
    if mode == "save":
        with open(sys.argv[2], "w") as fh:
            json.dump({g: "".join(ops.values()) for g, ops in grouped(records).items()}, fh)
        n_raise = sum(v.startswith("RAISES") for v in records.values())
        print(f"saved {len(records)} records ({n_raise} of them exceptions)")
    elif mode == "check":
        with open(sys.argv[2]) as fh:
            base = json.load(fh)
        bad = []
        groups = grouped(records)
        for group, ops in groups.items():
            expected = base.get(group, "")
            if expected == "".join(ops.values()):
                continue
            if len(expected) != 8 * len(ops):
                bad.append(group + "|<different set of operations>")
                continue
            bad.extend(f"{group}|{op}" for i, (op, d) in enumerate(ops.items()) if expected[8 * i : 8 * i + 8] != d)
        missing = [g for g in base if g not in groups]
        for k in bad[:25]:
            print("DIFF", k, "->", records.get(k, "")[:300])
        print(f"compared {len(records)} records: {len(bad)} differ, {len(missing)} groups missing")
        sys.exit(1 if bad or missing else 0)
    elif mode == "show":
        for k, v in records.items():
            if sys.argv[2] in k:
                print(k, "->", v)


if __name__ == "__main__":
    main()
