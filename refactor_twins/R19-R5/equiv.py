"""Equivalence check for refactoring R1 (location / parent / sequence / object_validation layer).

Usage (from the worktree root):
    /venv/bin/python _refactor/R1/equiv.py dump /tmp/r1_pristine.json      # on the pristine checkout
    git apply _refactor/R1/patch.diff
    /venv/bin/python _refactor/R1/equiv.py dump /tmp/r1_patched.json       # on the refactored code
    /venv/bin/python _refactor/R1/equiv.py compare /tmp/r1_pristine.json /tmp/r1_patched.json

Every observation is the repr() of the returned value, or "EXC <type>: <message>" for a raised exception.
"""
import itertools
import json
import os
import sys

if os.environ.get("PYTHONHASHSEED") != "0":
    # some error messages print sets; make their order reproducible between the two runs
    os.environ["PYTHONHASHSEED"] = "0"
    os.execv(sys.executable, [sys.executable] + sys.argv)

sys.path.insert(0, os.getcwd())

import inscripta.biocantor.location  # noqa: E402,F401  (must come first: circular imports otherwise)
from inscripta.biocantor.location import SingleInterval, CompoundInterval, EmptyLocation, Strand  # noqa: E402
from inscripta.biocantor.parent import Parent, SequenceType  # noqa: E402
from inscripta.biocantor.sequence import Sequence, Alphabet  # noqa: E402
from inscripta.biocantor.util.object_validation import ObjectValidation  # noqa: E402

RESULTS = {}


def describe(value):
    if isinstance(value, (list, tuple)):
        return "[" + ", ".join(describe(v) for v in value) + "]"
    text = repr(value)
    if hasattr(value, "parent") and not isinstance(value, Parent.__wrapped__):
        text += " parent=" + repr(value.parent)
    return text


def observe(key, fn):
    assert key not in RESULTS, key
    try:
        value = fn()
        if hasattr(value, "__next__"):
            value = list(value)
        RESULTS[key] = describe(value)
    except Exception as e:  # noqa
        RESULTS[key] = "EXC {}: {}".format(type(e).__name__, e)


GENOME = "ACGTACGTAACCGGTTAGCTAGCTAGGATCCA"  # 32 nt


def seq_parent(n=32, id="chr1", seqtype=SequenceType.CHROMOSOME):
    return Parent(id=id, sequence=Sequence(GENOME[:n], Alphabet.NT_STRICT, id=id, type=seqtype))


def chunk_parent(start=4, end=28, strand=Strand.PLUS):
    return Parent(
        id="chr1:{}-{}".format(start, end),
        sequence=Sequence(
            GENOME[start:end],
            Alphabet.NT_STRICT,
            type=SequenceType.SEQUENCE_CHUNK,
            parent=Parent(
                location=SingleInterval(
                    start, end, strand, parent=Parent(id="chr1", sequence_type=SequenceType.CHROMOSOME)
                )
            ),
        ),
    )


def parents():
    return {
        "none": None,
        "str": "chr1",
        "idonly": Parent(id="chr1"),
        "seq32": seq_parent(32),
        "seq10": seq_parent(10),
        "typed": Parent(id="chr1", sequence_type=SequenceType.CHROMOSOME),
        "withloc": Parent(id="chr1", location=SingleInterval(0, 3, Strand.PLUS)),
        "withloc0": Parent(id="chr1", location=SingleInterval(2, 2, Strand.MINUS)),
        "chunk": chunk_parent(),
        "chunkminus": chunk_parent(2, 30, Strand.MINUS),
        "strand": Strand.MINUS,
        "location": SingleInterval(1, 5, Strand.PLUS),
        "bad": 17,
    }


STRANDS = [Strand.PLUS, Strand.MINUS, Strand.UNSTRANDED]

BLOCKS = {
    "two": ([2, 8], [5, 12]),
    "three": ([0, 6, 14], [4, 10, 20]),
    "adjacent": ([3, 6, 9], [6, 9, 12]),
    "overlap": ([3, 5, 20], [8, 10, 25]),
    "nested": ([0, 2, 11], [10, 4, 12]),
    "unsorted": ([14, 0, 6], [20, 4, 10]),
    "emptyblock": ([3, 7, 9], [5, 7, 12]),
    "allempty": ([3, 7], [3, 7]),
    "one": ([4], [9]),
    "tuple": ((1, 20), (3, 31)),
    "beyond": ([5, 30], [9, 40]),
    "negative": ([-1, 5], [3, 9]),
    "inverted": ([5, 12], [3, 15]),
    "unequal": ([1, 5], [3]),
    "empty": ([], []),
    "samestart": ([3, 3], [9, 5]),
}


def build_locations():
    """Valid locations used as receivers of the methods under test"""
    locs = {}
    for pname, parent in parents().items():
        if pname in ("bad", "seq10", "withloc0"):
            continue
        for strand in STRANDS:
            for name, (s, e) in (("si", (3, 9)), ("si0", (5, 5)), ("sifull", (0, 20))):
                try:
                    locs["{}:{}:{}".format(name, strand.name, pname)] = SingleInterval(s, e, strand, parent)
                except Exception:  # noqa
                    pass
            for bname in ("two", "three", "adjacent", "overlap", "nested", "emptyblock", "one", "samestart"):
                try:
                    locs["ci-{}:{}:{}".format(bname, strand.name, pname)] = CompoundInterval(
                        *BLOCKS[bname], strand, parent
                    )
                except Exception:  # noqa
                    pass
    locs["empty"] = EmptyLocation()
    return locs


def check_constructors():
    for (pname, parent), strand in itertools.product(parents().items(), STRANDS):
        for start, end in itertools.product(range(-1, 13, 2), range(-1, 36, 5)):
            observe(
                "SingleInterval({},{},{},{})".format(start, end, strand.name, pname),
                lambda: SingleInterval(start, end, strand, parent),
            )
        for bname, (starts, ends) in BLOCKS.items():
            observe(
                "CompoundInterval({},{},{})".format(bname, strand.name, pname),
                lambda: (lambda c: (c, c.start, c.end, len(c), c.num_blocks, c.blocks))(
                    CompoundInterval(starts, ends, strand, parent)
                ),
            )


def check_from_single_intervals():
    p1, p2 = Parent(id="a"), Parent(id="b")
    cases = {
        "empty": [],
        "one": [SingleInterval(1, 3, Strand.PLUS)],
        "ok": [SingleInterval(1, 3, Strand.PLUS), SingleInterval(5, 9, Strand.PLUS)],
        "okminus_parent": [SingleInterval(5, 9, Strand.MINUS, p1), SingleInterval(1, 3, Strand.MINUS, p1)],
        "mixed_strand": [SingleInterval(1, 3, Strand.PLUS), SingleInterval(5, 9, Strand.MINUS)],
        "mixed_parent": [SingleInterval(1, 3, Strand.PLUS, p1), SingleInterval(5, 9, Strand.PLUS, p2)],
        "mixed_both": [SingleInterval(1, 3, Strand.PLUS, p1), SingleInterval(5, 9, Strand.MINUS, p2)],
        "parent_and_none": [SingleInterval(1, 3, Strand.PLUS, p1), SingleInterval(5, 9, Strand.PLUS)],
        "seqparent": [SingleInterval(1, 3, Strand.PLUS, seq_parent()), SingleInterval(5, 9, Strand.PLUS, seq_parent())],
        "chunk": [SingleInterval(1, 3, Strand.PLUS, chunk_parent()), SingleInterval(5, 9, Strand.PLUS, chunk_parent())],
    }
    for name, intervals in cases.items():
        observe("from_single_intervals({})".format(name), lambda: CompoundInterval.from_single_intervals(intervals))
        observe(
            "_from_single_intervals_no_validation({})".format(name),
            lambda: CompoundInterval._from_single_intervals_no_validation(intervals),
        )


def check_location_methods(locs):
    for name, loc in locs.items():
        for shift in (-25, -4, -3, -1, 0, 1, 7, 12, 13, 30):
            observe("shift_position({},{})".format(name, shift), lambda: loc.shift_position(shift))
        for a, b in itertools.product((-1, 0, 1, 3, 4, 12, 13), repeat=2):
            observe("extend_absolute({},{},{})".format(name, a, b), lambda: loc.extend_absolute(a, b))
            observe("extend_relative({},{},{})".format(name, a, b), lambda: loc.extend_relative(a, b))
        n = len(loc)
        for rs, re_ in itertools.product(range(-1, n + 2), repeat=2):
            if name.split(":")[-1] not in ("none", "seq32", "chunk") and (rs + re_) % 3:
                continue  # thin out the grid for the less interesting parents
            for rel_strand in STRANDS:
                observe(
                    "relative_interval_to_parent_location({},{},{},{})".format(name, rs, re_, rel_strand.name),
                    lambda: loc.relative_interval_to_parent_location(rs, re_, rel_strand),
                )
        for pos in range(-1, n + 2):
            observe("relative_to_parent_pos({},{})".format(name, pos), lambda: loc.relative_to_parent_pos(pos))
        for pos in range(-1, 27, 1):
            observe("parent_to_relative_pos({},{})".format(name, pos), lambda: loc.parent_to_relative_pos(pos))
        for w, st, sp in itertools.product(
            sorted({-1, 0, 1, 3, n - 1, n, n + 1}), (-1, 0, 1, 2, 5), sorted({-1, 0, 1, 4, n - 1, n})
        ):
            observe("scan_windows({},{},{},{})".format(name, w, st, sp), lambda: loc.scan_windows(w, st, sp))
        observe("reverse({})".format(name), lambda: loc.reverse())
        observe("reverse_strand({})".format(name), lambda: loc.reverse_strand())
        for strand in STRANDS:
            observe("reset_strand({},{})".format(name, strand.name), lambda: loc.reset_strand(strand))
        observe("optimize_blocks({})".format(name), lambda: loc.optimize_blocks())
        observe("gaps_location({})".format(name), lambda: loc.gaps_location())
        observe("extract_sequence({})".format(name), lambda: loc.extract_sequence())
        for st in ("chromosome", "sequence_chunk", "nothing"):
            observe(
                "lift_over_to_first_ancestor_of_type({},{})".format(name, st),
                lambda: loc.lift_over_to_first_ancestor_of_type(st),
            )
        observe(
            "lift_over_to_sequence({})".format(name),
            lambda: loc.lift_over_to_sequence(Sequence(GENOME, Alphabet.NT_STRICT, id="chr1", type="chromosome")),
        )
        for fn in (
            ObjectValidation.require_location_nonempty,
            ObjectValidation.require_location_has_parent,
            ObjectValidation.require_location_has_parent_with_sequence,
        ):
            observe("{}({})".format(fn.__name__, name), lambda: fn(loc))


def check_pairs(locs):
    keys = [
        k
        for k in locs
        if k.split(":")[-1] in ("none", "idonly", "seq32", "chunk", "str")
        and k.split(":")[0] in ("si", "si0", "ci-two", "ci-overlap", "ci-nested", "ci-three")
    ] + ["empty"]
    for k1, k2 in itertools.product(keys, repeat=2):
        l1, l2 = locs[k1], locs[k2]
        observe("union_preserve_overlaps({},{})".format(k1, k2), lambda: l1.union_preserve_overlaps(l2))
        observe("location_relative_to({},{})".format(k1, k2), lambda: l1.location_relative_to(l2))
        observe(
            "require_locations_have_same_nonempty_parent({},{})".format(k1, k2),
            lambda: ObjectValidation.require_locations_have_same_nonempty_parent(l1, l2),
        )
        for ms in (False, True):
            observe(
                "require_locations_overlap({},{},{})".format(k1, k2, ms),
                lambda: ObjectValidation.require_locations_overlap(l1, l2, ms),
            )
            observe(
                "require_locations_do_not_overlap({},{},{})".format(k1, k2, ms),
                lambda: ObjectValidation.require_locations_do_not_overlap(l1, l2, match_strand=ms),
            )
        if k1.split(":")[1:2] == ["PLUS"] and k2.split(":")[1:2] in (["PLUS"], ["MINUS"]):
            observe("union({},{})".format(k1, k2), lambda: l1.union(l2))
            observe("minus({},{})".format(k1, k2), lambda: l1.minus(l2))
            observe("intersection({},{})".format(k1, k2), lambda: l1.intersection(l2))


def check_parent_validation():
    ps = {k: v for k, v in parents().items() if isinstance(v, Parent.__wrapped__) or v is None}
    ps["chunkseqparent"] = chunk_parent().sequence.parent
    ps["other"] = Parent(id="chr2", sequence_type=SequenceType.CHROMOSOME)
    ps["nested"] = Parent(id="x", parent=Parent(id="chr1", location=SingleInterval(0, 3, Strand.PLUS)))
    ps["nestednoloc"] = Parent(id="x", parent=Parent(id="chr1"))
    for k, p in ps.items():
        if p is not None:
            for fn in (
                ObjectValidation.require_parent_has_location,
                ObjectValidation.require_parent_has_parent,
                ObjectValidation.require_parent_has_parent_with_location,
            ):
                observe("{}({})".format(fn.__name__, k), lambda: fn(p))
            observe("repr({})".format(k), lambda: repr(p))
            observe("lift_child_location_to_parent({})".format(k), lambda: p.lift_child_location_to_parent())
    for (k1, p1), (k2, p2) in itertools.product(ps.items(), repeat=2):
        observe(
            "require_parents_equal_except_location({},{})".format(k1, k2),
            lambda: ObjectValidation.require_parents_equal_except_location(p1, p2),
        )
        if p1 is not None:
            observe(
                "require_parents_equal_except_location_and_sequence({},{})".format(k1, k2),
                lambda: ObjectValidation.require_parents_equal_except_location_and_sequence(p1, p2),
            )
    for obj, t in ((SingleInterval(0, 1, Strand.PLUS), SingleInterval), (EmptyLocation(), SingleInterval), (1, int), (True, int)):
        observe("require_object_has_type({!r},{})".format(obj, t.__name__), lambda: ObjectValidation.require_object_has_type(obj, t))


def check_parent_constructor():
    ids = [None, "chr1", "chr2"]
    types = [None, "chromosome", SequenceType.SEQUENCE_CHUNK]
    strands = [None, Strand.PLUS, Strand.MINUS, Strand.UNSTRANDED]
    locations = {
        "none": None,
        "plus": SingleInterval(2, 8, Strand.PLUS),
        "minus_onchr1": SingleInterval(2, 8, Strand.MINUS, Parent(id="chr1", sequence_type="chromosome")),
        "long": CompoundInterval([2, 20], [8, 30], Strand.PLUS),
        "unstranded": SingleInterval(0, 4, Strand.UNSTRANDED),
        "empty": EmptyLocation(),
    }
    sequences = {
        "none": None,
        "s10": Sequence(GENOME[:10], Alphabet.NT_STRICT),
        "s10chr1": Sequence(GENOME[:10], Alphabet.NT_STRICT, id="chr1", type="chromosome"),
        "s32withparent": Sequence(GENOME, Alphabet.NT_STRICT, parent=Parent(id="grand", sequence_type="genome")),
        "chunkseq": chunk_parent().sequence,
    }
    grandparents = {
        "none": None,
        "str": "grand",
        "grand": Parent(id="grand", sequence_type="genome"),
        "grandshort": Parent(id="grand", sequence=Sequence(GENOME[:6], Alphabet.NT_STRICT)),
        "grandlong": Parent(id="grand", sequence=Sequence(GENOME * 2, Alphabet.NT_STRICT)),
        "bad": 3.5,
    }
    for id_, t, strand, (lk, loc), (sk, seq), (gk, gp) in itertools.product(
        ids, types, strands, locations.items(), sequences.items(), grandparents.items()
    ):
        observe(
            "Parent({},{},{},{},{},{})".format(id_, t, strand, lk, sk, gk),
            lambda: Parent(id=id_, sequence_type=t, strand=strand, location=loc, sequence=seq, parent=gp),
        )


def check_sequence():
    loc_parents = {
        "none": None,
        "loc5": Parent(location=SingleInterval(0, 5, Strand.PLUS)),
        "loc8": Parent(id="p", location=SingleInterval(2, 10, Strand.MINUS)),
        "loc0": Parent(location=SingleInterval(3, 3, Strand.PLUS)),
        "cloc8": Parent(location=CompoundInterval([0, 10], [4, 14], Strand.PLUS)),
        "noloc": Parent(id="p"),
        "str": "p",
        "strand": Strand.PLUS,
        "bad": 1.5,
    }
    datas = ["", "ACGTA", "ACGTACGT", "acgtn", "ACGU", "MKV*", "AC-GT", "ACGTACGTACGTACGTACGTACGTA"]
    for data, alphabet, (pk, parent), va, vp in itertools.product(
        datas, (Alphabet.NT_STRICT, Alphabet.NT_EXTENDED_GAPPED, Alphabet.AA), loc_parents.items(), (True, False), (True, False)
    ):
        for id_ in (None, "myseq"):
            observe(
                "Sequence({},{},{},{},{},{})".format(data, alphabet.name, pk, va, vp, id_),
                lambda: (lambda s: (s, s.summary(), str(s), len(s)))(
                    Sequence(data, alphabet, id=id_, type="t", parent=parent, validate_alphabet=va, validate_parent=vp)
                ),
            )
    for data, alphabet in itertools.product(datas, Alphabet):
        observe("validate_alphabet({},{})".format(data, alphabet.name), lambda: Sequence.validate_alphabet(data, alphabet))
        observe(
            "reverse_complement({},{})".format(data, alphabet.name),
            lambda: Sequence(data, alphabet, validate_alphabet=False).reverse_complement(new_id="rc"),
        )

    def s(data, strand=None, start=None, pid="p", alphabet=Alphabet.NT_STRICT, type_="t", seqparent=False):
        if strand is None and start is None and pid is None:
            parent = None
        elif start is None:
            parent = Parent(id=pid, strand=strand)
        else:
            parent = Parent(
                id=pid,
                location=SingleInterval(start, start + len(data), strand),
                sequence=Sequence(GENOME, Alphabet.NT_STRICT) if seqparent else None,
            )
        return Sequence(data, alphabet, type=type_, parent=parent)

    operands = {
        "bare": s("ACG", pid=None),
        "bare_aa": s("MKV", pid=None, alphabet=Alphabet.AA),
        "bare_t2": s("ACG", pid=None, type_="t2"),
        "idonly": s("ACG"),
        "idonly_q": s("ACG", pid="q"),
        "plus_nol": s("ACG", Strand.PLUS),
        "minus_nol": s("ACG", Strand.MINUS),
        "uns_nol": s("ACG", Strand.UNSTRANDED),
        "plus0": s("ACG", Strand.PLUS, 0),
        "plus3": s("TTA", Strand.PLUS, 3),
        "plus10": s("GG", Strand.PLUS, 10),
        "plus2": s("GTA", Strand.PLUS, 2),
        "minus10": s("ACG", Strand.MINUS, 10),
        "minus7": s("TTA", Strand.MINUS, 7),
        "minus2": s("GG", Strand.MINUS, 2),
        "minus9": s("GTA", Strand.MINUS, 9),
        "uns0": s("ACG", Strand.UNSTRANDED, 0),
        "plus0_seq": s("ACG", Strand.PLUS, 0, seqparent=True),
        "plus5_seq": s("CGT", Strand.PLUS, 5, seqparent=True),
        "plus0_q": s("ACG", Strand.PLUS, 0, pid="q"),
    }
    for (k1, s1), (k2, s2), data_only in itertools.product(operands.items(), operands.items(), (False, True)):
        observe(
            "append({},{},{})".format(k1, k2, data_only),
            lambda: s1.append(s2, new_id="n", data_only=data_only),
        )


def main():
    mode = sys.argv[1]
    if mode == "dump":
        check_constructors()
        check_from_single_intervals()
        locs = build_locations()
        check_location_methods(locs)
        check_pairs(locs)
        check_parent_validation()
        check_parent_constructor()
        check_sequence()
        with open(sys.argv[2], "w") as fh:
            json.dump(RESULTS, fh, indent=0, sort_keys=True)
        n_exc = sum(1 for v in RESULTS.values() if v.startswith("EXC "))
        kinds = sorted({v.split(":")[0] for v in RESULTS.values() if v.startswith("EXC ")})
        print("{} observations written ({} exceptions: {})".format(len(RESULTS), n_exc, ", ".join(kinds)))
    elif mode == "compare":
        with open(sys.argv[2]) as fh:
            a = json.load(fh)
        with open(sys.argv[3]) as fh:
            b = json.load(fh)
        diffs = [k for k in sorted(set(a) | set(b)) if a.get(k) != b.get(k)]
        for k in diffs[:40]:
            print("DIFF", k, "\n   ", a.get(k), "\n   ", b.get(k))
        print("{} keys compared, {} differences".format(len(set(a) | set(b)), len(diffs)))
        sys.exit(1 if diffs else 0)


if __name__ == "__main__":
    main()
