"""
Equivalence script for refactoring of the code anchored by property C10.

Usage (from the worktree root):

    /venv/bin/python _refactor/R1/equiv.py dump /tmp/pristine.json      # on pristine code
    git apply _refactor/R1/patch.diff
    /venv/bin/python _refactor/R1/equiv.py dump /tmp/patched.json       # on refactored code
    /venv/bin/python _refactor/R1/equiv.py compare /tmp/pristine.json /tmp/patched.json

Every scenario builds a FRESH object, asks a list of questions in a given order (forward, reversed and two
shuffled orders, so that cache-history effects are visible) and records either the shown value or the exception type
and message. The two JSON files must be identical.
"""
import os
import sys

if os.environ.get("PYTHONHASHSEED") != "0":
    os.environ["PYTHONHASHSEED"] = "0"
    os.execv(sys.executable, [sys.executable] + sys.argv)

sys.path.insert(0, os.getcwd())

import json  # noqa: E402
import pickle  # noqa: E402
import random  # noqa: E402
import types  # noqa: E402
import warnings  # noqa: E402
from uuid import UUID  # noqa: E402

import inscripta.biocantor.location  # noqa: E402,F401  (must come first: circular import otherwise)
from inscripta.biocantor.location import SingleInterval, CompoundInterval, EmptyLocation, Strand  # noqa: E402
from inscripta.biocantor.location.location import Location  # noqa: E402
from inscripta.biocantor.parent import Parent, SequenceType  # noqa: E402
from inscripta.biocantor.parent.parent import _unique_value_or_none  # noqa: E402
from inscripta.biocantor.sequence import Sequence, Alphabet  # noqa: E402
from inscripta.biocantor.gene import (  # noqa: E402
    CDSInterval,
    CDSFrame,
    CDSPhase,
    TranscriptInterval,
    FeatureInterval,
    FeatureIntervalCollection,
    GeneInterval,
    AnnotationCollection,
    VariantInterval,
    VariantIntervalCollection,
    Biotype,
    TranslationTable,
)
from inscripta.biocantor.gene.interval import AbstractInterval, AbstractFeatureIntervalCollection  # noqa: E402
import inscripta.biocantor.io as _io_pkg  # noqa: E402

warnings.simplefilter("ignore")


# --------------------------------------------------------------------------------------------------------------------
# io.parser cannot be imported in this environment (io.models is broken); provide the two helpers the library imports
# lazily from it. These are verbatim copies of the functions in inscripta/biocantor/io/parser.py.
# --------------------------------------------------------------------------------------------------------------------
def seq_to_parent(seq, alphabet=Alphabet.NT_EXTENDED_GAPPED, seq_id=None, seq_type=SequenceType.CHROMOSOME):
    return Parent(
        sequence=Sequence(seq, alphabet, type=seq_type, id=seq_id), location=SingleInterval(0, len(seq), Strand.PLUS)
    )


def seq_chunk_to_parent(seq, sequence_name, start, end, strand=Strand.PLUS, alphabet=Alphabet.NT_EXTENDED_GAPPED):
    chunk_id = f"{sequence_name}:{start}-{end}"
    return Parent(
        id=chunk_id,
        sequence=Sequence(
            seq,
            alphabet,
            id=chunk_id,
            type=SequenceType.SEQUENCE_CHUNK,
            parent=Parent(
                location=SingleInterval(
                    start,
                    end,
                    strand,
                    parent=Parent(id=sequence_name, sequence_type=SequenceType.CHROMOSOME),
                )
            ),
        ),
    )


_parser_stub = types.ModuleType("inscripta.biocantor.io.parser")
_parser_stub.seq_to_parent = seq_to_parent
_parser_stub.seq_chunk_to_parent = seq_chunk_to_parent
sys.modules["inscripta.biocantor.io.parser"] = _parser_stub
_io_pkg.parser = _parser_stub

# --------------------------------------------------------------------------------------------------------------------
# rendering
# --------------------------------------------------------------------------------------------------------------------
_rng = random.Random(1234)
GENOME = "".join(_rng.choice("ACGT") for _ in range(150))
# sprinkle a few start/stop codons so that translation code paths differ
GENOME = GENOME[:10] + "ATG" + GENOME[13:40] + "TAA" + GENOME[43:90] + "CAT" + GENOME[93:120] + "TTA" + GENOME[123:]


def show(x, depth=0):
    """Deterministic, type-revealing rendering of a result."""
    if depth > 6:
        return "<deep>"
    if x is None or isinstance(x, (bool, int, float)):
        return f"{type(x).__name__}:{x!r}"
    if isinstance(x, str) and not isinstance(x, (Strand,)):
        return f"{type(x).__name__}:{x!r}"
    if isinstance(x, UUID):
        return f"UUID:{x}"
    if isinstance(x, Location):
        if x.is_empty:
            return "EmptyLocation"
        return f"{type(x).__name__}[{x!r} | parent={x.parent!r} | blocks={[str(b) for b in x.blocks]}]"
    if isinstance(x, Sequence):
        return f"Sequence[{x!r} | {x.alphabet} | {x.sequence_type} | id={x.id} | parent={x.parent!r}]"
    if isinstance(x, Parent.__wrapped__):
        return f"Parent[{x!r}]"
    if isinstance(x, AbstractInterval):
        try:
            d = show(x.to_dict(), depth + 1)
        except Exception as e:  # noqa
            d = f"to_dict raised {type(e).__name__}: {e}"
        return (
            f"{type(x).__name__}[{x!r} | guid={x.guid} | loc={show(x.chunk_relative_location, depth + 1)} "
            f"| chrom={show(x.chromosome_location, depth + 1)} | dict={d}]"
        )
    if isinstance(x, dict):
        return "{" + ", ".join(f"{show(k, depth + 1)}: {show(v, depth + 1)}" for k, v in x.items()) + "}"
    if isinstance(x, (set, frozenset)):
        return f"{type(x).__name__}(" + ", ".join(sorted(show(v, depth + 1) for v in x)) + ")"
    if isinstance(x, (list, tuple)):
        return f"{type(x).__name__}(" + ", ".join(show(v, depth + 1) for v in x) + ")"
    if isinstance(x, types.GeneratorType) or hasattr(x, "__next__"):
        return "iter(" + ", ".join(show(v, depth + 1) for v in x) + ")"
    return f"{type(x).__name__}:{x!s}|{x!r}" if type(x).__repr__ is not object.__repr__ else f"{type(x).__name__}:{x!s}"


def attempt(fn):
    try:
        return show(fn())
    except Exception as e:  # noqa
        return f"RAISED {type(e).__name__}: {e}"


RESULTS = {}
_filler_round = [0]


def evict_parent_cache():
    """Push everything out of the process-wide Parent LRU cache by building more than 1000 unrelated Parents."""
    _filler_round[0] += 1
    for i in range(1001):
        Parent(id=f"filler-{_filler_round[0]}-{i}")
    info = Parent.cache_info()
    assert info.currsize == info.maxsize == 1000, info


def run_scenario(label, factory, questions, evict=False):
    """Ask every question of a fresh object, in four different orders (five with ``evict``: the fifth one empties the
    global Parent cache before every question)."""
    names = list(questions)
    orders = {"fwd": names, "rev": names[::-1]}
    for seed in (1, 2):
        shuffled = names[:]
        random.Random(seed).shuffle(shuffled)
        orders[f"shuf{seed}"] = shuffled
    if evict:
        orders["evict"] = names[::2] + names[1::2]
    for order_name, order in orders.items():
        try:
            obj = factory()
        except Exception as e:  # noqa
            RESULTS[f"{label}|{order_name}|<construct>"] = f"RAISED {type(e).__name__}: {e}"
            continue
        before = attempt(lambda: (obj.to_dict(), obj.guid, hash(obj))) if isinstance(obj, AbstractInterval) else None
        for name in order:
            if order_name == "evict":
                evict_parent_cache()
            RESULTS[f"{label}|{order_name}|{name}"] = attempt(lambda: questions[name](obj))
        if before is not None:
            after = attempt(lambda: (obj.to_dict(), obj.guid, hash(obj)))
            RESULTS[f"{label}|{order_name}|<unchanged>"] = f"{before == after}"
            RESULTS[f"{label}|{order_name}|<qualifiers>"] = attempt(lambda: obj.qualifiers)


# --------------------------------------------------------------------------------------------------------------------
# parents
# --------------------------------------------------------------------------------------------------------------------
def parent_factories():
    return {
        "none": lambda: None,
        "chrom_seq": lambda: seq_to_parent(GENOME, seq_id="chr1"),
        "chrom_noseq": lambda: Parent(id="chr1", sequence_type=SequenceType.CHROMOSOME),
        "unknown_seq": lambda: Parent(id="thing", sequence=Sequence(GENOME, Alphabet.NT_EXTENDED_GAPPED)),
        "unknown_noseq": lambda: Parent(id="thing"),
        "chunk_all": lambda: seq_chunk_to_parent(GENOME, "chr1", 0, len(GENOME)),
        "chunk_5_120": lambda: seq_chunk_to_parent(GENOME[5:120], "chr1", 5, 120),
        "chunk_20_70": lambda: seq_chunk_to_parent(GENOME[20:70], "chr1", 20, 70),
        "chunk_33_58": lambda: seq_chunk_to_parent(GENOME[33:58], "chr1", 33, 58),
        "chunk_47_49": lambda: seq_chunk_to_parent(GENOME[47:49], "chr1", 47, 49),
        "chunk_130_150": lambda: seq_chunk_to_parent(GENOME[130:150], "chr1", 130, 150),
    }


def parent_scenarios():
    seq = Sequence(GENOME, Alphabet.NT_EXTENDED_GAPPED, id="chr1", type=SequenceType.CHROMOSOME)
    chunk = seq_chunk_to_parent(GENOME[20:70], "chr1", 20, 70)
    qs = {
        "repr": repr,
        "hash_eq_self": lambda p: (hash(p) == hash(p), p == p),
        "strand": lambda p: p.strand,
        "strand_again": lambda p: (p.strand, p.strand),
        "strip": lambda p: p.strip_location_info(),
        "first_chrom": lambda p: p.first_ancestor_of_type(SequenceType.CHROMOSOME),
        "first_chrom_noself": lambda p: p.first_ancestor_of_type("chromosome", include_self=False),
        "first_chunk": lambda p: p.first_ancestor_of_type(SequenceType.SEQUENCE_CHUNK),
        "has_chrom": lambda p: p.has_ancestor_of_type(SequenceType.CHROMOSOME),
        "has_chrom_noself": lambda p: p.has_ancestor_of_type("chromosome", include_self=False),
        "has_chunk": lambda p: p.has_ancestor_of_type("sequence_chunk"),
        "has_chunk_noself": lambda p: p.has_ancestor_of_type(SequenceType.SEQUENCE_CHUNK, False),
        "has_other": lambda p: p.has_ancestor_of_type("other"),
        "lift_child": lambda p: p.lift_child_location_to_parent(),
        "reset_loc_none": lambda p: p.reset_location(None),
        "reset_loc_si": lambda p: p.reset_location(SingleInterval(1, 4, Strand.MINUS)),
        "reset_loc_ci": lambda p: p.reset_location(CompoundInterval([1, 6], [4, 9], Strand.PLUS)),
        "anc_seq": lambda p: p.has_ancestor_sequence(seq),
        "anc_seq_noself": lambda p: p.has_ancestor_sequence(seq, include_self=False),
        "anc_chunkseq": lambda p: p.has_ancestor_sequence(chunk.sequence, False),
        "eq_chunk": lambda p: (p == chunk, p.equals_except_location(chunk), p != chunk),
        "eq_other_type": lambda p: (p == 5, p.equals_except_location("x")),
        "eq_noseq": lambda p: p.equals_except_location(
            Parent(id=p.id, sequence_type=p.sequence_type, parent=p.parent), require_same_sequence=False
        ),
        "eq_noseq_strict": lambda p: p.equals_except_location(
            Parent(id=p.id, sequence_type=p.sequence_type, parent=p.parent)
        ),
    }
    facs = {
        "empty": lambda: Parent(),
        "id_only": lambda: Parent(id="a"),
        "strand_only": lambda: Parent(id="a", strand=Strand.MINUS),
        "loc_plus": lambda: Parent(id="a", location=SingleInterval(2, 9, Strand.PLUS)),
        "loc_minus_strand": lambda: Parent(id="a", strand=Strand.MINUS, location=SingleInterval(2, 9, Strand.MINUS)),
        "loc_unstranded": lambda: Parent(location=SingleInterval(2, 9, Strand.UNSTRANDED), strand=Strand.UNSTRANDED),
        "loc_strand_mismatch": lambda: Parent(location=SingleInterval(2, 9, Strand.UNSTRANDED), strand=Strand.PLUS),
        "loc_compound": lambda: Parent(id="a", location=CompoundInterval([2, 12], [9, 15], Strand.MINUS)),
        "seq": lambda: Parent(sequence=seq),
        "seq_loc": lambda: Parent(sequence=seq, location=SingleInterval(3, 30, Strand.MINUS)),
        "chunk": lambda: seq_chunk_to_parent(GENOME[20:70], "chr1", 20, 70),
        "chunk_seq_parent": lambda: seq_chunk_to_parent(GENOME[20:70], "chr1", 20, 70).sequence.parent,
        "grand": lambda: Parent(
            id="child",
            sequence_type="exon",
            location=CompoundInterval([1, 8], [5, 12], Strand.PLUS),
            parent=Parent(
                id="mid",
                sequence_type=SequenceType.SEQUENCE_CHUNK,
                location=SingleInterval(10, 40, Strand.MINUS),
                parent=Parent(id="chr1", sequence_type="chromosome", sequence=seq),
            ),
        ),
        "grand_str_parent": lambda: Parent(id="child", location=SingleInterval(1, 3, Strand.PLUS), parent="top"),
        "from_loc_parent": lambda: SingleInterval(5, 50, Strand.MINUS, parent=seq_to_parent(GENOME, seq_id="chr1")).parent,
        "from_cloc_parent": lambda: CompoundInterval(
            [5, 30], [20, 50], Strand.PLUS, parent=seq_chunk_to_parent(GENOME[0:70], "chr1", 0, 70)
        ).parent,
    }
    for name, fac in facs.items():
        run_scenario(f"parent:{name}", fac, qs, evict=name in ("grand", "chunk", "from_cloc_parent"))

    # constructor error / consistency cases and the module level helper
    ctor = {
        "id_mismatch": lambda: Parent(id="a", sequence=seq),
        "id_match": lambda: Parent(id="chr1", sequence=seq),
        "type_mismatch": lambda: Parent(sequence_type="other", sequence=seq),
        "type_match": lambda: Parent(sequence_type="chromosome", sequence=seq),
        "loc_parent_id": lambda: Parent(id="x", location=SingleInterval(0, 3, Strand.PLUS, parent="y")),
        "loc_parent_id_ok": lambda: Parent(id="y", location=SingleInterval(0, 3, Strand.PLUS, parent="y")),
        "strand_mismatch": lambda: Parent(strand=Strand.PLUS, location=SingleInterval(0, 3, Strand.MINUS)),
        "strand_unstranded": lambda: Parent(strand=Strand.UNSTRANDED, location=SingleInterval(0, 3, Strand.MINUS)),
        "loc_too_long": lambda: Parent(sequence=seq, location=SingleInterval(0, 1000, Strand.PLUS)),
        "seq_longer_than_grandparent": lambda: Parent(
            sequence=seq, parent=Parent(sequence=Sequence("ACGT", Alphabet.NT_STRICT))
        ),
        "seq_parent_and_parent_differ": lambda: Parent(
            sequence=seq_chunk_to_parent(GENOME[20:70], "chr1", 20, 70).sequence, parent=Parent(id="zzz")
        ),
        "seq_parent_and_parent_same": lambda: Parent(
            sequence=seq_chunk_to_parent(GENOME[20:70], "chr1", 20, 70).sequence,
            parent=seq_chunk_to_parent(GENOME[20:70], "chr1", 20, 70).sequence.parent,
        ),
        "uvon_1": lambda: _unique_value_or_none(("a", None, "a")),
        "uvon_none": lambda: _unique_value_or_none((None, None, None)),
        "uvon_empty": lambda: _unique_value_or_none(()),
        "uvon_two": lambda: _unique_value_or_none(("a", "b", None)),
        "uvon_enum": lambda: _unique_value_or_none((SequenceType.CHROMOSOME, "chromosome", None)),
    }
    for name, fn in ctor.items():
        RESULTS[f"parent_ctor:{name}"] = attempt(fn)


# --------------------------------------------------------------------------------------------------------------------
# locations
# --------------------------------------------------------------------------------------------------------------------
def location_scenarios():
    qs = {
        "repr": repr,
        "str": str,
        "hash": lambda loc: hash(loc) == hash(loc),
        "blocks": lambda loc: loc.blocks,
        "blocks_identity": lambda loc: loc.blocks is loc.blocks,
        "num_blocks": lambda loc: loc.num_blocks,
        "is_overlapping": lambda loc: (loc.is_overlapping, loc.is_overlapping),
        "is_contiguous": lambda loc: loc.is_contiguous,
        "is_empty": lambda loc: loc.is_empty,
        "extract": lambda loc: loc.extract_sequence(),
        "extract_twice": lambda loc: (loc.extract_sequence(), loc.extract_sequence()),
        "scan_blocks": lambda loc: list(loc.scan_blocks()),
        "full_span": lambda loc: loc._full_span_interval,
        "optimize": lambda loc: loc.optimize_blocks(),
        "gaps": lambda loc: loc.gaps_location(),
        "merge_overlapping": lambda loc: loc.merge_overlapping(),
        "eq_self_copy": lambda loc: loc == loc.reset_parent(loc.parent),
        "eq_other": lambda loc: (loc == SingleInterval(3, 30, Strand.PLUS), loc == EmptyLocation(), loc == 3),
        "rel_pos": lambda loc: [loc.parent_to_relative_pos(p) for p in (loc.start, loc.end - 1)],
        "to_parent_pos": lambda loc: [loc.relative_to_parent_pos(p) for p in range(0, len(loc), 3)],
        "rel_interval": lambda loc: loc.relative_interval_to_parent_location(1, len(loc) - 1, Strand.MINUS),
        "first_chrom": lambda loc: loc.first_ancestor_of_type("chromosome"),
        "lift_chrom": lambda loc: loc.lift_over_to_first_ancestor_of_type("chromosome"),
        "reverse": lambda loc: loc.reverse(),
        "biopython": lambda loc: str(loc.to_biopython()),
    }
    coords = {
        "single": ([3], [30]),
        "two": ([3, 40], [30, 61]),
        "adjacent": ([3, 30, 50], [30, 44, 60]),
        "overlap": ([3, 20, 50], [30, 44, 60]),
        "zero_bp": ([3, 30, 50], [30, 30, 60]),
        "unsorted": ([50, 3], [60, 30]),
    }
    pfs = parent_factories()
    for cname, (starts, ends) in coords.items():
        for strand in (Strand.PLUS, Strand.MINUS, Strand.UNSTRANDED):
            for pname in ("none", "chrom_seq", "chrom_noseq", "unknown_seq", "chunk_all"):

                def fac(starts=starts, ends=ends, strand=strand, pname=pname):
                    p = pfs[pname]()
                    if len(starts) == 1:
                        return SingleInterval(starts[0], ends[0], strand, p)
                    return CompoundInterval(starts, ends, strand, p)

                run_scenario(f"loc:{cname}:{strand.name}:{pname}", fac, qs)


# --------------------------------------------------------------------------------------------------------------------
# CDS / transcript / feature intervals
# --------------------------------------------------------------------------------------------------------------------
F = CDSFrame
CDS_SHAPES = {
    # name: (starts, ends, frames)
    "one_exon_f0": ([10], [43], [F.ZERO]),
    "one_exon_f1": ([9], [43], [F.ONE]),
    "one_exon_f2": ([8], [44], [F.TWO]),
    "three_exon": ([10, 30, 50], [22, 44, 61], [F.ZERO, F.ZERO, F.TWO]),
    "three_exon_shift": ([10, 30, 50], [22, 44, 61], [F.ONE, F.TWO, F.ZERO]),
    "frameshift_gap0": ([10, 21, 50], [21, 44, 62], [F.ZERO, F.ZERO, F.ONE]),
    "overlapping": ([10, 20, 50], [22, 44, 62], [F.ZERO, F.ZERO, F.ZERO]),
    "tiny_blocks": ([10, 15, 30], [12, 16, 47], [F.ZERO, F.TWO, F.ZERO]),
    "short": ([10], [12], [F.ZERO]),
}


def make_cds(shape, strand, parent, phases=False, **kw):
    starts, ends, frames = CDS_SHAPES[shape]
    if strand == Strand.MINUS:
        frames = frames[::-1]
    if phases:
        frames = [f.to_phase() for f in frames]
    return CDSInterval(list(starts), list(ends), strand, list(frames), parent_or_seq_chunk_parent=parent, **kw)


def pos_list(obj):
    return sorted({obj.start, obj.start + 1, obj.start + 4, (obj.start + obj.end) // 2, obj.end - 1, obj.end})


def cds_questions():
    parent_quals = {"gene_id": {"g1"}, "extra": {"x", "y"}, "k": {"3"}}
    return {
        "str": str,
        "repr": repr,
        "len": len,
        "id_name": lambda c: (c.id, c.name, c.identifiers, c.identifiers_dict),
        "to_dict": lambda c: c.to_dict(),
        "to_dict_rel": lambda c: c.to_dict(chromosome_relative_coordinates=False),
        "from_dict_roundtrip": lambda c: CDSInterval.from_dict(c.to_dict(), c._parent_or_seq_chunk_parent),
        "chunk_relative_frames": lambda c: c.chunk_relative_frames,
        "frame_iter": lambda c: (list(c._frame_iter()), list(c._frame_iter(False)), list(c._frame_iter(1))),
        "exon_iter": lambda c: (list(c._exon_iter()), list(c._exon_iter(False))),
        "extract_sequence": lambda c: c.extract_sequence(),
        "extract_sequence_identity": lambda c: c.extract_sequence() is c.extract_sequence(),
        "num_codons": lambda c: c.num_codons,
        "num_chunk_relative_codons": lambda c: c.num_chunk_relative_codons,
        "scan_codons": lambda c: list(c.scan_codons()),
        "scan_codons_trunc": lambda c: list(c.scan_codons(truncate_at_in_frame_stop=True)),
        "chunk_codon_locs": lambda c: c.chunk_relative_codon_locations,
        "chrom_codon_locs": lambda c: c.chromosome_codon_locations,
        "scan_chunk_window": lambda c: list(c.scan_chunk_relative_codon_locations(c.start + 4, c.end - 5)),
        "scan_chunk_window_expand": lambda c: list(c.scan_chunk_relative_codon_locations(c.start + 4, c.end - 5, True)),
        "scan_chrom_window": lambda c: list(c.scan_chromosome_codon_locations(chromosome_start=c.start + 7)),
        "scan_chrom_window_end": lambda c: list(c.scan_chromosome_codon_locations(chromosome_end=c.end - 7)),
        "scan_chrom_window_expand": lambda c: list(c.scan_chromosome_codon_locations(c.start + 5, c.start + 9, True)),
        "scan_chrom_zero_window": lambda c: list(c.scan_chromosome_codon_locations(c.start + 5, c.start + 5)),
        "scan_codon_locations_deprecated": lambda c: list(c.scan_codon_locations()),
        "expand_coords": lambda c: (
            c._expand_coordinates_to_codons(c.start + 4, c.start + 8),
            c._expand_coordinates_to_codons(0, 1),
        ),
        "rel_window": lambda c: (
            c._convert_chromosome_start_end_to_relative_window(),
            c._convert_chromosome_start_end_to_relative_window(c.start + 2),
            c._convert_chromosome_start_end_to_relative_window(None, c.end - 2, True),
        ),
        "first_codon_on_chunk": lambda c: c._first_codon_is_on_chunk(),
        "frame_offset_direct": lambda c: [
            attempt(lambda: c._calculate_frame_offset(c.chromosome_location, SingleInterval(s, e, Strand.PLUS)))
            for s, e in ((c.start, c.end), (c.start + 1, c.end - 1), (c.start + 2, c.end - 2), (c.end - 1, c.end))
        ],
        "prepare_window_direct": lambda c: (
            attempt(lambda: c._prepare_single_exon_window_for_scan_codon_locations()),
            attempt(lambda: c._prepare_multi_exon_window_for_scan_codon_locations(None, False)),
            attempt(
                lambda: c._prepare_multi_exon_window_for_scan_codon_locations(
                    SingleInterval(c.start + 3, c.end - 3, c.strand, c.chromosome_location.parent)
                )
            ),
        ),
        "translate": lambda c: c.translate(),
        "translate_trunc": lambda c: c.translate(truncate_at_in_frame_stop=True),
        "translate_nonstrict_table": lambda c: c.translate(False, TranslationTable.PROKARYOTE, False),
        "has_in_frame_stop": lambda c: c.has_in_frame_stop,
        "has_valid_stop": lambda c: c.has_valid_stop,
        "has_canonical_start": lambda c: c.has_canonical_start_codon,
        "has_start_in_table": lambda c: (
            c.has_start_codon_in_specific_translation_table(),
            c.has_start_codon_in_specific_translation_table(TranslationTable.PROKARYOTE),
        ),
        "export_qualifiers": lambda c: c.export_qualifiers(),
        "export_qualifiers_parent": lambda c: (c.export_qualifiers(parent_quals), parent_quals),
        "merge_qualifiers": lambda c: (c._merge_qualifiers(parent_quals), c._merge_qualifiers(), parent_quals),
        "export_quals_list": lambda c: c._export_qualifiers_to_list(),
        "to_gff": lambda c: [str(r) for r in c.to_gff()],
        "to_gff_parent": lambda c: [str(r) for r in c.to_gff("theparent", parent_quals)],
        "to_gff_rel": lambda c: [str(r) for r in c.to_gff(chromosome_relative_coordinates=False)],
        "to_bed12": lambda c: c.to_bed12(),
        "optimize_blocks": lambda c: c.optimize_blocks(),
        "optimize_and_combine": lambda c: c.optimize_and_combine_blocks(),
        "cds_pos_to_sequence": lambda c: [c.cds_pos_to_sequence(p) for p in (0, 3, len(c) - 1)],
        "cds_pos_to_chunk": lambda c: [c.cds_pos_to_chunk_relative(p) for p in (0, 3)],
        "cds_interval_to_sequence": lambda c: c.cds_interval_to_sequence(1, 8, Strand.PLUS),
        "cds_interval_to_chunk": lambda c: c.cds_interval_to_chunk_relative(1, 8, Strand.MINUS),
        "sequence_pos_to_cds": lambda c: [attempt(lambda: c.sequence_pos_to_cds(p)) for p in pos_list(c)],
        "chunk_pos_to_cds": lambda c: [attempt(lambda: c.chunk_relative_pos_to_cds(p)) for p in (0, 3, 12)],
        "sequence_interval_to_cds": lambda c: c.sequence_interval_to_cds(c.start + 1, c.end - 1, Strand.PLUS),
        "chunk_interval_to_cds": lambda c: c.chunk_relative_interval_to_cds(2, 14, Strand.MINUS),
        "sequence_pos_to_aa": lambda c: [attempt(lambda: c.sequence_pos_to_amino_acid(p)) for p in pos_list(c)],
        "chromosome_location": lambda c: c.chromosome_location,
        "chunk_bounded": lambda c: c._chunk_relative_bounded_chromosome_location,
        "spans_gaps": lambda c: (
            c.chromosome_span,
            c.chromosome_gaps_location,
            c.chunk_relative_span,
            c.chunk_relative_gaps_location,
        ),
        "props": lambda c: (
            c.is_chunk_relative,
            c.chunk_relative_size,
            c.has_sequence,
            c.chunk_relative_start,
            c.chunk_relative_end,
            c.num_blocks,
            c.num_chunk_relative_blocks,
            c.strand,
            c.chunk_relative_strand,
            c.is_primary_feature,
        ),
        "blocks": lambda c: (list(c.blocks), list(c.relative_blocks), c.chunk_relative_blocks),
        "spliced_seq": lambda c: c.get_spliced_sequence(),
        "reference_seq": lambda c: c.get_reference_sequence(),
        "genomic_seq": lambda c: c.get_genomic_sequence(),
        "feature_conversions": lambda c: (
            [attempt(lambda: c.sequence_pos_to_feature(p)) for p in pos_list(c)],
            attempt(lambda: c.sequence_interval_to_feature(c.start + 1, c.end - 1, Strand.MINUS)),
            attempt(lambda: c.feature_pos_to_sequence(2)),
            attempt(lambda: c.feature_interval_to_sequence(1, 7, Strand.PLUS)),
            attempt(lambda: c.chunk_relative_pos_to_feature(12)),
            attempt(lambda: c.chunk_relative_interval_to_feature(2, 14, Strand.PLUS)),
            attempt(lambda: c.feature_pos_to_chunk_relative(2)),
            attempt(lambda: c.feature_interval_to_chunk_relative(1, 7, Strand.MINUS)),
        ),
        "parent_to_dict": lambda c: c._parent_to_dict(),
        "parent_to_dict_rel": lambda c: c._parent_to_dict(False),
        "ancestors": lambda c: (
            c.has_ancestor_of_type("chromosome"),
            attempt(lambda: c.first_ancestor_of_type("chromosome")),
            attempt(lambda: c.lift_over_to_first_ancestor_of_type()),
            attempt(lambda: c.lift_over_to_first_ancestor_of_type("sequence_chunk")),
        ),
        "liftover_new_chunk": lambda c: c.liftover_to_parent_or_seq_chunk_parent(
            seq_chunk_to_parent(GENOME[15:60], "chr1", 15, 60)
        ),
        "liftover_chrom": lambda c: c.liftover_to_parent_or_seq_chunk_parent(seq_to_parent(GENOME, seq_id="chr1")),
        "liftover_wrong_chrom": lambda c: c.liftover_to_parent_or_seq_chunk_parent(
            seq_chunk_to_parent(GENOME[15:60], "chr2", 15, 60)
        ),
        "eq_hash": lambda c: (c == c, c == 1, hash(c) == hash(c)),
    }


def cds_scenarios():
    pfs = parent_factories()
    qs = cds_questions()
    for shape in CDS_SHAPES:
        for strand in (Strand.PLUS, Strand.MINUS):
            for pname in pfs:

                def fac(shape=shape, strand=strand, pname=pname):
                    return make_cds(
                        shape,
                        strand,
                        pfs[pname](),
                        sequence_name="chr1",
                        protein_id="prot1",
                        product="a product",
                        qualifiers={"k": [1, "2"], "note": ["hello"]},
                    )

                evict = shape in ("three_exon_shift", "frameshift_gap0") and pname in ("chrom_seq", "chunk_20_70")
                run_scenario(f"cds:{shape}:{strand.name}:{pname}", fac, qs, evict=evict)

    # constructor variants
    ctor = {
        "phases": lambda: make_cds("three_exon", Strand.PLUS, None, phases=True),
        "mixed": lambda: CDSInterval([1, 10], [5, 15], Strand.PLUS, [CDSFrame.ZERO, CDSPhase.ONE]),
        "mixed2": lambda: CDSInterval([1, 10], [5, 15], Strand.PLUS, [CDSPhase.ONE, CDSFrame.ZERO]),
        "wrong_count": lambda: CDSInterval([1, 10], [5, 15], Strand.PLUS, [CDSFrame.ZERO]),
        "empty": lambda: CDSInterval([1], [1], Strand.PLUS, [CDSFrame.ZERO]),
        "start_end_mismatch": lambda: CDSInterval([1, 3], [1], Strand.PLUS, [CDSFrame.ZERO]),
        "guid_given": lambda: CDSInterval([1], [10], Strand.PLUS, [CDSFrame.ZERO], guid=UUID(int=5)),
        "no_quals": lambda: make_cds("three_exon", Strand.MINUS, None).export_qualifiers({"a": {"b"}}),
        "bad_quals": lambda: make_cds("three_exon", Strand.MINUS, None, qualifiers=[1]),
        "bad_qual_vals": lambda: make_cds("three_exon", Strand.MINUS, None, qualifiers={"a": "b"}),
        "from_location": lambda: CDSInterval.from_location(
            CompoundInterval([10, 30], [22, 44], Strand.MINUS, seq_to_parent(GENOME, seq_id="chr1")),
            [CDSFrame.ONE, CDSFrame.ZERO],
            protein_id="p",
        ),
        "from_location_chunk": lambda: CDSInterval.from_location(
            SingleInterval(1, 13, Strand.PLUS, seq_chunk_to_parent(GENOME[20:70], "chr1", 20, 70)), [CDSFrame.ZERO]
        ),
        "from_chunk_location": lambda: CDSInterval.from_chunk_relative_location(
            CompoundInterval([1, 20], [13, 31], Strand.PLUS, seq_chunk_to_parent(GENOME[20:70], "chr1", 20, 70)),
            [CDSFrame.ZERO, CDSFrame.ZERO],
            product="q",
        ),
        "from_chunk_location_nochunk": lambda: CDSInterval.from_chunk_relative_location(
            SingleInterval(1, 13, Strand.PLUS), [CDSFrame.ZERO]
        ),
    }
    for name, fn in ctor.items():
        RESULTS[f"cds_ctor:{name}"] = attempt(fn)

    for strand in (Strand.PLUS, Strand.MINUS):
        for start_frame in CDSFrame:
            for coords in (([0, 7, 12], [5, 11, 18]), ([3], [30]), ([0, 2, 3], [1, 3, 20])):
                loc = (
                    CompoundInterval(coords[0], coords[1], strand)
                    if len(coords[0]) > 1
                    else SingleInterval(coords[0][0], coords[1][0], strand)
                )
                RESULTS[f"cds_frames:{strand.name}:{start_frame.name}:{coords}"] = attempt(
                    lambda: CDSInterval.construct_frames_from_location(loc, start_frame)
                )
    RESULTS["cds_frames:default"] = attempt(
        lambda: CDSInterval.construct_frames_from_location(CompoundInterval([0, 7], [5, 11], Strand.PLUS))
    )


TX_SHAPES = {
    # name: exon starts, exon ends, cds shape or None
    "coding_three": ([5, 28, 48], [24, 46, 70], "three_exon"),
    "coding_three_shift": ([5, 28, 48], [24, 46, 70], "three_exon_shift"),
    "coding_full_length": ([10, 30, 50], [22, 44, 61], "three_exon"),
    "coding_single": ([2], [60], "one_exon_f1"),
    "coding_frameshift": ([5, 50], [44, 70], "frameshift_gap0"),
    "noncoding_two": ([5, 48], [24, 70], None),
    "noncoding_single": ([36], [57], None),
}


def make_tx(shape, strand, parent, **kw):
    exon_starts, exon_ends, cds_shape = TX_SHAPES[shape]
    if cds_shape:
        cds_starts, cds_ends, frames = CDS_SHAPES[cds_shape]
        if strand == Strand.MINUS:
            frames = frames[::-1]
        kw.update(cds_starts=list(cds_starts), cds_ends=list(cds_ends), cds_frames=list(frames))
    return TranscriptInterval(
        list(exon_starts), list(exon_ends), strand, parent_or_seq_chunk_parent=parent, **kw
    )


def tx_questions():
    parent_quals = {"gene_id": {"g1"}, "extra": {"x", "y"}, "k": {"3"}}
    base = cds_questions()
    keep = [
        "str",
        "repr",
        "len",
        "to_dict",
        "to_dict_rel",
        "export_qualifiers",
        "export_qualifiers_parent",
        "merge_qualifiers",
        "export_quals_list",
        "to_gff",
        "to_gff_parent",
        "to_gff_rel",
        "chromosome_location",
        "chunk_bounded",
        "spans_gaps",
        "props",
        "blocks",
        "spliced_seq",
        "reference_seq",
        "genomic_seq",
        "feature_conversions",
        "parent_to_dict",
        "parent_to_dict_rel",
        "ancestors",
        "liftover_new_chunk",
        "liftover_chrom",
        "liftover_wrong_chrom",
        "eq_hash",
        "id_name",
    ]
    qs = {k: base[k] for k in keep}
    qs.update(
        {
            "from_dict_roundtrip": lambda t: TranscriptInterval.from_dict(t.to_dict(), t._parent_or_seq_chunk_parent),
            "to_bed12": lambda t: str(t.to_bed12()),
            "to_bed12_rel": lambda t: str(t.to_bed12(5, name="transcript_id", chromosome_relative_coordinates=False)),
            "to_bed12_name": lambda t: str(t.to_bed12(name="zzz")),
            "is_coding": lambda t: (t.is_coding, t.is_primary_tx, t.cds_size, t.chunk_relative_cds_size),
            "cds_bounds": lambda t: (
                attempt(lambda: t.cds_start),
                attempt(lambda: t.cds_end),
                attempt(lambda: t.chunk_relative_cds_start),
                attempt(lambda: t.chunk_relative_cds_end),
                attempt(lambda: t.cds_location),
                attempt(lambda: t.cds_chunk_relative_location),
                attempt(lambda: list(t.cds_blocks)),
                attempt(lambda: t.chunk_relative_cds_blocks),
            ),
            "introns": lambda t: (t.chromosome_intron_location, t.chunk_relative_intron_location),
            "has_in_frame_stop": lambda t: t.has_in_frame_stop,
            "utr5": lambda t: t.get_5p_interval(),
            "utr3": lambda t: t.get_3p_interval(),
            "tx_seq": lambda t: t.get_transcript_sequence(),
            "cds_seq": lambda t: t.get_cds_sequence(),
            "protein": lambda t: t.get_protein_sequence(),
            "protein_trunc": lambda t: t.get_protein_sequence(True, TranslationTable.PROKARYOTE),
            "codon_then_cds_seq": lambda t: (
                t.cds.chunk_relative_codon_locations if t.cds else None,
                attempt(t.get_cds_sequence),
            ),
            "tx_conversions": lambda t: (
                [attempt(lambda: t.sequence_pos_to_transcript(p)) for p in pos_list(t)],
                attempt(lambda: t.chunk_relative_pos_to_transcript(12)),
                attempt(lambda: t.sequence_interval_to_transcript(t.start + 1, t.end - 1, Strand.PLUS)),
                attempt(lambda: t.chunk_relative_interval_to_transcript(2, 14, Strand.PLUS)),
                attempt(lambda: t.transcript_pos_to_sequence(3)),
                attempt(lambda: t.transcript_pos_to_chunk_relative(3)),
                attempt(lambda: t.transcript_interval_to_sequence(1, 9, Strand.MINUS)),
                attempt(lambda: t.transcript_interval_to_chunk_relative(1, 9, Strand.PLUS)),
            ),
            "cds_conversions": lambda t: (
                attempt(lambda: t.cds_pos_to_sequence(2)),
                attempt(lambda: t.cds_pos_to_chunk_relative(2)),
                attempt(lambda: t.cds_interval_to_sequence(1, 8, Strand.PLUS)),
                attempt(lambda: t.cds_interval_to_chunk_relative(1, 8, Strand.PLUS)),
                [attempt(lambda: t.sequence_pos_to_cds(p)) for p in pos_list(t)],
                attempt(lambda: t.chunk_relative_pos_to_cds(12)),
                attempt(lambda: t.sequence_interval_to_cds(t.start + 6, t.end - 10, Strand.PLUS)),
                attempt(lambda: t.chunk_relative_interval_to_cds(2, 14, Strand.PLUS)),
                attempt(lambda: t.cds_pos_to_transcript(4)),
                [attempt(lambda: t.transcript_pos_to_cds(p)) for p in (0, 6, 20)],
            ),
            "intersect": lambda t: t.intersect(SingleInterval(t.start + 2, t.end - 4, Strand.MINUS, t._location.parent)),
            "intersect_quals": lambda t: t.intersect(
                SingleInterval(t.start + 2, t.end - 4, Strand.PLUS, t._location.parent), UUID(int=7), {"q": ["1"]}
            ),
            "intersect_disjoint": lambda t: t.intersect(SingleInterval(140, 145, Strand.PLUS, t._location.parent)),
            "to_gff_no_raise": lambda t: [
                str(r) for r in t.to_gff(parent_qualifiers=parent_quals, raise_on_reserved_attributes=False)
            ],
        }
    )
    return qs


def tx_scenarios():
    pfs = parent_factories()
    qs = tx_questions()
    for shape in TX_SHAPES:
        for strand in (Strand.PLUS, Strand.MINUS):
            for pname in pfs:

                def fac(shape=shape, strand=strand, pname=pname):
                    return make_tx(
                        shape,
                        strand,
                        pfs[pname](),
                        sequence_name="chr1",
                        transcript_id="tx1",
                        transcript_symbol="sym1",
                        transcript_type=Biotype.protein_coding,
                        protein_id="prot1",
                        product="a product",
                        qualifiers={"k": [1, "2"], "note": ["hello"], "protein_id": ["other"]},
                    )

                evict = shape == "coding_three" and pname in ("chrom_seq", "chunk_5_120")
                run_scenario(f"tx:{shape}:{strand.name}:{pname}", fac, qs, evict=evict)

    ctor = {
        "no_seqname_gff": lambda: [str(r) for r in make_tx("coding_three", Strand.PLUS, None).to_gff()],
        "primary": lambda: make_tx("coding_three", Strand.PLUS, None, is_primary_tx=True, guid=UUID(int=3)),
        "cds_start_only": lambda: TranscriptInterval([1], [10], Strand.PLUS, cds_starts=[2]),
        "cds_end_only": lambda: TranscriptInterval([1], [10], Strand.PLUS, cds_ends=[2]),
        "cds_len_mismatch": lambda: TranscriptInterval([1], [10], Strand.PLUS, [2, 3], [5], [CDSFrame.ZERO]),
        "cds_before_exon": lambda: TranscriptInterval([1], [10], Strand.PLUS, [0], [5], [CDSFrame.ZERO]),
        "cds_after_exon": lambda: TranscriptInterval([1], [10], Strand.PLUS, [2], [15], [CDSFrame.ZERO]),
        "cds_no_frames": lambda: TranscriptInterval([1], [10], Strand.PLUS, [2], [5]),
        "cds_frames_mismatch": lambda: TranscriptInterval([1], [10], Strand.PLUS, [2], [5], [CDSFrame.ZERO] * 2),
        "from_location": lambda: TranscriptInterval.from_location(
            CompoundInterval([5, 28], [24, 46], Strand.MINUS, seq_to_parent(GENOME, seq_id="chr1")),
            cds=make_cds("three_exon", Strand.MINUS, None),
            transcript_type="protein_coding",
            transcript_id="t",
        ),
        "from_location_chunk": lambda: TranscriptInterval.from_location(
            SingleInterval(1, 13, Strand.PLUS, seq_chunk_to_parent(GENOME[20:70], "chr1", 20, 70))
        ),
        "from_chunk_location": lambda: TranscriptInterval.from_chunk_relative_location(
            CompoundInterval([1, 20], [13, 31], Strand.PLUS, seq_chunk_to_parent(GENOME[20:70], "chr1", 20, 70)),
            cds=make_cds("one_exon_f0", Strand.PLUS, seq_chunk_to_parent(GENOME[20:70], "chr1", 20, 70)),
        ),
        "from_chunk_location_cds_nochunk": lambda: TranscriptInterval.from_chunk_relative_location(
            CompoundInterval([1, 20], [13, 31], Strand.PLUS, seq_chunk_to_parent(GENOME[20:70], "chr1", 20, 70)),
            cds=make_cds("one_exon_f0", Strand.PLUS, None),
        ),
        "from_chunk_location_nochunk": lambda: TranscriptInterval.from_chunk_relative_location(
            SingleInterval(1, 13, Strand.PLUS)
        ),
    }
    for name, fn in ctor.items():
        RESULTS[f"tx_ctor:{name}"] = attempt(fn)


def make_feature(starts, ends, strand, parent, **kw):
    return FeatureInterval(list(starts), list(ends), strand, parent_or_seq_chunk_parent=parent, **kw)


def feature_scenarios():
    pfs = parent_factories()
    base = cds_questions()
    keep = [
        "str",
        "repr",
        "len",
        "to_dict",
        "to_dict_rel",
        "export_qualifiers",
        "export_qualifiers_parent",
        "merge_qualifiers",
        "to_gff",
        "to_gff_parent",
        "to_gff_rel",
        "chromosome_location",
        "chunk_bounded",
        "spans_gaps",
        "props",
        "blocks",
        "spliced_seq",
        "reference_seq",
        "genomic_seq",
        "feature_conversions",
        "parent_to_dict",
        "ancestors",
        "liftover_new_chunk",
        "eq_hash",
        "id_name",
    ]
    qs = {k: base[k] for k in keep}
    qs["to_bed12"] = lambda f: str(f.to_bed12())
    qs["to_bed12_rel"] = lambda f: str(f.to_bed12(chromosome_relative_coordinates=False))
    for cname, (starts, ends) in {"single": ([36], [57]), "multi": ([5, 28, 48], [24, 46, 70])}.items():
        for strand in (Strand.PLUS, Strand.MINUS):
            for pname in pfs:

                def fac(starts=starts, ends=ends, strand=strand, pname=pname):
                    return make_feature(
                        starts,
                        ends,
                        strand,
                        pfs[pname](),
                        sequence_name="chr1",
                        feature_types=["promoter", "tfbs"],
                        feature_name="fname",
                        feature_id="fid",
                        qualifiers={"k": [1, "2"]},
                    )

                run_scenario(f"feat:{cname}:{strand.name}:{pname}", fac, qs)


# --------------------------------------------------------------------------------------------------------------------
# collections
# --------------------------------------------------------------------------------------------------------------------
def build_gene(parent, which=0, **kw):
    if which == 0:
        txs = [
            make_tx(
                "coding_three",
                Strand.PLUS,
                parent,
                sequence_name="chr1",
                transcript_id="tx1",
                transcript_symbol="sym1",
                protein_id="p1",
                qualifiers={"a": ["1"]},
            ),
            make_tx("noncoding_two", Strand.PLUS, parent, sequence_name="chr1", transcript_id="tx2"),
            make_tx(
                "coding_frameshift", Strand.PLUS, parent, sequence_name="chr1", transcript_id="tx3", protein_id="p3"
            ),
        ]
        return GeneInterval(
            txs,
            gene_id="gene1",
            gene_symbol="G1",
            gene_type=Biotype.protein_coding,
            locus_tag="LT1",
            qualifiers={"gq": ["v"]},
            sequence_name="chr1",
            parent_or_seq_chunk_parent=parent,
            **kw,
        )
    txs = [
        make_tx("noncoding_single", Strand.MINUS, parent, sequence_name="chr1", transcript_id="tx4"),
        TranscriptInterval(
            [80, 100],
            [95, 130],
            Strand.MINUS,
            sequence_name="chr1",
            transcript_id="tx5",
            is_primary_tx=kw.pop("primary", None),
            parent_or_seq_chunk_parent=parent,
        ),
    ]
    return GeneInterval(
        txs, gene_id="gene2", gene_symbol="G2", locus_tag="LT2", sequence_name="chr1", parent_or_seq_chunk_parent=parent
    )


def build_fc(parent, which=0):
    if which == 0:
        feats = [
            make_feature([12], [15], Strand.PLUS, parent, sequence_name="chr1", feature_name="F1", feature_id="f1"),
            make_feature(
                [12, 17, 22],
                [16, 20, 25],
                Strand.PLUS,
                parent,
                sequence_name="chr1",
                feature_name="F2",
                feature_types=["t1"],
            ),
            make_feature([35], [40], Strand.MINUS, parent, sequence_name="chr1", feature_name="F3"),
        ]
        return FeatureIntervalCollection(
            feats,
            feature_collection_name="FC1",
            feature_collection_id="fc1",
            locus_tag="LT3",
            sequence_name="chr1",
            qualifiers={"fq": ["v", "w"]},
            parent_or_seq_chunk_parent=parent,
        )
    feats = [make_feature([100], [140], Strand.MINUS, parent, sequence_name="chr1", feature_name="F4")]
    return FeatureIntervalCollection(
        feats, feature_collection_name="FC2", sequence_name="chr1", parent_or_seq_chunk_parent=parent
    )


def build_vc(parent, which=0):
    if which == 0:
        vs = [
            VariantInterval(14, 15, "G", "SNV", variant_name="v1", parent_or_seq_chunk_parent=parent),
            VariantInterval(33, 35, "A", "deletion", variant_name="v2", parent_or_seq_chunk_parent=parent),
        ]
    else:
        vs = [VariantInterval(52, 53, "TTT", "insertion", variant_id="v3", parent_or_seq_chunk_parent=parent)]
    return VariantIntervalCollection(
        vs,
        variant_collection_name=f"VC{which}",
        variant_collection_id=f"vc{which}",
        sequence_name="chr1",
        parent_or_seq_chunk_parent=parent,
    )


def build_ac(parent, variants=False, empty=False, **kw):
    if empty:
        return AnnotationCollection(parent_or_seq_chunk_parent=parent, name="empty", **kw)
    return AnnotationCollection(
        feature_collections=[build_fc(parent, 1), build_fc(parent, 0)],
        genes=[build_gene(parent, 1), build_gene(parent, 0)],
        variant_collections=[build_vc(parent, 0), build_vc(parent, 1)] if variants else None,
        name="ac",
        id="acid",
        sequence_name="chr1",
        qualifiers={"cq": ["1", 2]},
        parent_or_seq_chunk_parent=parent,
        **kw,
    )


def collection_common_questions():
    return {
        "repr": repr,
        "len": len,
        "to_dict": lambda c: c.to_dict(),
        "to_dict_rel": lambda c: c.to_dict(chromosome_relative_coordinates=False),
        "iter": lambda c: [repr(x) for x in c],
        "children_guids": lambda c: c.children_guids,
        "strand": lambda c: c.strand,
        "chromosome_location": lambda c: c.chromosome_location,
        "chunk_bounded": lambda c: c._chunk_relative_bounded_chromosome_location,
        "props": lambda c: (
            c.is_chunk_relative,
            c.chunk_relative_size,
            c.has_sequence,
            attempt(lambda: c.chunk_relative_start),
            attempt(lambda: c.chunk_relative_end),
            attempt(lambda: c.num_blocks),
            attempt(lambda: c.blocks),
            attempt(lambda: c.chunk_relative_blocks),
            attempt(lambda: c.num_chunk_relative_blocks),
            attempt(lambda: c.chunk_relative_strand),
            c.identifiers,
            c.identifiers_dict,
            c.id,
            c.name,
        ),
        "reference_seq": lambda c: c.get_reference_sequence(),
        "parent_to_dict": lambda c: c._parent_to_dict(),
        "parent_to_dict_rel": lambda c: c._parent_to_dict(False),
        "to_gff": lambda c: [str(r) for r in c.to_gff()],
        "to_gff_rel": lambda c: [str(r) for r in c.to_gff(chromosome_relative_coordinates=False)],
        "liftover_new_chunk": lambda c: c.liftover_to_parent_or_seq_chunk_parent(
            seq_chunk_to_parent(GENOME[15:60], "chr1", 15, 60)
        ),
        "eq_hash": lambda c: (c == c, c == 1, hash(c) == hash(c)),
    }


def gene_scenarios():
    pfs = parent_factories()
    qs = collection_common_questions()
    qs.update(
        {
            "primary": lambda g: (
                g.get_primary_transcript(),
                g.get_primary_cds(),
                attempt(g.get_primary_transcript_sequence),
                attempt(g.get_primary_cds_sequence),
                attempt(g.get_primary_protein),
            ),
            "merged": lambda g: (attempt(g.get_merged_transcript), attempt(g.get_merged_cds)),
            "export_qualifiers": lambda g: g.export_qualifiers(),
            "query_by_guids": lambda g: g.query_by_guids([list(g.guid_map)[0], UUID(int=1)]),
            "query_by_guids_none": lambda g: g.query_by_guids(UUID(int=1)),
            "is_coding": lambda g: g.is_coding,
        }
    )
    for which in (0, 1):
        for pname in pfs:
            run_scenario(f"gene:{which}:{pname}", lambda which=which, pname=pname: build_gene(pfs[pname](), which), qs)
            run_scenario(f"fc:{which}:{pname}", lambda which=which, pname=pname: build_fc(pfs[pname](), which), qs)

    class Fake:
        def __init__(self, cds_size, length, primary=False, interval_type="transcript"):
            self.cds_size = cds_size
            self._l = length
            self.is_primary_feature = primary
            self.interval_type = interval_type

        def __len__(self):
            return self._l

        def __repr__(self):
            return f"Fake({self.cds_size},{self._l},{self.is_primary_feature},{self.interval_type})"

    fpf = AbstractFeatureIntervalCollection._find_primary_feature
    cases = {
        "ties": [Fake(3, 10), Fake(3, 10), Fake(2, 50)],
        "len_break": [Fake(3, 10), Fake(3, 12), Fake(3, 11)],
        "feature_type": [Fake(30, 10, interval_type="feature"), Fake(0, 12, interval_type="feature")],
        "mixed_type": [Fake(30, 10, interval_type="feature"), Fake(1, 2)],
        "given": [Fake(3, 10), Fake(1, 1, True), Fake(9, 90)],
        "given_twice": [Fake(3, 10, True), Fake(1, 1, True)],
        "given_falsy_len": [Fake(0, 0, True), Fake(1, 1, True)],
        "empty": [],
    }
    for name, intervals in cases.items():
        RESULTS[f"find_primary:{name}"] = attempt(lambda: repr(fpf(intervals)))


def ac_scenarios():
    pfs = parent_factories()
    qs = collection_common_questions()

    def all_interval_guids(ac):
        return [gc.guid for c in ac.children for gc in c.iter_children()]

    qs.update(
        {
            "to_dict_parent": lambda ac: ac.to_dict(export_parent=True),
            "is_empty": lambda ac: ac.is_empty,
            "children": lambda ac: [repr(c) for c in ac.children],
            "children_identity": lambda ac: ac.children is ac.children,
            "non_variant_children": lambda ac: [repr(c) for c in ac.non_variant_children],
            "iter_children": lambda ac: ([repr(c) for c in ac.iter_children()], len(list(ac.iter_non_variant_children()))),
            "hierarchical": lambda ac: ac.hierarchical_children_guids,
            "interval_guids_to_collections": lambda ac: {k: repr(v) for k, v in ac.interval_guids_to_collections.items()},
            "child_interval_guid_map": lambda ac: {
                k: (repr(v[0]), repr(v[1])) for k, v in ac._child_interval_guid_map.items()
            },
            "guid_map": lambda ac: {k: repr(v) for k, v in ac.guid_map.items()},
            "alt_haplotypes": lambda ac: ac.alternative_haplotype_mapping,
            "get_children_by_type": lambda ac: (
                [repr(x) for x in ac.get_children_by_type("feature")],
                [repr(x) for x in ac.get_children_by_type("TRANSCRIPT")],
                [repr(x) for x in ac.get_children_by_type("Variant")],
                attempt(lambda: ac.get_children_by_type("gene")),
                attempt(lambda: ac.get_children_by_type(3)),
                ac.get_children_by_type("transcript") is ac.genes,
            ),
            "q_pos_default": lambda ac: ac.query_by_position(),
            "q_pos_10_50": lambda ac: ac.query_by_position(10, 50),
            "q_pos_10_50_overlap": lambda ac: ac.query_by_position(10, 50, completely_within=False),
            "q_pos_10_50_expand": lambda ac: ac.query_by_position(
                10, 50, completely_within=False, expand_location_to_children=True
            ),
            "q_pos_coding": lambda ac: ac.query_by_position(0, 80, coding_only=True, completely_within=False),
            "q_pos_21_22": lambda ac: ac.query_by_position(21, 22, completely_within=False),
            "q_pos_start_only": lambda ac: ac.query_by_position(start=30),
            "q_pos_end_only": lambda ac: ac.query_by_position(end=75, completely_within=False),
            "q_pos_bad": lambda ac: (
                attempt(lambda: ac.query_by_position(-1, 5)),
                attempt(lambda: ac.query_by_position(9, 5)),
                attempt(lambda: ac.query_by_position(5, 5)),
                attempt(lambda: ac.query_by_position(0, 100000)),
            ),
            "q_slow_path": lambda ac: [
                [repr(x) for x in part]
                for cw in (True, False)
                for co in (True, False)
                for part in ac._query_by_position(10, 75, cw, co)
            ],
            "q_fast_path": lambda ac: ac._optimized_query_by_position(10, 75, True, False),
            "q_guids": lambda ac: ac.query_by_guids(list(ac.guid_map)[::2] + [UUID(int=9)]),
            "q_guids_single": lambda ac: ac.query_by_guids(list(ac.guid_map)[0]),
            "q_guids_none": lambda ac: ac.query_by_guids([]),
            "q_interval_guids": lambda ac: ac.query_by_interval_guids(all_interval_guids(ac)[::2] + [UUID(int=9)]),
            "q_interval_guids_single": lambda ac: ac.query_by_interval_guids(all_interval_guids(ac)[1]),
            "q_tx_guids": lambda ac: ac.query_by_transcript_interval_guids(all_interval_guids(ac)[::2]),
            "q_tx_guids_single": lambda ac: ac.query_by_transcript_interval_guids(all_interval_guids(ac)[0]),
            "q_feat_guids": lambda ac: ac.query_by_feature_interval_guids(all_interval_guids(ac)),
            "q_feat_guids_single": lambda ac: ac.query_by_feature_interval_guids(all_interval_guids(ac)[-1]),
            "q_identifiers": lambda ac: ac.query_by_feature_identifiers(["gene1", "FC2", "nope", "VC1"]),
            "q_identifier_single": lambda ac: ac.query_by_feature_identifiers("LT3"),
            "subset_parent": lambda ac: (
                attempt(lambda: ac._subset_parent(10, 50)),
                attempt(lambda: ac._subset_parent(10, 10)),
                attempt(lambda: ac._subset_parent(ac.start, ac.end)),
                attempt(lambda: ac._subset_parent(0, ac.end)),
                attempt(lambda: ac._subset_parent(140, 149)),
            ),
            "pickle": lambda ac: pickle.loads(pickle.dumps(ac)),
            "from_dict_roundtrip": lambda ac: AnnotationCollection.from_dict(ac.to_dict(export_parent=True)),
            "from_dict_roundtrip_explicit": lambda ac: AnnotationCollection.from_dict(
                ac.to_dict(), seq_to_parent(GENOME, seq_id="chr1")
            ),
            "incorporate_variants": lambda ac: ac.incorporate_variants(build_vc(ac._parent_or_seq_chunk_parent, 0)),
            "incorporate_variant_single": lambda ac: ac.incorporate_variants(
                VariantInterval(60, 61, "GG", "insertion", parent_or_seq_chunk_parent=ac._parent_or_seq_chunk_parent)
            ),
        }
    )
    for pname in pfs:
        for variants in (False, True):
            run_scenario(
                f"ac:{pname}:variants={variants}",
                lambda pname=pname, variants=variants: build_ac(pfs[pname](), variants),
                qs,
                evict=pname in ("chrom_seq", "chunk_5_120"),
            )
        run_scenario(f"ac_empty:{pname}", lambda pname=pname: build_ac(pfs[pname](), empty=True), qs)
    run_scenario(
        "ac:bounds", lambda: build_ac(seq_to_parent(GENOME, seq_id="chr1"), start=2, end=145, completely_within=True), qs
    )
    ctor = {
        "start_only": lambda: build_ac(None, start=3),
        "end_only": lambda: build_ac(None, end=3),
        "empty_bounds": lambda: build_ac(None, empty=True, start=3, end=9),
        "dup_gene": lambda: AnnotationCollection(genes=[build_gene(None, 0), build_gene(None, 0)]).hierarchical_children_guids,
        "dup_tx": lambda: AnnotationCollection(
            genes=[build_gene(None, 0), build_gene(None, 0, guid=UUID(int=4))]
        ).interval_guids_to_collections,
        "from_dict_parent_noseq": lambda: AnnotationCollection.from_dict(
            build_ac(Parent(id="chr1", sequence_type="chromosome")).to_dict(export_parent=True)
        ),
    }
    for name, fn in ctor.items():
        RESULTS[f"ac_ctor:{name}"] = attempt(fn)


class _FakeCgranges:
    """A tiny pure-python stand-in for the optional ``cgranges`` dependency (not installed here), so that the
    ``HAS_CGRANGES`` branches of the library can be exercised as well. Results come back sorted by start."""

    class cgranges:  # noqa: N801  (mirrors the real module: cgranges.cgranges())
        def __init__(self):
            self._intervals = []
            self._indexed = False

        def add(self, contig, start, end, label):
            self._intervals.append((contig, start, end, label))

        def index(self):
            self._intervals.sort(key=lambda x: (x[1], x[2]))
            self._indexed = True

        def overlap(self, contig, start, end):
            assert self._indexed
            for c, s, e, label in self._intervals:
                if c == contig and s < end and e > start:
                    yield s, e, label


def cgranges_scenarios():
    """Re-run the collection queries with the optimized (cgranges) code paths switched on."""
    import inscripta.biocantor.gene.collections as collections_module
    import inscripta.biocantor.location.location_impl as location_module

    pfs = parent_factories()
    qs = {
        "q_fast_path": lambda ac: [
            [repr(x) for x in part]
            for cw in (True, False)
            for co in (True, False)
            for part in ac._optimized_query_by_position(10, 75, cw, co)
        ],
        "q_pos_default": lambda ac: ac.query_by_position(),
        "q_pos_10_50": lambda ac: ac.query_by_position(10, 50),
        "q_pos_10_50_overlap": lambda ac: ac.query_by_position(10, 50, completely_within=False),
        "q_pos_10_50_expand": lambda ac: ac.query_by_position(
            10, 50, completely_within=False, expand_location_to_children=True
        ),
        "q_pos_coding": lambda ac: ac.query_by_position(5, 80, coding_only=True, completely_within=False),
        "q_pos_21_22": lambda ac: ac.query_by_position(21, 22, completely_within=False),
        "alt_haplotypes": lambda ac: ac.alternative_haplotype_mapping,
        "tree_identity": lambda ac: ac._build_position_interval_tree() is ac._build_position_interval_tree(),
        "compound_intersection": lambda ac: CompoundInterval([5, 30, 60], [20, 50, 90], Strand.PLUS).intersection(
            CompoundInterval([10, 45], [35, 70], Strand.PLUS)
        ),
    }
    for module in (collections_module, location_module):
        module.cgranges = _FakeCgranges
        module.HAS_CGRANGES = True
    try:
        for pname in ("none", "chrom_seq", "chrom_noseq", "chunk_all", "chunk_5_120"):
            for variants in (False, True):
                run_scenario(
                    f"ac_cgranges:{pname}:variants={variants}",
                    lambda pname=pname, variants=variants: build_ac(pfs[pname](), variants),
                    qs,
                )
    finally:
        for module in (collections_module, location_module):
            module.HAS_CGRANGES = False
            del module.cgranges


def static_scenarios():
    pfs = parent_factories()
    locs = {
        "si_plus": lambda: SingleInterval(22, 60, Strand.PLUS),
        "si_minus": lambda: SingleInterval(22, 60, Strand.MINUS),
        "ci_plus": lambda: CompoundInterval([10, 30, 50], [22, 44, 61], Strand.PLUS),
        "ci_minus_chunk": lambda: CompoundInterval(
            [2, 20], [10, 40], Strand.MINUS, seq_chunk_to_parent(GENOME[5:120], "chr1", 5, 120)
        ),
        "ci_chunk_nochrom": lambda: CompoundInterval(
            [2, 20],
            [10, 40],
            Strand.PLUS,
            Parent(sequence=Sequence(GENOME[:50], Alphabet.NT_STRICT, type=SequenceType.SEQUENCE_CHUNK)),
        ),
        "si_other_chrom_chunk": lambda: SingleInterval(
            2, 20, Strand.PLUS, seq_chunk_to_parent(GENOME[5:120], "chr9", 5, 120)
        ),
    }
    extra_parents = dict(pfs)
    extra_parents["chunk_noseq"] = lambda: Parent(
        id="c",
        sequence_type=SequenceType.SEQUENCE_CHUNK,
        parent=Parent(location=SingleInterval(5, 100, Strand.PLUS, parent=Parent(id="chr1", sequence_type="chromosome"))),
    )
    extra_parents["chunk_nochrom"] = lambda: Parent(
        sequence=Sequence(GENOME[:50], Alphabet.NT_STRICT, type=SequenceType.SEQUENCE_CHUNK)
    )
    for lname, lf in locs.items():
        for pname, pf in extra_parents.items():
            RESULTS[f"liftover_static:{lname}:{pname}"] = attempt(
                lambda: AbstractInterval.liftover_location_to_seq_chunk_parent(lf(), pf())
            )
    for pname, pf in extra_parents.items():
        for starts, ends in (([3], [9]), ([3, 20], [9, 44]), ([3, 20], [9]), ([], [])):
            for strand in Strand:
                RESULTS[f"initialize_location:{starts}:{ends}:{strand.name}:{pname}"] = attempt(
                    lambda: AbstractInterval.initialize_location(starts, ends, strand, pf())
                )


def main():
    if sys.argv[1] == "dump":
        parent_scenarios()
        location_scenarios()
        cds_scenarios()
        tx_scenarios()
        feature_scenarios()
        gene_scenarios()
        ac_scenarios()
        cgranges_scenarios()
        static_scenarios()
        with open(sys.argv[2], "w") as fh:
            json.dump(RESULTS, fh, indent=0, sort_keys=True)
        n_raised = sum(1 for v in RESULTS.values() if v.startswith("RAISED"))
        print(f"{len(RESULTS)} observations written to {sys.argv[2]} ({n_raised} of them are exceptions)")
    elif sys.argv[1] == "compare":
        with open(sys.argv[2]) as fh:
            a = json.load(fh)
        with open(sys.argv[3]) as fh:
            b = json.load(fh)
        keys = sorted(set(a) | set(b))
        diffs = [k for k in keys if a.get(k) != b.get(k)]
        for k in diffs[:40]:
            print(f"DIFF {k}\n   A: {str(a.get(k))[:600]}\n   B: {str(b.get(k))[:600]}")
        print(f"{len(keys)} observations compared, {len(diffs)} differ")
        sys.exit(1 if diffs else 0)


if __name__ == "__main__":
    main()
