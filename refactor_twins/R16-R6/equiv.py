"""
Equivalence script for property C16 (UCSC bins, bin stored on every interval, bin pre-filter of range queries).

Usage (from the worktree root):

    /venv/bin/python _refactor/R2/equiv.py record /tmp/c16_pristine.json      # on the pristine tree
    git apply _refactor/R2/patch.diff
    /venv/bin/python _refactor/R2/equiv.py compare /tmp/c16_pristine.json     # on the refactored tree

Every observation is a string (repr / str / to_dict rendered canonically); large exhaustive sweeps of ``bins()``
are stored as sha256 digests of the full list of results (plus literal samples).
"""
import hashlib
import inspect
import json
import random
import os
import sys
import types

if os.environ.get("PYTHONHASHSEED") != "0":
    # reprs of the collections print sets of identifiers: pin the string hash seed so that runs are comparable
    os.execve(sys.executable, [sys.executable] + sys.argv, dict(os.environ, PYTHONHASHSEED="0"))

sys.path.insert(0, os.getcwd())  # run from the worktree root

import inscripta.biocantor.location  # noqa: F401  (must be first: circular import otherwise)
from inscripta.biocantor.gene.cds_frame import CDSFrame
from inscripta.biocantor.gene.collections import AnnotationCollection
from inscripta.biocantor.gene.feature import FeatureInterval, FeatureIntervalCollection
from inscripta.biocantor.gene.gene import GeneInterval
from inscripta.biocantor.gene.transcript import TranscriptInterval
from inscripta.biocantor.gene.variants import VariantInterval, VariantIntervalCollection
from inscripta.biocantor.location.location_impl import SingleInterval
from inscripta.biocantor.location.strand import Strand
from inscripta.biocantor.parent import Parent, SequenceType
from inscripta.biocantor.sequence.alphabet import Alphabet
from inscripta.biocantor.sequence.sequence import Sequence
from inscripta.biocantor.util import bins as bins_module
from inscripta.biocantor.util.bins import bins


# ---------------------------------------------------------------------------------------------------------------------
# helpers
# ---------------------------------------------------------------------------------------------------------------------
def canon(x):
    """Canonical, order-independent rendering of a result."""
    if isinstance(x, (set, frozenset)):
        try:
            return "{" + ",".join(map(str, sorted(x))) + "}"  # the common case: a set of ints
        except TypeError:
            pass
        return "{" + ",".join(canon(v) for v in sorted(x, key=repr)) + "}"
    if isinstance(x, dict):
        return "{" + ",".join(f"{canon(k)}:{canon(v)}" for k, v in sorted(x.items(), key=lambda kv: repr(kv[0]))) + "}"
    if isinstance(x, (list, tuple)):
        return type(x).__name__ + "[" + ",".join(canon(v) for v in x) + "]"
    return f"{type(x).__name__}:{x!r}"


def attempt(fn, *args, **kwargs):
    try:
        return canon(fn(*args, **kwargs))
    except Exception as e:  # noqa: BLE001 -- exception type and message are part of the observation
        return f"EXC {type(e).__name__}: {e}"


def digest(items):
    h = hashlib.sha256()
    for it in items:
        h.update(it.encode())
        h.update(b"\n")
    return h.hexdigest()


def seq_to_parent(seq, alphabet=Alphabet.NT_EXTENDED_GAPPED, seq_id=None, seq_type=SequenceType.CHROMOSOME):
    return Parent(
        sequence=Sequence(seq, alphabet, type=seq_type, id=seq_id), location=SingleInterval(0, len(seq), Strand.PLUS)
    )


def seq_chunk_to_parent(seq, sequence_name, start, end, strand=Strand.PLUS, alphabet=Alphabet.NT_EXTENDED_GAPPED):
    chunk_id = f"{sequence_name}:{start}-{end}"
    return Parent(
        id=chunk_id,
        sequence=Sequence(
            seq,
            alphabet,
            id=chunk_id,
            type=SequenceType.SEQUENCE_CHUNK,
            parent=Parent(
                location=SingleInterval(
                    start, end, strand, parent=Parent(id=sequence_name, sequence_type=SequenceType.CHROMOSOME)
                )
            ),
        ),
    )


# ``inscripta.biocantor.io.parser`` cannot be imported in this environment (io/models.py fails to import); the library
# imports the two functions above lazily from it when a collection with sequence is subset, so provide them via a stub.
_parser_stub = types.ModuleType("inscripta.biocantor.io.parser")
_parser_stub.seq_to_parent = seq_to_parent
_parser_stub.seq_chunk_to_parent = seq_chunk_to_parent
sys.modules["inscripta.biocantor.io.parser"] = _parser_stub

OBS = {}


def record(key, value):
    assert key not in OBS, key
    OBS[key] = value


# ---------------------------------------------------------------------------------------------------------------------
# 1. bins()
# ---------------------------------------------------------------------------------------------------------------------
def sweep_bins():
    # signature: every existing parameter keeps its name, order and default
    params = list(inspect.signature(bins).parameters.values())
    record("bins.signature.first4", canon([(p.name, repr(p.default), str(p.kind)) for p in params[:4]]))
    record("bins.signature.extra_all_optional", canon(all(p.default is not p.empty for p in params[4:])))
    record(
        "bins.constants",
        canon(
            [
                bins_module.NEXT_SHIFT,
                bins_module.FIRST_SHIFT,
                bins_module.OFFSETS,
                bins_module.COORD_OFFSETS,
                bins_module.MAX_CHROM_SIZE,
            ]
        ),
    )

    # exhaustive band around multiples of 2^k, k = 17..30
    band = range(-3, 4)
    for k in range(17, 31):
        unit = 1 << k
        top = (1 << 30) // unit
        mults = sorted({0, 1, 2, 3, 7, 8, 9, 63, 64, 65, top // 2 - 1, top // 2, top // 2 + 1, top - 1, top})
        mults = [m for m in mults if m >= 0]
        points = sorted({m * unit + d for m in mults for d in band})
        # the sets returned for one=False are large: a thinner (still boundary-hugging) grid there
        few = sorted({m * unit + d for m in (0, 1, 2, 7, 8, 9, top // 2, top - 1, top) for d in (-1, 0, 1)})
        for fmt in ("bed", "gff"):
            for one in (True, False):
                res = []
                points = points if one else few
                for s in points:
                    for e in points:
                        res.append(f"{s},{e}->{attempt(bins, s, e, fmt=fmt, one=one)}")
                record(f"bins.band.k{k}.{fmt}.one={one}", f"n={len(res)} sha={digest(res)}")

    # random pairs up to 2^30 (and a little beyond / below zero)
    rng = random.Random(16)
    for fmt in ("bed", "gff"):
        for one in (True, False):
            res = []
            for _ in range(20000 if one else 4000):
                s = rng.randrange(-5, (1 << 30) + 5)
                width = rng.choice([1, 2, 100, 1 << 10, 1 << 17, 1 << 20, 1 << 23, 1 << 26, 1 << 29])
                e = s + rng.randrange(0, width + 1)
                res.append(f"{s},{e}->{attempt(bins, s, e, fmt=fmt, one=one)}")
            for _ in range(5000 if one else 1000):
                s = rng.randrange(0, 1 << 30)
                e = rng.randrange(0, 1 << 30)  # may be < s
                res.append(f"{s},{e}->{attempt(bins, s, e, fmt=fmt, one=one)}")
            record(f"bins.random.{fmt}.one={one}", f"n={len(res)} sha={digest(res)}")

    # literal samples, positional / keyword / default calling conventions, odd inputs
    M = bins_module.MAX_CHROM_SIZE
    samples = [
        (0, 1),
        (0, 5),
        (1, 5),
        (0, 0),
        (5, 0),
        (200000, 5),
        (131071, 131072),
        (131072, 131073),
        (131071, 131071),
        (131072, 131072),
        (1048575, 1048576),
        (1048576, 1048577),
        (0, M - 1),
        (0, M),
        (0, M + 10),
        (M - 1, M - 1),
        (M - 1, M),
        (M, M),
        (M, 0),
        (M + 5, M + 9),
        (-1, 5),
        (5, -1),
        (-1, -1),
        (-1, M),
        (M, -1),
        (3 * 131072 - 1, 3 * 131072 + 1),
        (67108863, 67108865),
        (True, 5),
    ]
    lit = {}
    for s, e in samples:
        lit[f"{s},{e},default"] = attempt(bins, s, e)
        lit[f"{s},{e},pos-bed-True"] = attempt(bins, s, e, "bed", True)
        lit[f"{s},{e},pos-bed-False"] = attempt(bins, s, e, "bed", False)
        lit[f"{s},{e},kw-gff-one=0"] = attempt(bins, start=s, stop=e, fmt="gff", one=0)
        lit[f"{s},{e},kw-gff-one='x'"] = attempt(bins, start=s, stop=e, fmt="gff", one="x")
        lit[f"{s},{e},kw-one=None"] = attempt(bins, s, e, one=None)
        lit[f"{s},{e},badfmt"] = attempt(bins, s, e, fmt="sam")
        lit[f"{s},{e},badfmt-all"] = attempt(bins, s, e, fmt="sam", one=False)
    lit["none-start"] = attempt(bins, None, 5)
    lit["none-stop"] = attempt(bins, 5, None)
    lit["float"] = attempt(bins, 5.0, 7.0, fmt="bed")
    lit["float-big"] = attempt(bins, float(M), 7.0, fmt="bed", one=False)
    lit["str"] = attempt(bins, "5", 7)
    for k, v in lit.items():
        record(f"bins.literal.{k}", v)


# ---------------------------------------------------------------------------------------------------------------------
# 2. bin stored on every interval at construction
# ---------------------------------------------------------------------------------------------------------------------
def describe_interval(obj):
    d = {
        "cls": type(obj).__name__,
        "bin": canon(getattr(obj, "bin", "<no bin>")),
        "start": getattr(obj, "start", None),
        "end": getattr(obj, "end", None),
        "genomic_start": getattr(obj, "genomic_start", None),
        "genomic_end": getattr(obj, "genomic_end", None),
        "str": str(obj),
        "repr": repr(obj),
        "guid": str(obj.guid),
        "to_dict": attempt(obj.to_dict),
        "chunk_relative_location": attempt(lambda: str(obj.chunk_relative_location)),
        "chromosome_location": attempt(lambda: str(obj.chromosome_location)),
    }
    if hasattr(obj, "iter_children"):
        d["children_bins"] = canon([getattr(c, "bin", "<no bin>") for c in obj.iter_children()])
    return canon(d)


def block_layouts():
    """(name, starts, ends) triples spread around bin boundaries of several levels."""
    out = []
    for base in (0, 1, 10, 131072 - 30, 131072, 1048576 - 25, 1048576, 8388608 - 13, 67108864 - 40, (1 << 29) - 60, 1 << 29):
        out.append((f"single@{base}", [base], [base + 18]))
        out.append((f"two@{base}", [base, base + 24], [base + 12, base + 48]))
        out.append((f"three@{base}", [base + 2, base + 20, base + 40], [base + 10, base + 30, base + 55]))
    out.append(("wide", [5, 200000, 1500000], [100, 200500, 1500900]))
    return out


def build_transcripts(starts, ends, strand, parent=None, coding=True, suffix=""):
    txs = []
    kwargs = dict(parent_or_seq_chunk_parent=parent)
    txs.append(
        TranscriptInterval(
            starts, ends, strand, transcript_id=f"tx_nc{suffix}", transcript_symbol="nc", qualifiers={"k": ["v"]}, **kwargs
        )
    )
    if coding:
        cds_starts = [starts[0] + 1] + starts[1:]
        cds_ends = ends[:-1] + [ends[-1] - 1]
        frames = [CDSFrame.ZERO] * len(starts)
        txs.append(
            TranscriptInterval(
                starts,
                ends,
                strand,
                cds_starts=cds_starts,
                cds_ends=cds_ends,
                cds_frames=frames,
                transcript_id=f"tx_c{suffix}",
                is_primary_tx=True,
                protein_id="p1",
                **kwargs,
            )
        )
    return txs


def sweep_constructors():
    for name, starts, ends in block_layouts():
        for strand in (Strand.PLUS, Strand.MINUS):
            key = f"ctor.{name}.{strand.name}"
            try:
                txs = build_transcripts(starts, ends, strand)
                for i, tx in enumerate(txs):
                    record(f"{key}.tx{i}", describe_interval(tx))
                gene = GeneInterval(txs, gene_id="g1", gene_symbol="sym", locus_tag="lt", qualifiers={"a": ["b"]})
                record(f"{key}.gene", describe_interval(gene))
                feat = FeatureInterval(
                    starts, ends, strand, feature_types=["promoter"], feature_name="f1", feature_id="fid", qualifiers={"q": [1]}
                )
                record(f"{key}.feat", describe_interval(feat))
                feat2 = FeatureInterval([starts[0] + 3], [ends[0] + 700], strand, feature_types=["tfbs"], feature_name="f2")
                fc = FeatureIntervalCollection([feat, feat2], feature_collection_name="fc", feature_collection_id="fcid")
                record(f"{key}.fc", describe_interval(fc))
                ac = AnnotationCollection(feature_collections=[fc], genes=[gene], name="ac", sequence_name="chr1")
                record(f"{key}.ac", describe_interval(ac))
                ac2 = AnnotationCollection(
                    feature_collections=[fc], genes=[gene], start=max(0, starts[0] - 1), end=ends[-1] + 2000
                )
                record(f"{key}.ac_explicit", describe_interval(ac2))
            except Exception as e:  # noqa: BLE001
                record(f"{key}.EXC", f"{type(e).__name__}: {e}")

    # variants
    for s, e in [(0, 1), (3, 5), (131071, 131073), (131072, 131080), (1048570, 1048580), ((1 << 29) - 1, (1 << 29) + 1)]:
        record(f"ctor.variant.{s}-{e}", attempt(lambda: describe_interval(VariantInterval(s, e, "ACGT", "mixed", variant_name="v"))))
    record("ctor.variant.empty", attempt(lambda: VariantInterval(5, 5, "A", "x")))
    vc = VariantIntervalCollection(
        [VariantInterval(131070, 131071, "G", "SNV"), VariantInterval(131072, 131075, "A", "deletion")],
        variant_collection_name="vc",
    )
    record("ctor.variant_collection", describe_interval(vc))
    record("ctor.variant_collection.has_bin", canon(hasattr(vc, "bin")))

    # empty collections: no bin is assigned
    empty = AnnotationCollection()
    record("ctor.ac.empty", canon([hasattr(empty, "bin"), str(empty.chunk_relative_location), repr(empty)]))
    empty2 = AnnotationCollection(start=131000, end=132000)
    record("ctor.ac.empty_bounds", canon([empty2.bin, empty2.start, empty2.end, repr(empty2)]))
    record("ctor.ac.only_start", attempt(lambda: AnnotationCollection(start=5)))
    record("ctor.ac.only_end", attempt(lambda: AnnotationCollection(end=5)))
    record("ctor.gene.empty", attempt(lambda: GeneInterval([])))
    record("ctor.fc.empty", attempt(lambda: FeatureIntervalCollection([])))

    # with sequence: chromosome parent and chunk parent
    genome = "ACGTTGCAAGCTAGCTAGGATCGATCGGATCGTAGCTAGCTAGGCTAGCTAGCTAGGATC" * 4
    for pname, parent_fn in (
        ("chrom", lambda: seq_to_parent(genome, seq_id="chrT")),
        ("chunk", lambda: seq_chunk_to_parent(genome[10:150], "chrT", 10, 150)),
        ("chunk_minus_free", lambda: seq_chunk_to_parent(genome[20:60], "chrT", 20, 60)),
    ):
        for strand in (Strand.PLUS, Strand.MINUS):
            key = f"ctor.seq.{pname}.{strand.name}"
            try:
                parent = parent_fn()
                txs = build_transcripts([12, 30, 50], [24, 42, 62], strand, parent=parent)
                for i, tx in enumerate(txs):
                    record(f"{key}.tx{i}", describe_interval(tx))
                    record(f"{key}.tx{i}.seq", attempt(lambda: str(tx.get_spliced_sequence())))
                gene = GeneInterval(txs, gene_id="gs", parent_or_seq_chunk_parent=parent_fn())
                record(f"{key}.gene", describe_interval(gene))
                feat = FeatureInterval([15, 70], [22, 90], strand, feature_name="fs", parent_or_seq_chunk_parent=parent_fn())
                record(f"{key}.feat", describe_interval(feat))
                fc = FeatureIntervalCollection([feat], feature_collection_id="fcs", parent_or_seq_chunk_parent=parent_fn())
                record(f"{key}.fc", describe_interval(fc))
                var = VariantInterval(100, 102, "TTT", "insertion", parent_or_seq_chunk_parent=parent_fn())
                record(f"{key}.var", describe_interval(var))
                vcol = VariantIntervalCollection([var], variant_collection_id="vcs", parent_or_seq_chunk_parent=parent_fn())
                ac = AnnotationCollection(
                    feature_collections=[fc],
                    genes=[gene],
                    variant_collections=[vcol],
                    sequence_name="chrT",
                    parent_or_seq_chunk_parent=parent_fn(),
                )
                record(f"{key}.ac", describe_interval(ac))
                record(f"{key}.ac.bounds", canon([ac.start, ac.end, ac.bin]))
            except Exception as e:  # noqa: BLE001
                record(f"{key}.EXC", f"{type(e).__name__}: {e}")


# ---------------------------------------------------------------------------------------------------------------------
# 3. bin pre-filter in range queries (and the sibling query functions sharing the partition logic)
# ---------------------------------------------------------------------------------------------------------------------
def describe_query_result(res):
    if isinstance(res, tuple):  # the private helpers return three lists
        return canon([[str(x) for x in lst] for lst in res])
    return canon(
        {
            "repr": repr(res),
            "start": getattr(res, "start", None),
            "end": getattr(res, "end", None),
            "bin": getattr(res, "bin", "<no bin>"),
            "completely_within": res.completely_within,
            "genes": [str(g.guid) for g in res.genes],
            "fcs": [str(g.guid) for g in res.feature_collections],
            "vcs": [str(g.guid) for g in res.variant_collections],
            "children": [str(c) for c in res.iter_children()],
            "loc": str(res.chunk_relative_location),
            "to_dict": attempt(res.to_dict),
        }
    )


def big_collection():
    """Children scattered on both sides of 128 kb / 1 Mb / 8 Mb bin boundaries; no sequence."""
    genes, fcs, vcs = [], [], []
    n = 0
    for base in (0, 5, 131072 - 30, 131072 + 10, 262144 - 5, 1048576 - 20, 1048576, 8388608 - 10, 8388608 + 300):
        for strand in (Strand.PLUS, Strand.MINUS):
            n += 1
            off = 0 if strand == Strand.PLUS else 7
            starts = [base + off, base + off + 24]
            ends = [base + off + 12, base + off + 48]
            txs = build_transcripts(starts, ends, strand, coding=(n % 3 != 0), suffix=str(n))
            genes.append(GeneInterval(txs, gene_id=f"g{n}", gene_symbol=f"s{n}"))
            feat = FeatureInterval(
                [base + off + 3, base + off + 60], [base + off + 9, base + off + 75], strand, feature_name=f"f{n}", feature_id=f"fid{n}"
            )
            fcs.append(FeatureIntervalCollection([feat], feature_collection_id=f"fc{n}"))
    vcs.append(
        VariantIntervalCollection(
            [VariantInterval(393215, 393217, "GG", "mnv"), VariantInterval(393230, 393231, "T", "SNV")],
            variant_collection_id="vc1",
        )
    )
    vcs.append(VariantIntervalCollection([VariantInterval(2097151, 2097153, "TA", "mnv")], variant_collection_id="vc2"))
    return AnnotationCollection(feature_collections=fcs, genes=genes, variant_collections=vcs, name="big", sequence_name="chrB")


def sweep_queries():
    ac = big_collection()
    record("query.big.describe", describe_interval(ac))
    points = sorted(
        {
            0, 1, 5, 12, 48, 60, 82, 100,
            131072 - 31, 131072 - 30, 131072 - 1, 131072, 131072 + 1, 131072 + 10, 131072 + 58, 131072 + 100,
            262144 - 5, 262144, 262144 + 77, 393215, 393216, 393231, 2097151, 2097152, 2097153, 1048576 - 20, 1048576, 1048576 + 55, 1048576 + 82,
            8388608 - 10, 8388608, 8388608 + 300, 8388608 + 382, ac.end,
        }
    )
    for cw in (True, False):
        for coding_only in (False, True):
            for s in points:
                for e in points:
                    if e < s:
                        continue
                    key = f"query.big.pos.{s}-{e}.cw={cw}.coding={coding_only}"
                    record(
                        key + ".private",
                        attempt(lambda: describe_query_result(ac._query_by_position(s, e, cw, coding_only))),
                    )
                    record(
                        key + ".public",
                        attempt(
                            lambda: describe_query_result(
                                ac.query_by_position(s, e, coding_only=coding_only, completely_within=cw)
                            )
                        ),
                    )
    # start / end defaults, error messages, expand flag
    record("query.big.pos.none", attempt(lambda: describe_query_result(ac.query_by_position())))
    record("query.big.pos.start_only", attempt(lambda: describe_query_result(ac.query_by_position(start=131072))))
    record("query.big.pos.end_only", attempt(lambda: describe_query_result(ac.query_by_position(end=131072))))
    record("query.big.pos.neg", attempt(lambda: ac.query_by_position(-1, 10)))
    record("query.big.pos.rev", attempt(lambda: ac.query_by_position(10, 5)))
    record("query.big.pos.zero", attempt(lambda: ac.query_by_position(10, 10)))
    # empty collections have no start / end attributes: the order of the validation checks is observable
    for args in [(), (-1, 5), (7, 5), (0, 5), (5, 5), (None, 5), (5, None)]:
        record(f"query.empty.pos.{args}", attempt(lambda: describe_query_result(AnnotationCollection().query_by_position(*args))))
        record(
            f"query.empty_bounds.pos.{args}",
            attempt(lambda: describe_query_result(AnnotationCollection(start=2, end=900).query_by_position(*args))),
        )
    record("query.empty.guids", attempt(lambda: describe_query_result(AnnotationCollection().query_by_guids([]))))
    record("query.big.pos.beyond", attempt(lambda: ac.query_by_position(10, ac.end + 1)))
    record(
        "query.big.pos.noexpand",
        attempt(
            lambda: describe_query_result(
                ac.query_by_position(131072, 131080, completely_within=False, expand_location_to_children=False)
            )
        ),
    )
    record("query.big.optimized", attempt(lambda: ac._optimized_query_by_position(0, 100, True, False)))

    # the cgranges-backed implementation, driven by a naive stand-in for the (not installed) cgranges package
    import inscripta.biocantor.gene.collections as collections_module

    class FakeCgranges:
        def __init__(self):
            self.rows = []

        def add(self, contig, start, end, label):
            self.rows.append((start, end, label))

        def index(self):
            self.rows.sort()

        def overlap(self, contig, start, end):
            for s_, e_, label in self.rows:
                if s_ < end and e_ > start:
                    yield s_, e_, label

    fake_module = types.ModuleType("cgranges")
    fake_module.cgranges = FakeCgranges
    had = collections_module.HAS_CGRANGES
    collections_module.HAS_CGRANGES = True
    collections_module.cgranges = fake_module
    try:
        ac_opt = big_collection()
        for cw in (True, False):
            for coding_only in (True, False):
                for s in points[::2]:
                    for e in points[1::3]:
                        if e <= s:
                            continue
                        key = f"query.big.optimized.{s}-{e}.cw={cw}.coding={coding_only}"
                        record(
                            key + ".private",
                            attempt(
                                lambda: describe_query_result(
                                    ac_opt._optimized_query_by_position(s, e, cw, coding_only)
                                )
                            ),
                        )
                        record(
                            key + ".public",
                            attempt(
                                lambda: describe_query_result(
                                    ac_opt.query_by_position(s, e, coding_only=coding_only, completely_within=cw)
                                )
                            ),
                        )
    finally:
        collections_module.HAS_CGRANGES = had
        del collections_module.cgranges

    # identifier / guid queries (share the child partition logic)
    gene_guids = [g.guid for g in ac.genes]
    fc_guids = [f.guid for f in ac.feature_collections]
    vc_guids = [v.guid for v in ac.variant_collections]
    tx_guids = [tx.guid for g in ac.genes for tx in g.transcripts]
    feat_guids = [f.guid for fc in ac.feature_collections for f in fc.feature_intervals]
    import uuid

    bogus = uuid.UUID(int=12345)
    record("query.big.guids.single", attempt(lambda: describe_query_result(ac.query_by_guids(gene_guids[3]))))
    record(
        "query.big.guids.mixed",
        attempt(
            lambda: describe_query_result(
                ac.query_by_guids([fc_guids[2], gene_guids[5], bogus, vc_guids[0], gene_guids[1], fc_guids[0]])
            )
        ),
    )
    record("query.big.guids.none", attempt(lambda: describe_query_result(ac.query_by_guids([bogus]))))
    record("query.big.guids.empty", attempt(lambda: describe_query_result(ac.query_by_guids([]))))
    record(
        "query.big.interval_guids",
        attempt(lambda: describe_query_result(ac.query_by_interval_guids([tx_guids[4], feat_guids[7], bogus]))),
    )
    record(
        "query.big.transcript_guids",
        attempt(lambda: describe_query_result(ac.query_by_transcript_interval_guids([tx_guids[0], tx_guids[9]]))),
    )
    record(
        "query.big.feature_ids",
        attempt(lambda: describe_query_result(ac.query_by_feature_identifiers(["g3", "fc4", "fid9", "nope"]))),
    )

    # collections carrying sequence (chromosome parent / chunk parent), both strands are in there
    genome = "ACGTTGCAAGCTAGCTAGGATCGATCGGATCGTAGCTAGCTAGGCTAGCTAGCTAGGATC" * 4
    for pname, parent_fn, lo, hi in (
        ("chrom", lambda: seq_to_parent(genome, seq_id="chrT"), 0, len(genome)),
        ("chunk", lambda: seq_chunk_to_parent(genome[10:150], "chrT", 10, 150), 10, 150),
    ):
        genes, fcs = [], []
        for i, (st, strand) in enumerate([(12, Strand.PLUS), (40, Strand.MINUS), (80, Strand.PLUS)]):
            txs = build_transcripts([st, st + 16], [st + 10, st + 30], strand, parent=parent_fn(), coding=(i != 1), suffix=f"q{i}")
            genes.append(GeneInterval(txs, gene_id=f"sg{i}", parent_or_seq_chunk_parent=parent_fn()))
            feat = FeatureInterval([st + 2], [st + 35], strand, feature_name=f"sf{i}", parent_or_seq_chunk_parent=parent_fn())
            fcs.append(FeatureIntervalCollection([feat], feature_collection_id=f"sfc{i}", parent_or_seq_chunk_parent=parent_fn()))
        acs = AnnotationCollection(
            feature_collections=fcs, genes=genes, sequence_name="chrT", parent_or_seq_chunk_parent=parent_fn()
        )
        record(f"query.{pname}.describe", describe_interval(acs))
        pts = [lo, lo + 1, 12, 14, 40, 42, 47, 70, 77, 80, 110, 115, 117, hi - 1, hi]
        for cw in (True, False):
            for coding_only in (False, True):
                for s in pts:
                    for e in pts:
                        if e < s:
                            continue
                        key = f"query.{pname}.pos.{s}-{e}.cw={cw}.coding={coding_only}"
                        record(
                            key + ".private",
                            attempt(lambda: describe_query_result(acs._query_by_position(s, e, cw, coding_only))),
                        )
                        record(
                            key + ".public",
                            attempt(
                                lambda: describe_query_result(
                                    acs.query_by_position(s, e, coding_only=coding_only, completely_within=cw)
                                )
                            ),
                        )
        record(f"query.{pname}.pos.default", attempt(lambda: describe_query_result(acs.query_by_position())))
        sub = acs.query_by_position(30, 100, completely_within=False)
        record(f"query.{pname}.requery", attempt(lambda: describe_query_result(sub.query_by_position(45, 75))))
        record(
            f"query.{pname}.seqs",
            canon([attempt(lambda: str(tx.get_spliced_sequence())) for g in sub.genes for tx in g.transcripts]),
        )


def main():
    mode, path = sys.argv[1], sys.argv[2]
    sweep_bins()
    sweep_constructors()
    sweep_queries()
    if mode == "record":
        with open(path, "w") as fh:
            json.dump(OBS, fh, indent=0, sort_keys=True)
        print(f"recorded {len(OBS)} observations -> {path}")
        n_exc = sum(1 for v in OBS.values() if v.startswith("EXC"))
        print(f"({n_exc} of them are exceptions)")
    else:
        with open(path) as fh:
            ref = json.load(fh)
        bad = [k for k in sorted(set(ref) | set(OBS)) if ref.get(k) != OBS.get(k)]
        print(f"compared {len(OBS)} observations against {len(ref)} recorded: {len(bad)} differences")
        for k in bad[:5]:
            print("DIFF", k)
            print("   pristine  :", str(ref.get(k))[:400])
            print("   refactored:", str(OBS.get(k))[:400])
        sys.exit(1 if bad else 0)


if __name__ == "__main__":
    main()
