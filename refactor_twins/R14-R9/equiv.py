"""
Equivalence script for the BED12 export refactoring.

Usage (from the worktree root):

    /venv/bin/python _refactor/R2/equiv.py dump /tmp/pristine.json      # on the pristine checkout
    git apply _refactor/R2/patch.diff
    /venv/bin/python _refactor/R2/equiv.py dump /tmp/patched.json       # on the refactored checkout
    /venv/bin/python _refactor/R2/equiv.py compare /tmp/pristine.json /tmp/patched.json

Every observation is a string (repr / str / exception type + message) so that the dumps can be compared verbatim.
"""
import itertools
import json
import os
import sys

sys.path.insert(0, os.getcwd())  # run from the worktree root: import the checkout that is being compared

import inscripta.biocantor.location  # noqa: F401  (must come first: circular import otherwise)
from inscripta.biocantor.gene.cds_frame import CDSFrame
from inscripta.biocantor.gene.feature import FeatureInterval, FeatureIntervalCollection
from inscripta.biocantor.gene.transcript import TranscriptInterval
from inscripta.biocantor.io.bed import BED3, BED6, BED12, RGB
from inscripta.biocantor.location.location_impl import SingleInterval
from inscripta.biocantor.location.strand import Strand
from inscripta.biocantor.parent.parent import Parent, SequenceType
from inscripta.biocantor.sequence.alphabet import Alphabet
from inscripta.biocantor.sequence.sequence import Sequence

GENOME = "ACGTTGCAAGGCTTAACCGGATATCGCGTTAACCGGTTAAGGCCTTAGCATCGATCGGATTACAGGCTA" * 2  # 138 nt


def seq_to_parent(seq, seq_id="chrT"):
    # copy of inscripta.biocantor.io.parser.seq_to_parent (that module cannot be imported here)
    return Parent(
        sequence=Sequence(seq, Alphabet.NT_EXTENDED_GAPPED, type=SequenceType.CHROMOSOME, id=seq_id),
        location=SingleInterval(0, len(seq), Strand.PLUS),
    )


def seq_chunk_to_parent(seq, sequence_name, start, end, strand=Strand.PLUS):
    # copy of inscripta.biocantor.io.parser.seq_chunk_to_parent
    chunk_id = f"{sequence_name}:{start}-{end}"
    return Parent(
        id=chunk_id,
        sequence=Sequence(
            seq,
            Alphabet.NT_EXTENDED_GAPPED,
            id=chunk_id,
            type=SequenceType.SEQUENCE_CHUNK,
            parent=Parent(
                location=SingleInterval(
                    start,
                    end,
                    strand,
                    parent=Parent(id=sequence_name, sequence_type=SequenceType.CHROMOSOME),
                )
            ),
        ),
    )


def observe(fn):
    """Run fn, returning a printable record of its value or of the exception it raised."""
    try:
        val = fn()
    except Exception as e:  # noqa
        return f"EXC {type(e).__name__}: {e}"
    return val


def bed_views(bed):
    return {
        "str": str(bed),
        "repr": repr(bed),
        "types": [type(x).__name__ for x in (bed.block_sizes, bed.block_starts, bed.block_count, bed.start, bed.end)],
    }


BLOCK_LAYOUTS = [
    ([2], [18]),
    ([10], [11]),
    ([2, 7, 12], [6, 10, 15]),
    ([5, 20, 40, 70], [12, 33, 55, 100]),
    ([0, 30], [25, 138]),
    ([3, 9], [9, 20]),  # adjacent blocks
    ([50, 60, 61, 90, 120], [55, 61, 80, 100, 130]),
]

# (cds_starts, cds_ends) candidates derived from the exons
def cds_variants(starts, ends):
    out = [None]
    # full-length CDS
    out.append((list(starts), list(ends)))
    # trimmed CDS: inside first and last exon
    if ends[0] - starts[0] > 2 and ends[-1] - starts[-1] > 2:
        s = list(starts)
        e = list(ends)
        s[0] += 1
        e[-1] -= 1
        out.append((s, e))
    # CDS restricted to one (the last) exon
    out.append(([starts[-1]], [ends[-1]]))
    # zero-length CDS (falsy CDSInterval)
    out.append(([starts[0]], [starts[0]]))
    return out


def parents():
    yield "none", None
    yield "chrom", seq_to_parent(GENOME)
    windows = [(0, 138), (0, 60), (1, 20), (4, 14), (8, 50), (35, 75), (58, 125), (101, 138), (134, 138), (11, 12)]
    for start, end in windows:
        yield f"chunk{start}-{end}", seq_chunk_to_parent(GENOME[start:end], "chrT", start, end)
    # a parent with neither chunk nor chromosome sequence type
    yield "plainparent", Parent(id="plain")


BED_ARG_SETS = [
    {},
    {"score": 500, "rgb": RGB(255, 0, 10), "name": "guid"},
    {"name": "verbatim name with\ttab"},
    {"name": "sequence_name", "score": None, "rgb": None},
    {"name": None},
]


def observe_interval(obj):
    rec = {}
    for crc in (True, False, 1, 0, None, "x"):
        for i, kwargs in enumerate(BED_ARG_SETS):
            key = f"bed[{crc!r}][{i}]"
            rec[key] = observe(lambda: bed_views(obj.to_bed12(chromosome_relative_coordinates=crc, **kwargs)))
    # positional calling convention
    rec["bed_positional"] = observe(lambda: bed_views(obj.to_bed12(7, RGB(1, 2, 3), "n", False)))
    for crc in (True, False):
        rec[f"dict[{crc}]"] = observe(lambda: repr(obj.to_dict(chromosome_relative_coordinates=crc)))
        rec[f"gff[{crc}]"] = observe(
            lambda: [str(r) for r in obj.to_gff(chromosome_relative_coordinates=crc)]
        )
        rec[f"gff_parent[{crc}]"] = observe(
            lambda: [
                str(r)
                for r in obj.to_gff(
                    parent="par",
                    parent_qualifiers={"k": {"v"}},
                    chromosome_relative_coordinates=crc,
                    raise_on_reserved_attributes=False,
                )
            ]
        )
    rec["len"] = observe(lambda: len(obj))
    rec["str"] = observe(lambda: str(obj))
    rec["repr"] = observe(lambda: repr(obj))
    rec["bool"] = observe(lambda: bool(obj))
    rec["strand_symbol"] = observe(lambda: obj.strand.to_symbol())
    return rec


def build_records():
    out = {}
    n = 0
    for (starts, ends), strand, (pname, parent) in itertools.product(
        BLOCK_LAYOUTS, (Strand.PLUS, Strand.MINUS, Strand.UNSTRANDED), parents()
    ):
        # features
        key = f"feat|{starts}|{ends}|{strand.name}|{pname}"

        def mk_feat():
            return FeatureInterval(
                list(starts),
                list(ends),
                strand,
                qualifiers={"q": ["a", "b"]},
                sequence_name="chrT" if n % 3 else None,
                feature_types=["tfbs"],
                feature_name=f"feat{n}" if n % 2 else None,
                feature_id=f"fid{n}",
                parent_or_seq_chunk_parent=parent,
            )

        feat = observe(mk_feat)
        out[key] = feat if isinstance(feat, str) else observe_interval(feat)
        n += 1

        if strand == Strand.UNSTRANDED:
            continue
        # transcripts
        for ci, cds in enumerate(cds_variants(starts, ends)):
            key = f"tx|{starts}|{ends}|{strand.name}|{pname}|cds{ci}"

            def mk_tx():
                kwargs = {}
                if cds is not None:
                    kwargs = dict(
                        cds_starts=list(cds[0]),
                        cds_ends=list(cds[1]),
                        cds_frames=[CDSFrame.ZERO] * len(cds[0]),
                    )
                return TranscriptInterval(
                    list(starts),
                    list(ends),
                    strand,
                    qualifiers={"q": ["a"]},
                    transcript_id=f"tid{n}",
                    transcript_symbol=f"sym{n}" if n % 2 else None,
                    sequence_name="chrT" if n % 5 else None,
                    protein_id="prot",
                    parent_or_seq_chunk_parent=parent,
                    **kwargs,
                )

            tx = observe(mk_tx)
            out[key] = tx if isinstance(tx, str) else observe_interval(tx)
            n += 1

    # feature collections (merged feature goes through to_bed12 as well)
    for pname, parent in parents():
        def mk_coll():
            feats = [
                FeatureInterval([2, 30], [10, 44], Strand.PLUS, feature_name="a", parent_or_seq_chunk_parent=parent),
                FeatureInterval([8], [35], Strand.PLUS, feature_name="b", parent_or_seq_chunk_parent=parent),
                FeatureInterval([50, 70], [60, 90], Strand.PLUS, feature_id="c", parent_or_seq_chunk_parent=parent),
            ]
            return FeatureIntervalCollection(
                feats,
                feature_collection_name="coll",
                sequence_name="chrT",
                parent_or_seq_chunk_parent=parent,
            )

        coll = observe(mk_coll)
        key = f"coll|{pname}"
        if isinstance(coll, str):
            out[key] = coll
            continue
        rec = {}
        rec["merged"] = observe(lambda: observe_interval(coll.get_merged_feature()))
        for crc in (True, False):
            rec[f"gff[{crc}]"] = observe(lambda: [str(r) for r in coll.to_gff(chromosome_relative_coordinates=crc)])
            rec[f"dict[{crc}]"] = observe(lambda: repr(coll.to_dict(chromosome_relative_coordinates=crc)))
        rec["children_bed"] = [observe(lambda: bed_views(f.to_bed12())) for f in coll]
        out[key] = rec

    # raw BED / RGB dataclasses, including unusual field values
    raw = {}
    rgbs = [RGB(), RGB(1, 2, 3), RGB(255, 255, 255), RGB("a", None, 2.5), RGB([1, 2], (3,), {"k": 1})]
    for i, rgb in enumerate(rgbs):
        raw[f"rgb{i}"] = [str(rgb), repr(rgb)]
    bed3s = [BED3("chr1", 0, 10), BED3(None, None, None), BED3("c,d", 5, [1, 2])]
    for i, b in enumerate(bed3s):
        raw[f"bed3_{i}"] = [observe(lambda: str(b)), repr(b)]
    for i, strand in enumerate([Strand.PLUS, Strand.MINUS, Strand.UNSTRANDED, None, "+"]):
        b6 = BED6("chr1", 1, 20, "nm", 3, strand)
        raw[f"bed6_{i}"] = [observe(lambda: str(b6)), repr(b6)]
        for j, (sizes, starts_) in enumerate([([5], [0]), ([1, 2, 3], [0, 4, 9]), ([], []), ((4, 5), (0, 9)), (None, [0])]):
            b12 = BED12("chr2", 1, 20, None, 0, strand, 4, 12, rgbs[(i + j) % len(rgbs)], len(sizes or []), sizes, starts_)
            raw[f"bed12_{i}_{j}"] = [observe(lambda: str(b12)), repr(b12), observe(lambda: b12 == b12)]
    raw["bed12_eq"] = repr(
        BED12("c", 1, 2, "n", 0, Strand.PLUS, 0, 0, RGB(), 1, [1], [0])
        == BED12("c", 1, 2, "n", 0, Strand.PLUS, 0, 0, RGB(), 1, [1], [0])
    )
    raw["strand_symbols"] = [[s.name, s.to_symbol(), str(s), repr(Strand.from_symbol(s.to_symbol()))] for s in Strand]
    out["raw"] = raw
    return out


def main():
    mode = sys.argv[1]
    if mode == "dump":
        records = build_records()
        with open(sys.argv[2], "w") as fh:
            json.dump(records, fh, indent=1, sort_keys=True, default=repr)
        n_bed = sum(
            1 for rec in records.values() if isinstance(rec, dict) for k in rec if k.startswith("bed")
        )
        print(f"dumped {len(records)} records ({n_bed} to_bed12 observations) to {sys.argv[2]}")
    elif mode == "compare":
        with open(sys.argv[2]) as fh:
            a = json.load(fh)
        with open(sys.argv[3]) as fh:
            b = json.load(fh)
        bad = [k for k in sorted(set(a) | set(b)) if a.get(k) != b.get(k)]
        for k in bad[:20]:
            print("DIFF", k)
            ra, rb = a.get(k), b.get(k)
            if isinstance(ra, dict) and isinstance(rb, dict):
                for kk in sorted(set(ra) | set(rb)):
                    if ra.get(kk) != rb.get(kk):
                        print("   ", kk, "\n      A:", ra.get(kk), "\n      B:", rb.get(kk))
            else:
                print("   A:", ra, "\n   B:", rb)
        print(f"{len(a)} vs {len(b)} records, {len(bad)} differ")
        sys.exit(1 if bad else 0)
    else:
        raise SystemExit("usage: equiv.py dump OUT.json | compare A.json B.json")


if __name__ == "__main__":
    main()
