"""
Equivalence script for the qualifier / identifier extraction refactoring.

Usage (from the worktree root, /tmp/wt/T18):

    /venv/bin/python _refactor/R2/equiv.py dump /tmp/t18_pristine.json      # on the pristine checkout
    git apply _refactor/R2/patch.diff
    /venv/bin/python _refactor/R2/equiv.py dump /tmp/t18_patched.json
    /venv/bin/python _refactor/R2/equiv.py compare /tmp/t18_pristine.json /tmp/t18_patched.json
    git apply -R _refactor/R2/patch.diff

The script re-executes itself with PYTHONHASHSEED=0 so that even the *iteration order* of the value sets returned by
``export_qualifiers`` / ``_merge_qualifiers`` is comparable between the two runs.

``_refactor/compat_shim.py`` only adapts third party APIs (marshmallow 4, Biopython 1.88, absent PyVCF) so that
``io.models`` and the parsers can be imported in this environment; it does not touch the library.
"""
import itertools
import json
import os
import random
import sys
import warnings
from pathlib import Path

HERE = Path(__file__).resolve().parent
ROOT = HERE.parent.parent
DATA = ROOT / "tests" / "data"

if os.environ.get("PYTHONHASHSEED") != "0":
    os.environ["PYTHONHASHSEED"] = "0"
    os.execv(sys.executable, [sys.executable] + sys.argv)

sys.path.insert(0, str(ROOT))
sys.path.insert(0, str(HERE.parent))

import compat_shim  # noqa: E402,F401

import inscripta.biocantor.location  # noqa: E402,F401  (must come first: circular import otherwise)
from inscripta.biocantor.location import Strand  # noqa: E402
from inscripta.biocantor.io.features import (  # noqa: E402
    extract_feature_name_id,
    extract_feature_types,
    merge_qualifiers,
)
from inscripta.biocantor.gene.feature import FeatureInterval, FeatureIntervalCollection  # noqa: E402
from inscripta.biocantor.gene.transcript import TranscriptInterval  # noqa: E402
from inscripta.biocantor.gene.gene import GeneInterval  # noqa: E402
from inscripta.biocantor.gene.cds import CDSInterval  # noqa: E402
from inscripta.biocantor.gene.cds_frame import CDSFrame  # noqa: E402
from inscripta.biocantor.gene.biotype import Biotype  # noqa: E402
from inscripta.biocantor.io.models import AnnotationCollectionModel  # noqa: E402
from inscripta.biocantor.io.parser import seq_to_parent, seq_chunk_to_parent  # noqa: E402
from inscripta.biocantor.io.genbank import parser as gbp  # noqa: E402
from inscripta.biocantor.io.genbank.constants import GenBankParserType  # noqa: E402
from inscripta.biocantor.io.gff3 import parser as gffp  # noqa: E402
from Bio import SeqIO  # noqa: E402
import gffutils  # noqa: E402


def canon(obj):
    """JSON-able canonical form that keeps dict key order and set iteration order."""
    if isinstance(obj, dict):
        return {"__dict__": [[canon(k), canon(v)] for k, v in obj.items()], "__type__": type(obj).__name__}
    if isinstance(obj, (set, frozenset)):
        return {"__set_in_iteration_order__": [canon(x) for x in obj]}
    if isinstance(obj, (list, tuple)):
        return {"__seq__": [canon(x) for x in obj], "__type__": type(obj).__name__}
    if isinstance(obj, (str, int, float, bool)) or obj is None:
        return obj
    return repr(obj)


def call(fn, *args, **kwargs):
    """Run fn, capturing result, exception (type + message) and warnings (category + message, in order)."""
    with warnings.catch_warnings(record=True) as caught:
        warnings.simplefilter("always")
        try:
            result = {"ok": canon(fn(*args, **kwargs))}
        except Exception as e:  # noqa
            result = {"exc": [type(e).__name__, str(e)]}
    result["warnings"] = [[w.category.__name__, str(w.message)] for w in caught]
    return result


# ----------------------------------------------------------------------------------------------------------------------
# 1. extract_feature_name_id / extract_feature_types / merge_qualifiers / filter_and_sort_qualifiers
# ----------------------------------------------------------------------------------------------------------------------
NAME_KEYS = ["feature_name", "standard_name", "name", "gene", "gene_name", "label", "operon"]
ID_KEYS = ["feature_id", "id"]
LOOKALIKE = [
    "Gene",
    "GENE",
    "Name",
    "ID",
    "Feature_ID",
    "FEATURE_NAME",
    "gene_",
    "xgene",
    "names",
    "gene_names",
    "idx",
    "feature_id2",
    "locus_tag",
    "note",
    "gene_synonym",
    "ſtandard_name",  # long s: matches case-insensitively, and upper() gives STANDARD_NAME
    "ıd",  # dotless i
]
BAD_KEYS = ["gene\n", "id\n", "İd"]


def name_id_cases():
    rng = random.Random(18)
    cases = []
    pool = NAME_KEYS + ID_KEYS + LOOKALIKE
    # every ordered pair and a large sample of ordered triples / longer orderings, distinct values
    for n in (1, 2):
        for keys in itertools.permutations(pool, n):
            cases.append({k: [f"v_{k}_{i}"] for i, k in enumerate(keys)})
    for keys in itertools.permutations(NAME_KEYS + ID_KEYS, 3):
        cases.append({k: [f"v_{k}"] for k in keys})
    for _ in range(1500):
        keys = rng.sample(pool, rng.randint(3, len(pool)))
        cases.append({k: [f"v_{k}", f"w_{k}"][: rng.randint(1, 2)] for k in keys})
    # all orderings of the full recognised name set with the two ID keys interleaved at random
    for keys in itertools.islice(itertools.permutations(NAME_KEYS), 0, 5040, 7):
        keys = list(keys)
        for idk in ID_KEYS:
            keys.insert(rng.randint(0, len(keys)), idk)
        cases.append({k: [f"v_{k}"] for k in keys})
    # note fallback
    for note in (["(foo) bar"], ["foo."], [""], ["   "], [], ["...", "x"], ["a b"], ["'quoted' text"]):
        cases.append({"note": note})
        cases.append({"note": note, "gene": ["g"]})
        cases.append({"note": note, "id": ["i"]})
        cases.append({"locus_tag": ["x"], "note": note})
        cases.append({"note": note, "gene": [""]})
        cases.append({"note": note, "gene": [""], "id": [""]})
    # empty values / falsy values / exceptions
    cases.append({})
    cases.append({"gene": []})
    cases.append({"feature_name": ["a"], "gene": []})
    cases.append({"gene": ["a"], "feature_name": []})
    cases.append({"id": [], "gene": ["a"]})
    cases.append({"feature_id": ["a"], "id": []})
    cases.append({"id": ["a"], "feature_id": []})
    cases.append({"gene": "string_value"})
    cases.append({"gene": ("t1", "t2")})
    cases.append({"gene": None})
    cases.append({"gene": [None], "note": ["n"]})
    cases.append({"gene": [0], "id": [0], "note": ["n"]})
    for bad in BAD_KEYS:
        cases.append({bad: ["x"]})
        cases.append({"gene": ["a"], bad: ["x"], "id": ["b"]})
        cases.append({bad: ["x"], "gene": ["a"]})
    cases.append({"gene\n": ["x"], "id\n": ["y"]})
    cases.append({"id\n": ["y"], "gene\n": ["x"]})
    cases.append({1: ["x"]})
    cases.append({"gene": ["a"], 1: ["x"]})
    cases.append({"gene": ["a"], "GENE": ["b"], "Gene": ["c"]})
    cases.append({"GENE": ["b"], "gene": ["a"]})
    cases.append({"feature_name": ["a"], "FEATURE_NAME": ["b"]})
    cases.append({"feature_id": ["a"], "FEATURE_ID": ["b"], "Feature_Id": ["c"]})
    return cases


def type_cases():
    rng = random.Random(181)
    keys = [
        "gbkey",
        "GBKEY",
        "feature_class",
        "ncRNA_class",
        "_class",
        "class",
        "my_type",
        "Type",
        "_TYPE",
        "mol_type",
        "regulatory_class",
        "gene",
        "note",
        "xgbkeyx",
        "type",
    ]
    cases = []
    for n in (1, 2):
        for ks in itertools.permutations(keys, n):
            cases.append(({"base"}, {k: [f"t_{k}", "shared"] for k in ks}))
    for _ in range(300):
        ks = rng.sample(keys, rng.randint(0, len(keys)))
        cases.append((set(rng.sample(["a", "b", "c"], rng.randint(0, 3))), {k: [f"t_{k}"] * rng.randint(0, 2) for k in ks}))
    # failure cases: the partially updated set is observable by the caller
    cases.append(({"base"}, {"gbkey": ["x"], "feature_class": None, "my_type": ["y"]}))
    cases.append(({"base"}, {"gbkey": ["x"], 5: ["z"], "my_type": ["y"]}))
    cases.append(({"base"}, {"gbkey": "string"}))
    cases.append(({"base"}, {"gbkey": [["unhashable"]], "my_type": ["y"]}))
    return cases


def run_extract_types(types, qualifiers):
    types = set(types)
    res = call(extract_feature_types, types, qualifiers)
    res["set_after"] = sorted(map(repr, types))
    return res


def merge_cases():
    rng = random.Random(1818)
    keys = ["a", "b", "c", "gene", "note", "ID", 1, 2, (1, 2), None, 1.5]
    vals = ["x", "y", "z", "10", "9", "A", "a", ""]
    cases = []
    for _ in range(400):
        d1 = {k: rng.choices(vals, k=rng.randint(0, 4)) for k in rng.sample(keys, rng.randint(0, 6))}
        d2 = {k: rng.choices(vals, k=rng.randint(0, 4)) for k in rng.sample(keys, rng.randint(0, 6))}
        cases.append((d1, d2))
    cases.append(({"a": "xyz"}, {"a": ("p", "q")}))
    cases.append(({"a": {"s1", "s2"}}, {"a": frozenset({"s3"})}))
    cases.append(({"a": [1, "1"]}, {}))  # unsortable
    cases.append(({"a": None}, {}))
    cases.append(({}, {"a": ["x"], "b": 3}))
    return cases


def filter_cases():
    rng = random.Random(18181)
    keys = [
        "gene_id",
        "Gene_ID",
        "GENE_ID",
        "gene_name",
        "gene_biotype",
        "transcript_id",
        "transcript_name",
        "transcript_biotype",
        "protein_id",
        "product",
        "feature_id",
        "feature_name",
        "feature_type",
        "locus_tag",
        "LOCUS_TAG",
        "gene_symbol",
        "gene_type",
        "feature_symbol",
        "ID",
        "Name",
        "Parent",
        "note",
        "gene_idx",
        "my_product",
        "product2",
        "gbkey",
        "Dbxref",
    ]
    vals = ["x", "y", "z", "10", "9", "A", "a"]
    cases = [{}]
    for k in keys:
        cases.append({k: ["b", "a"]})
    for _ in range(300):
        cases.append({k: rng.choices(vals, k=rng.randint(0, 4)) for k in rng.sample(keys, rng.randint(0, 10))})
    cases.append({"note": None})
    cases.append({1: ["a"]})
    cases.append({"note": [1, "a"]})
    return cases


# ----------------------------------------------------------------------------------------------------------------------
# 2. interval objects: _import / _export / _merge_qualifiers / export_qualifiers / to_gff / to_dict
# ----------------------------------------------------------------------------------------------------------------------
GENOME = "ACGTTGCAAGGCTTAACCGGTTAGCATCGATCGGATTACAGCTAGCTAGGATCGATCGACTAGCATGCAT" * 3


def parents():
    yield "none", None
    yield "seq", seq_to_parent(GENOME)
    yield "chunk", seq_chunk_to_parent(GENOME[5:150], "chr_t18", 5, 150)
    yield "chunk_small", seq_chunk_to_parent(GENOME[12:60], "chr_t18", 12, 60)


QUAL_SETS = [
    None,
    {},
    {"note": ["b", "a", "b"], "gene": ["g1"]},
    {"feature_name": ["zz", "aa"], "feature_id": ["q"], "transcript_id": ["t9"], "protein_id": ["p0"], "k7": [1, 2, "2"]},
    {"gene_id": ["G"], "gene_name": ["N", "M"], "locus_tag": ["L"], "gene_biotype": ["x"], "product": ["pp", "oo"]},
    {"feature_type": ["old"], "feature_collection_id": ["c1"], "feature_collection_type": ["ct"], "k": [True, 1.5]},
    {7: ["int key"], 8: ["other int key", "a"]},
]
PARENT_QUALS = [
    None,
    {},
    {"note": {"c", "a"}, "new": {"n1", "n0"}},
    {"feature_name": {"pn"}, "transcript_id": {"pt"}, "gene_id": {"pg"}, "k7": {"2", "3"}, "product": ["lst", "abc"]},
    {7: {"2", "3"}, "note": {"z"}},
]


def obj_record(obj, with_parent_quals=True):
    out = {"str": str(obj)}
    out["qualifiers"] = call(lambda: obj.qualifiers)
    out["export_list"] = call(obj._export_qualifiers_to_list)
    out["to_dict"] = call(obj.to_dict)
    if with_parent_quals:
        for i, pq in enumerate(PARENT_QUALS):
            # snapshot the caller's dictionary before and after: the merge must not alias / mutate it
            before = canon(pq)
            own_before = canon(obj.qualifiers)
            out[f"export_qualifiers_{i}"] = call(obj.export_qualifiers, pq)
            if hasattr(obj, "_merge_qualifiers"):
                out[f"_merge_qualifiers_{i}"] = call(obj._merge_qualifiers, pq)
                merged = obj._merge_qualifiers(pq)
                for v in merged.values():
                    v.add("__mutated__")
                out[f"alias_check_{i}"] = [canon(pq), canon(obj.qualifiers)]
            out[f"parent_quals_untouched_{i}"] = [before == canon(pq), own_before == canon(obj.qualifiers)]
            out[f"to_gff_{i}"] = call(lambda: [str(r) for r in obj.to_gff(parent="PARENT", parent_qualifiers=pq)])
    else:
        out["export_qualifiers"] = call(obj.export_qualifiers)
        out["to_gff"] = call(lambda: [str(r) for r in obj.to_gff()])
        out["to_gff_chunk"] = call(lambda: [str(r) for r in obj.to_gff(chromosome_relative_coordinates=False)])
    return out


def interval_objects():
    results = {}
    for pname, parent in parents():
        for strand in (Strand.PLUS, Strand.MINUS):
            for qi, quals in enumerate(QUAL_SETS):
                tag = f"{pname}/{strand.name}/q{qi}"

                def mk_feature(**kw):
                    return FeatureInterval(
                        [14, 30, 48],
                        [22, 41, 57],
                        strand,
                        qualifiers=quals,
                        parent_or_seq_chunk_parent=parent,
                        sequence_name="chr_t18",
                        **kw,
                    )

                def mk_tx(**kw):
                    return TranscriptInterval(
                        [14, 30, 48],
                        [22, 41, 57],
                        strand,
                        cds_starts=[16, 30, 48],
                        cds_ends=[22, 41, 52],
                        cds_frames=[CDSFrame.ZERO, CDSFrame.ZERO, CDSFrame.TWO],
                        qualifiers=quals,
                        parent_or_seq_chunk_parent=parent,
                        sequence_name="chr_t18",
                        **kw,
                    )

                feats = {
                    "feat_plain": lambda: mk_feature(),
                    "feat_named": lambda: mk_feature(
                        feature_name="fname", feature_id="fid", feature_types=["t2", "t1"], is_primary_feature=True
                    ),
                    "feat_empty_names": lambda: mk_feature(feature_name="", feature_id="", feature_types=[]),
                    "tx_plain": lambda: mk_tx(),
                    "tx_named": lambda: mk_tx(
                        transcript_id="tid",
                        transcript_symbol="tsym",
                        transcript_type=Biotype.protein_coding,
                        protein_id="prot",
                        product="prod",
                    ),
                    "tx_noncoding": lambda: TranscriptInterval(
                        [14, 30],
                        [22, 41],
                        strand,
                        qualifiers=quals,
                        transcript_type=Biotype.ncRNA,
                        transcript_id="nc1",
                        parent_or_seq_chunk_parent=parent,
                    ),
                }
                for name, mk in feats.items():
                    try:
                        obj = mk()
                    except Exception as e:  # noqa
                        results[f"{tag}/{name}"] = {"ctor_exc": [type(e).__name__, str(e)]}
                        continue
                    results[f"{tag}/{name}"] = obj_record(obj)
                    if name.startswith("tx") and name != "tx_noncoding":
                        try:
                            cds = obj.cds
                            cds.protein_id, cds.product = obj.protein_id, obj.product
                            results[f"{tag}/{name}/cds"] = {
                                "export": [call(cds.export_qualifiers, pq) for pq in PARENT_QUALS],
                                "to_gff": [
                                    call(lambda pq=pq: [str(r) for r in cds.to_gff(parent="P", parent_qualifiers=pq)])
                                    for pq in PARENT_QUALS
                                ],
                            }
                        except Exception as e:  # noqa
                            results[f"{tag}/{name}/cds"] = {"exc": [type(e).__name__, str(e)]}

                # collections
                def mk_gene():
                    return GeneInterval(
                        [mk_tx(transcript_id="t1"), mk_tx(transcript_id="t2", transcript_type=Biotype.protein_coding)],
                        gene_id="gid",
                        gene_symbol="gsym",
                        gene_type=Biotype.protein_coding,
                        locus_tag="ltag",
                        qualifiers=quals,
                        sequence_name="chr_t18",
                        parent_or_seq_chunk_parent=parent,
                    )

                def mk_gene_bare():
                    return GeneInterval([mk_tx()], qualifiers=quals, parent_or_seq_chunk_parent=parent)

                def mk_coll():
                    return FeatureIntervalCollection(
                        [mk_feature(feature_name="a", feature_types=["x"]), mk_feature(feature_id="b")],
                        feature_collection_name="cname",
                        feature_collection_id="cid",
                        feature_collection_type="ctype",
                        locus_tag="ltag",
                        qualifiers=quals,
                        sequence_name="chr_t18",
                        parent_or_seq_chunk_parent=parent,
                    )

                def mk_coll_bare():
                    return FeatureIntervalCollection(
                        [mk_feature()], qualifiers=quals, parent_or_seq_chunk_parent=parent
                    )

                for name, mk in {
                    "gene": mk_gene,
                    "gene_bare": mk_gene_bare,
                    "coll": mk_coll,
                    "coll_bare": mk_coll_bare,
                }.items():
                    try:
                        obj = mk()
                    except Exception as e:  # noqa
                        results[f"{tag}/{name}"] = {"ctor_exc": [type(e).__name__, str(e)]}
                        continue
                    results[f"{tag}/{name}"] = obj_record(obj, with_parent_quals=False)

    # invalid qualifier containers
    for bad in ([("a", ["b"])], {"a": "b"}, {"a": ("b",)}, {"a": {"b"}}, "abc", 5):
        results[f"bad_qualifiers/{bad!r}"] = call(
            lambda: FeatureInterval([1], [5], Strand.PLUS, qualifiers=bad).to_dict()
        )
    return results


# ----------------------------------------------------------------------------------------------------------------------
# 3. GenBank parsing (all parser types, all data files, record permutations)
# ----------------------------------------------------------------------------------------------------------------------
def dump_annotation(rec):
    return AnnotationCollectionModel.Schema().dump(rec.annotation)


def genbank_files():
    return sorted(p for p in DATA.iterdir() if p.suffix in (".gb", ".gbk", ".gbff"))


def run_parse_genbank(path, gbk_type):
    def go():
        out = []
        for rec in gbp.parse_genbank(str(path), gbk_type=gbk_type):
            out.append(dump_annotation(rec))
            try:
                ac = rec.to_annotation_collection()
                out.append(ac.to_dict())
                out.append([[str(r) for r in g.to_gff()] for g in ac.genes[:5]])
                out.append([[str(r) for r in fc.to_gff()] for fc in ac.feature_collections[:5]])
            except Exception as e:  # noqa
                out.append(["to_annotation_collection failed", type(e).__name__, str(e)])
        return out

    return call(go)


def run_parser_stages(parser_cls, seq_records):
    """Drive the parser step by step so that the intermediate groupings are compared too."""

    def go():
        parser = parser_cls(
            seq_records, None, gbp.GeneFeature.to_gene_model, gbp.FeatureIntervalGenBankCollection.to_feature_model
        )
        try:
            final = [dump_annotation(rec) for rec in parser.parse()]
        except Exception as e:  # noqa
            # keep going: the intermediate state reached before the failure is compared as well
            final = ["parse() raised", type(e).__name__, str(e)]
        return {
            "sources": [repr(s) for s in parser.sources],
            "gene_filtered_features": [[repr(f) for f in fs] for fs in parser.gene_filtered_features],
            "without_locus_tag": [
                [repr(f) for f in fs] for fs in getattr(parser, "gene_filtered_features_without_locus_tag", [])
            ],
            "feature_features": [[repr(f) for f in fs] for fs in parser.feature_features],
            "grouped": [
                [
                    [repr(g.gene_feature), [repr(t) for t in g.transcript_features], [repr(c) for c in g.cds_features]]
                    for g in gs
                ]
                for gs in parser.grouped_gene_features
            ],
            "genes": [[repr(g) for g in gs] for gs in parser.genes],
            "feature_collections": [
                [[sorted(fc.types), [repr(f) for f in fc._seq_features]] for fc in fcs]
                for fcs in parser.feature_collections
            ],
            "num": [parser.num_genes, parser.num_feature_collections],
            "final": final,
        }

    return call(go)


SYNTHETIC_TYPES = [
    "gene",
    "gene",
    "mRNA",
    "CDS",
    "CDS",
    "tRNA",
    "ncRNA",
    "exon",
    "misc_feature",
    "source",
    "repeat_region",
    "regulatory",
]
SYNTHETIC_QUALIFIER_KEYS = [
    "gene",
    "feature_name",
    "standard_name",
    "name",
    "label",
    "operon",
    "id",
    "feature_id",
    "ID",
    "Name",
    "note",
    "gbkey",
    "regulatory_class",
    "product",
    "pseudo",
    "codon_start",
    "gene_id",
    "protein_id",
    "transcript_id",
]


def synthetic_seqrecords(seed):
    """Hand-built records: unknown member types (exon), several source features, duplicated gene features per locus
    tag, features without a locus tag, unstranded / mixed-strand features, non-gene features sharing a locus tag."""
    from Bio.Seq import Seq
    from Bio.SeqFeature import SeqFeature, SimpleLocation, CompoundLocation
    from Bio.SeqRecord import SeqRecord

    rng = random.Random(seed)
    records = []
    for r in range(rng.randint(1, 3)):
        seq = "".join(rng.choice("ACGT") for _ in range(600))
        rec = SeqRecord(Seq(seq), id=f"synthetic_{seed}_{r}", annotations={"molecule_type": "DNA"})
        tags = [f"LT{i}" for i in range(rng.randint(1, 5))]
        allow_dup_gene = rng.random() < 0.25
        genes_seen = set()
        for _ in range(rng.randint(2, 18)):
            ftype = rng.choice(SYNTHETIC_TYPES)
            strand = rng.choice([1, 1, 1, -1, -1, None]) if rng.random() < 0.1 else rng.choice([1, -1])
            start = rng.randrange(0, 500, 3)
            if rng.random() < 0.3:
                mid = start + 3 * rng.randint(1, 5)
                start2 = mid + 3 * rng.randint(1, 5)
                parts = [SimpleLocation(start, mid, strand), SimpleLocation(start2, start2 + 3 * rng.randint(1, 6), strand)]
                if strand == -1:
                    parts.reverse()
                if rng.random() < 0.05:
                    parts[1] = SimpleLocation(int(parts[1].start), int(parts[1].end), -strand if strand else 1)
                location = CompoundLocation(parts)
            else:
                location = SimpleLocation(start, start + 3 * rng.randint(1, 20), strand)
            qualifiers = {}
            if rng.random() < 0.75:
                tag = rng.choice(tags)
                if ftype == "gene" and tag in genes_seen and not allow_dup_gene:
                    ftype = "CDS"
                if ftype == "gene":
                    genes_seen.add(tag)
                qualifiers["locus_tag"] = [tag] if rng.random() < 0.9 else [tag, "extra_" + tag]
            keys = rng.sample(SYNTHETIC_QUALIFIER_KEYS, rng.randint(0, 5))
            for k in keys:
                qualifiers[k] = ["1"] if k == "codon_start" else [f"{k}_{rng.randint(0, 3)}"] * rng.randint(1, 2)
            rec.features.append(SeqFeature(location, type=ftype, qualifiers=qualifiers))
        records.append(rec)
    return records


def genbank_section():
    results = {}
    for seed in range(60):
        for cls in (gbp.LocusTagGenBankParser, gbp.SortedGenBankParser, gbp.HybridGenBankParser):
            results[f"synthetic/{seed}/{cls.__name__}"] = run_parser_stages(cls, synthetic_seqrecords(seed))
    first_id = next(SeqIO.parse(str(DATA / "INSC1003.gbk"), format="genbank")).id
    for pv_name, pv in {"unknown_seq": {"not_a_sequence": []}, "known_seq": {first_id: []}, "empty": {}}.items():

        def with_variants(pv=pv):
            return [dump_annotation(r) for r in gbp.parse_genbank(str(DATA / "INSC1003.gbk"), parsed_variants=pv)]

        results[f"parse_genbank/parsed_variants/{pv_name}"] = call(with_variants)
    for path in genbank_files():
        for gbk_type in GenBankParserType:
            results[f"parse_genbank/{path.name}/{gbk_type.name}"] = run_parse_genbank(path, gbk_type)
        # unrecognised parser type values fall through to the locus tag parser
        results[f"parse_genbank/{path.name}/type=2int"] = run_parse_genbank(path, 2)
    for weird in (None, "HYBRID", 1.0, 3, 99, [1]):
        results[f"parse_genbank/weird_type/{weird!r}"] = run_parse_genbank(DATA / "INSC1003.gbk", weird)

    # record permutations, driven through the classes
    rng = random.Random(42)
    for path in genbank_files():
        try:
            with warnings.catch_warnings():
                warnings.simplefilter("ignore")
                base_records = list(SeqIO.parse(str(path), format="genbank"))
        except Exception as e:  # noqa
            results[f"stages/{path.name}"] = {"seqio_exc": [type(e).__name__, str(e)]}
            continue
        for perm in range(4):
            with warnings.catch_warnings():
                warnings.simplefilter("ignore")
                seq_records = list(SeqIO.parse(str(path), format="genbank"))
            for rec in seq_records:
                if perm == 1:
                    rec.features.reverse()
                elif perm > 1:
                    rng.shuffle(rec.features)
            for cls in (gbp.LocusTagGenBankParser, gbp.SortedGenBankParser, gbp.HybridGenBankParser):
                # each parser mutates nothing on the records, but use a fresh parse per class to be safe
                results[f"stages/{path.name}/perm{perm}/{cls.__name__}"] = run_parser_stages(cls, seq_records)
        del base_records
    return results


# ----------------------------------------------------------------------------------------------------------------------
# 4. GFF3 parsing
# ----------------------------------------------------------------------------------------------------------------------
def gff_files():
    return sorted(p for p in DATA.iterdir() if p.suffix in (".gff", ".gff3"))


def gff3_section():
    results = {}
    for path in gff_files():

        def go(path=path):
            out = []
            for rec in gffp.parse_standard_gff3(path):
                out.append(dump_annotation(rec))
            return out

        results[f"parse_standard_gff3/{path.name}"] = call(go)

        def low_level(path=path):
            db = gffutils.create_db(str(path), ":memory:", merge_strategy="create_unique")
            chroms = [x["seqid"] for x in db.execute("SELECT DISTINCT seqid FROM features")]
            non_gene = gffp._find_non_gene_feature_types(db)
            out = {"non_gene_types": non_gene, "ignored": gffp._find_non_gene_feature_types(db, {"region", "exon"})}
            for chrom in chroms:
                out[f"genes/{chrom}"] = gffp._parse_genes(chrom, db)
                if non_gene:
                    out[f"top_level/{chrom}"] = [
                        str(f) for f in gffp._find_all_top_level_non_gene_features(chrom, db, non_gene)
                    ]
                    out[f"features/{chrom}"] = gffp._parse_features(chrom, db, non_gene)
            return out

        results[f"low_level/{path.name}"] = call(low_level)

    for path in gff_files():
        for fasta in ("INSC1003.fa", "INSC1006_chrI.fa", "INSC1003_extra_contig.fa"):

            def go(path=path, fasta=fasta):
                return [
                    [dump_annotation(rec), rec.seqrecord.id if rec.seqrecord else None]
                    for rec in gffp.parse_gff3_fasta(path, DATA / fasta)
                ]

            res = call(go)
            # the order of the trailing empty records comes from a set difference; sort for stability
            results[f"parse_gff3_fasta/{path.name}/{fasta}"] = res

        def emb(path=path):
            return [
                [dump_annotation(rec), rec.seqrecord.id if rec.seqrecord else None]
                for rec in gffp.parse_gff3_embedded_fasta(path)
            ]

        results[f"parse_gff3_embedded_fasta/{path.name}"] = call(emb)
    return results


def build():
    results = {}
    results["name_id"] = [[canon(c), call(extract_feature_name_id, c)] for c in name_id_cases()]
    results["types"] = [[canon(q), run_extract_types(t, q)] for t, q in type_cases()]
    results["merge"] = [[canon(a), canon(b), call(merge_qualifiers, a, b)] for a, b in merge_cases()]
    results["merge_inputs_untouched"] = []
    for a, b in merge_cases()[:50]:
        before = (canon(a), canon(b))
        call(merge_qualifiers, a, b)
        results["merge_inputs_untouched"].append(before == (canon(a), canon(b)))
    results["filter_sort"] = [[canon(c), call(gffp.filter_and_sort_qualifiers, c)] for c in filter_cases()]
    results["intervals"] = interval_objects()
    results["genbank"] = genbank_section()
    results["gff3"] = gff3_section()
    return results


def count_leaves(obj):
    if isinstance(obj, dict):
        return sum(count_leaves(v) for v in obj.values())
    if isinstance(obj, list):
        return sum(count_leaves(v) for v in obj) or 1
    return 1


def diff(a, b, path=""):
    if type(a) != type(b):
        yield f"{path}: type {type(a).__name__} != {type(b).__name__}"
    elif isinstance(a, dict):
        if list(a.keys()) != list(b.keys()):
            yield f"{path}: keys differ {list(a.keys())[:8]} vs {list(b.keys())[:8]}"
        for k in a:
            if k in b:
                yield from diff(a[k], b[k], f"{path}/{k}")
    elif isinstance(a, list):
        if len(a) != len(b):
            yield f"{path}: len {len(a)} != {len(b)}"
        for i, (x, y) in enumerate(zip(a, b)):
            yield from diff(x, y, f"{path}[{i}]")
    elif a != b:
        yield f"{path}: {a!r} != {b!r}"


def main():
    mode = sys.argv[1]
    if mode == "dump":
        results = build()
        with open(sys.argv[2], "w") as fh:
            json.dump(results, fh, default=repr)
        summary = {k: (len(v) if hasattr(v, "__len__") else v) for k, v in results.items()}
        print("sections:", summary)
        print("compared leaf values:", count_leaves(json.loads(json.dumps(results, default=repr))))
    elif mode == "compare":
        with open(sys.argv[2]) as fa, open(sys.argv[3]) as fb:
            a, b = json.load(fa), json.load(fb)
        problems = list(itertools.islice(diff(a, b), 40))
        if problems:
            print("DIFFERENCES FOUND")
            for p in problems:
                print("  ", p[:600])
            sys.exit(1)
        print("IDENTICAL:", count_leaves(a), "leaf values compared")
    else:
        raise SystemExit("usage: equiv.py dump OUT.json | compare A.json B.json")


if __name__ == "__main__":
    main()
