"""Equivalence check for refactoring R2 (gene layer: interval / cds / transcript / feature / gene / variants /
collections).

Usage (from the worktree root):
    /venv/bin/python _refactor/R2/equiv.py dump /tmp/r2_pristine.json      # on the pristine checkout
    git apply _refactor/R2/patch.diff
    /venv/bin/python _refactor/R2/equiv.py dump /tmp/r2_patched.json       # on the refactored code
    /venv/bin/python _refactor/R2/equiv.py compare /tmp/r2_pristine.json /tmp/r2_patched.json

Every observation is a description (repr / str / to_dict / guid / locations) of the returned value, or
"EXC <type>: <message>" for a raised exception.

`inscripta.biocantor.io.parser` cannot be imported with the marshmallow of this environment; the script first tries
the test-only shim _refactor/shim/mm_shim.py (if present) so that the code paths that import it lazily
(alternative haplotypes, subsetting of collections with sequence) are exercised too. Whether or not that works, it is
the same for both runs.
"""
import itertools
import json
import os
import sys
import uuid
import warnings

if os.environ.get("PYTHONHASHSEED") != "0":
    os.environ["PYTHONHASHSEED"] = "0"
    os.execv(sys.executable, [sys.executable] + sys.argv)

sys.path.insert(0, os.getcwd())
sys.path.insert(0, os.path.join(os.getcwd(), "_refactor", "shim"))
try:
    import mm_shim  # noqa: F401
except Exception:  # noqa
    pass

import inscripta.biocantor.location  # noqa: E402,F401  (must come first: circular imports otherwise)
from inscripta.biocantor.location import SingleInterval, CompoundInterval, EmptyLocation, Strand, Location  # noqa: E402
from inscripta.biocantor.parent import Parent, SequenceType  # noqa: E402
from inscripta.biocantor.sequence import Sequence, Alphabet  # noqa: E402
from inscripta.biocantor.gene.cds import CDSInterval  # noqa: E402
from inscripta.biocantor.gene.cds_frame import CDSFrame, CDSPhase  # noqa: E402
from inscripta.biocantor.gene.biotype import Biotype  # noqa: E402
from inscripta.biocantor.gene.codon import TranslationTable  # noqa: E402
from inscripta.biocantor.gene.transcript import TranscriptInterval  # noqa: E402
from inscripta.biocantor.gene.feature import FeatureInterval, FeatureIntervalCollection  # noqa: E402
from inscripta.biocantor.gene.gene import GeneInterval  # noqa: E402
from inscripta.biocantor.gene.variants import VariantInterval, VariantIntervalCollection  # noqa: E402
from inscripta.biocantor.gene.collections import AnnotationCollection  # noqa: E402
from inscripta.biocantor.gene.interval import AbstractInterval, AbstractFeatureIntervalCollection  # noqa: E402

try:
    import inscripta.biocantor.io.parser  # noqa: F401

    PARSER_OK = True
except Exception:  # noqa
    PARSER_OK = False

warnings.simplefilter("ignore")
RESULTS = {}
INTERVAL_TYPES = (
    CDSInterval,
    TranscriptInterval,
    FeatureInterval,
    FeatureIntervalCollection,
    GeneInterval,
    VariantInterval,
    VariantIntervalCollection,
    AnnotationCollection,
)


def describe(value, depth=0):
    if isinstance(value, dict):
        return "{" + ", ".join("{}: {}".format(describe(k), describe(v, depth)) for k, v in value.items()) + "}"
    if isinstance(value, (set, frozenset)):
        return "set(" + ", ".join(sorted(describe(v, depth) for v in value)) + ")"
    if isinstance(value, (list, tuple)):
        return "[" + ", ".join(describe(v, depth) for v in value) + "]"
    if isinstance(value, Location):
        return repr(value) + " parent=" + repr(value.parent)
    if isinstance(value, INTERVAL_TYPES):
        parts = [type(value).__name__, repr(value), "guid=" + str(value.guid)]
        for attr in ("_location", "start", "end", "bin", "guid_map", "frames", "feature_types", "variant_types"):
            if hasattr(value, attr):
                try:
                    parts.append("{}={}".format(attr, describe(getattr(value, attr), depth + 1)))
                except Exception as e:  # noqa
                    parts.append("{}=EXC {}".format(attr, type(e).__name__))
        for attr in ("cds", "primary_transcript", "primary_feature", "alternative_haplotype_mapping"):
            if hasattr(value, attr) and depth < 2:
                parts.append("{}={}".format(attr, describe(getattr(value, attr), depth + 1)))
        if depth < 1:
            for crc in (True, False):
                try:
                    if isinstance(value, AnnotationCollection):
                        d = value.to_dict(crc, export_parent=crc)
                    else:
                        d = value.to_dict(crc)
                    parts.append("to_dict({})={}".format(crc, describe(d, depth + 1)))
                except Exception as e:  # noqa
                    parts.append("to_dict({})=EXC {}: {}".format(crc, type(e).__name__, e))
        return "<" + " | ".join(parts) + ">"
    return repr(value)


def observe(key, fn):
    assert key not in RESULTS, key
    try:
        value = fn()
        if hasattr(value, "__next__"):
            value = list(value)
        RESULTS[key] = describe(value)
    except Exception as e:  # noqa
        RESULTS[key] = "EXC {}: {}".format(type(e).__name__, e)


# 60 nt: ATG at 2, stop codons sprinkled
GENOME = "CCATGGCTAGCTGATAAGGCTCTTGACCATGAGTAACGTTAGCCATGCATTGATCGGCTA"


def chrom_parent(with_seq=True):
    if with_seq:
        return Parent(
            id="chr1",
            sequence=Sequence(GENOME, Alphabet.NT_EXTENDED_GAPPED, id="chr1", type=SequenceType.CHROMOSOME),
            location=SingleInterval(0, len(GENOME), Strand.PLUS),
        )
    return Parent(id="chr1", sequence_type=SequenceType.CHROMOSOME)


def seq_to_parent_like():
    return Parent(
        sequence=Sequence(GENOME, Alphabet.NT_EXTENDED_GAPPED, type=SequenceType.CHROMOSOME, id="chr1"),
        location=SingleInterval(0, len(GENOME), Strand.PLUS),
    )


def chunk_parent(start, end, strand=Strand.PLUS, name="chr1"):
    chunk_id = "{}:{}-{}".format(name, start, end)
    return Parent(
        id=chunk_id,
        sequence=Sequence(
            GENOME[start:end],
            Alphabet.NT_EXTENDED_GAPPED,
            id=chunk_id,
            type=SequenceType.SEQUENCE_CHUNK,
            parent=Parent(
                location=SingleInterval(
                    start, end, strand, parent=Parent(id=name, sequence_type=SequenceType.CHROMOSOME)
                )
            ),
        ),
    )


def parents():
    return {
        "none": None,
        "chromseq": chrom_parent(True),
        "chromnoseq": chrom_parent(False),
        "seq_to_parent": seq_to_parent_like(),
        "chunk5_50": chunk_parent(5, 50),
        "chunk0_60": chunk_parent(0, 60),
        "chunk20_40": chunk_parent(20, 40),
        "chunk55_60": chunk_parent(55, 60),
        "chunk_other": chunk_parent(5, 50, name="chr2"),
        "chunk_nochrom": Parent(
            id="c", sequence=Sequence(GENOME[5:50], Alphabet.NT_EXTENDED_GAPPED, type=SequenceType.SEQUENCE_CHUNK)
        ),
        "plain": Parent(id="x"),
    }


EXONS = {
    "single": ([2], [41]),
    "two": ([2, 20], [14, 41]),
    "three": ([2, 17, 30], [11, 26, 45]),
    "adjacent": ([2, 11], [11, 23]),
    "overlap": ([2, 9], [11, 23]),
    "zero": ([5], [5]),
    "unequal": ([2, 20], [14]),
    "empty": ([], []),
    "negative": ([-2, 20], [14, 41]),
    "inverted": ([14], [2]),
    "beyond": ([2, 50], [14, 70]),
}

CDS = {
    "none": (None, None, None),
    "single": ([4], [40], [CDSFrame.ZERO]),
    "single_f1": ([4], [40], [CDSFrame.ONE]),
    "two": ([4, 20], [14, 38], [CDSFrame.ZERO, CDSFrame.ONE]),
    "two_shift": ([4, 20], [14, 38], [CDSFrame.ZERO, CDSFrame.ZERO]),
    "three": ([4, 17, 30], [11, 26, 40], [CDSFrame.ZERO, CDSFrame.ONE, CDSFrame.ONE]),
    "phases": ([4, 20], [14, 38], [CDSPhase.ZERO, CDSPhase.TWO]),
    "mixed": ([4, 20], [14, 38], [CDSFrame.ZERO, CDSPhase.TWO]),
    "mixed2": ([4, 20], [14, 38], [CDSPhase.ZERO, CDSFrame.TWO]),
    "full": ([2], [41], [CDSFrame.ZERO]),
    "full_two": ([2, 20], [14, 41], [CDSFrame.ZERO, CDSFrame.ZERO]),
    "starts_only": ([4], None, [CDSFrame.ZERO]),
    "ends_only": (None, [40], [CDSFrame.ZERO]),
    "no_frames": ([4], [40], None),
    "frames_short": ([4, 20], [14, 38], [CDSFrame.ZERO]),
    "unequal": ([4, 20], [14], [CDSFrame.ZERO, CDSFrame.ZERO]),
    "before_exon": ([0], [40], [CDSFrame.ZERO]),
    "after_exon": ([4], [50], [CDSFrame.ZERO]),
    "tiny": ([4], [6], [CDSFrame.ZERO]),
    "zero": ([4], [4], [CDSFrame.ZERO]),
    "empty_lists": ([], [], []),
    "intron": ([15], [19], [CDSFrame.ZERO]),
}

QUALIFIERS = {
    "none": None,
    "ok": {"gene": ["abc", "def"], "n": [1, 2.5, True]},
    "notdict": [("a", "b")],
    "notlist": {"gene": "abc"},
    "mixed": {"a": ["x"], "b": ("y",)},
    "empty": {},
}

STRANDS = [Strand.PLUS, Strand.MINUS, Strand.UNSTRANDED]


def check_initialize_location():
    for (ek, (s, e)), strand, (pk, p) in itertools.product(EXONS.items(), STRANDS, parents().items()):
        observe(
            "initialize_location({},{},{})".format(ek, strand.name, pk),
            lambda: AbstractInterval.initialize_location(s, e, strand, p),
        )
    for qk, q in QUALIFIERS.items():
        observe("qualifiers({})".format(qk), lambda: FeatureInterval([1], [5], Strand.PLUS, qualifiers=q).qualifiers)


def exercise_cds(key, cds):
    observe(key + ".str", lambda: (str(cds), repr(cds), len(cds), cds.id, cds.name))
    for flag in (True, False):
        observe(key + "._frame_iter({})".format(flag), lambda: cds._frame_iter(flag))
        observe(key + "._exon_iter({})".format(flag), lambda: cds._exon_iter(flag))
    observe(key + ".chunk_relative_frames", lambda: cds.chunk_relative_frames)
    observe(key + ".extract_sequence", lambda: cds.extract_sequence())
    observe(key + ".translate", lambda: cds.translate())
    observe(key + ".translate(trunc,lenient)", lambda: cds.translate(True, TranslationTable.PROKARYOTE, False))
    observe(key + ".num_codons", lambda: (cds.num_codons, cds.num_chunk_relative_codons))
    observe(key + ".chromosome_codon_locations", lambda: cds.chromosome_codon_locations)
    observe(key + ".chunk_relative_codon_locations", lambda: cds.chunk_relative_codon_locations)
    for a, b, ex in ((None, 20, False), (10, None, True), (10, 30, False), (10, 30, True), (12, 12, True), (0, 60, False)):
        observe(
            key + ".scan_chromosome_codon_locations({},{},{})".format(a, b, ex),
            lambda: cds.scan_chromosome_codon_locations(a, b, ex),
        )
        observe(
            key + ".scan_chunk_relative_codon_locations({},{},{})".format(a, b, ex),
            lambda: cds.scan_chunk_relative_codon_locations(a, b, ex),
        )
    observe(key + ".scan_codon_locations", lambda: cds.scan_codon_locations())
    observe(key + ".has_start/stop", lambda: (cds.has_canonical_start_codon, cds.has_valid_stop, cds.has_in_frame_stop))
    observe(key + ".optimize_blocks", lambda: cds.optimize_blocks())
    observe(key + ".optimize_and_combine_blocks", lambda: cds.optimize_and_combine_blocks())
    observe(key + ".export_qualifiers", lambda: cds.export_qualifiers())
    observe(key + ".export_qualifiers(p)", lambda: cds.export_qualifiers({"protein_id": {"zzz"}, "k": {"v"}}))
    for crc in (True, False):
        observe(key + ".to_gff({})".format(crc), lambda: [str(r) for r in cds.to_gff("par", {"k": {"v"}}, crc)])
    observe(
        key + ".from_location(chrom)",
        lambda: CDSInterval.from_location(cds.chromosome_location, cds.frames, protein_id="p", qualifiers={"a": ["b"]}),
    )
    observe(
        key + ".from_location(chunk)",
        lambda: CDSInterval.from_location(cds.chunk_relative_location, cds.chunk_relative_frames, product="q"),
    )
    observe(
        key + ".from_chunk_relative_location(chunk)",
        lambda: CDSInterval.from_chunk_relative_location(
            cds.chunk_relative_location, cds.chunk_relative_frames, product="q", guid=uuid.UUID(int=7)
        ),
    )
    observe(
        key + ".from_chunk_relative_location(chrom)",
        lambda: CDSInterval.from_chunk_relative_location(cds.chromosome_location, cds.frames),
    )
    for pos in (0, 1, 5, 12, 33, 34):
        observe(key + ".cds_pos_to_sequence({})".format(pos), lambda: cds.cds_pos_to_sequence(pos))
    for pos in (3, 4, 15, 22, 39, 40):
        observe(key + ".sequence_pos_to_amino_acid({})".format(pos), lambda: cds.sequence_pos_to_amino_acid(pos))


def check_cds():
    n = 0
    for (ck, (cs, ce, cf)), strand, (pk, p) in itertools.product(CDS.items(), STRANDS, parents().items()):
        if cs is None or ce is None or cf is None:
            continue
        key = "CDSInterval({},{},{})".format(ck, strand.name, pk)
        holder = {}

        def build():
            holder["cds"] = CDSInterval(
                cs, ce, strand, cf, sequence_name="chr1", protein_id="prot", product="prod",
                qualifiers={"note": ["x"]}, parent_or_seq_chunk_parent=p,
            )
            return holder["cds"]

        observe(key, build)
        if "cds" in holder and strand != Strand.UNSTRANDED:
            n += 1
            exercise_cds(key, holder["cds"])
    observe("CDSInterval(guid)", lambda: CDSInterval([1], [10], Strand.PLUS, [CDSFrame.ZERO], guid=uuid.UUID(int=5)).guid)
    locs = {
        "one": SingleInterval(3, 30, Strand.PLUS),
        "one_minus": SingleInterval(3, 30, Strand.MINUS),
        "three": CompoundInterval([0, 7, 12], [5, 11, 18], Strand.PLUS),
        "three_minus": CompoundInterval([0, 7, 12], [5, 11, 18], Strand.MINUS),
        "two_uns": CompoundInterval([0, 7], [5, 11], Strand.UNSTRANDED),
        "five": CompoundInterval([0, 7, 12, 20, 31], [5, 11, 18, 22, 40], Strand.MINUS),
        "empty": EmptyLocation(),
    }
    for (lk, loc), frame in itertools.product(locs.items(), CDSFrame):
        observe(
            "construct_frames_from_location({},{})".format(lk, frame.name),
            lambda: CDSInterval.construct_frames_from_location(loc, frame),
        )
    for lk, loc in locs.items():
        observe("CDSInterval.from_location({})".format(lk), lambda: CDSInterval.from_location(loc, [CDSFrame.ZERO] * 5))
    return n


def exercise_transcript(key, tx):
    observe(key + ".str", lambda: (str(tx), len(tx), tx.id, tx.name, tx.is_coding, tx.is_primary_tx))
    for prop in (
        "cds_location", "cds_chunk_relative_location", "has_in_frame_stop", "cds_size", "chunk_relative_cds_size",
        "cds_start", "cds_end", "chunk_relative_cds_start", "chunk_relative_cds_end", "cds_blocks",
        "chunk_relative_cds_blocks", "chromosome_intron_location", "chunk_relative_intron_location",
    ):
        observe(key + "." + prop, lambda: getattr(tx, prop))
    for pos in (0, 3, 10, 21):
        for m in (
            "cds_pos_to_sequence", "cds_pos_to_chunk_relative", "sequence_pos_to_cds", "chunk_relative_pos_to_cds",
            "cds_pos_to_transcript", "transcript_pos_to_cds", "sequence_pos_to_transcript", "transcript_pos_to_sequence",
        ):
            observe(key + ".{}({})".format(m, pos), lambda: getattr(tx, m)(pos))
    for a, b, st in ((0, 6, Strand.PLUS), (3, 12, Strand.MINUS), (20, 30, Strand.PLUS)):
        for m in (
            "cds_interval_to_sequence", "cds_interval_to_chunk_relative", "sequence_interval_to_cds",
            "chunk_relative_interval_to_cds", "transcript_interval_to_sequence", "sequence_interval_to_transcript",
        ):
            observe(key + ".{}({},{},{})".format(m, a, b, st.name), lambda: getattr(tx, m)(a, b, st))
    for m in ("get_5p_interval", "get_3p_interval", "get_transcript_sequence", "get_cds_sequence", "get_protein_sequence",
              "export_qualifiers", "get_spliced_sequence", "get_genomic_sequence", "get_reference_sequence"):
        observe(key + "." + m, lambda: getattr(tx, m)())
    observe(key + ".get_protein_sequence(trunc)", lambda: tx.get_protein_sequence(True, TranslationTable.PROKARYOTE))
    observe(key + ".export_qualifiers(p)", lambda: tx.export_qualifiers({"transcript_id": {"q"}, "z": {"y"}}))
    for crc in (True, False):
        observe(key + ".to_bed12({})".format(crc), lambda: str(tx.to_bed12(chromosome_relative_coordinates=crc)))
        observe(key + ".to_bed12({},guid)".format(crc), lambda: str(tx.to_bed12(5, name="guid", chromosome_relative_coordinates=crc)))
        observe(key + ".to_gff({})".format(crc), lambda: [str(r) for r in tx.to_gff("par", {"k": {"v"}}, crc)])
    observe(key + ".intersect", lambda: tx.intersect(SingleInterval(8, 25, Strand.MINUS, tx.chunk_relative_location.parent)))
    observe(key + ".intersect(disjoint)", lambda: tx.intersect(SingleInterval(55, 58, Strand.PLUS, tx.chunk_relative_location.parent)))
    observe(
        key + ".from_location(chrom)",
        lambda: TranscriptInterval.from_location(tx.chromosome_location, tx.cds, transcript_id="t", transcript_type="protein_coding"),
    )
    observe(
        key + ".from_location(chunk)",
        lambda: TranscriptInterval.from_location(tx.chunk_relative_location, tx.cds, transcript_id="t"),
    )
    observe(
        key + ".from_chunk_relative_location(chunk)",
        lambda: TranscriptInterval.from_chunk_relative_location(tx.chunk_relative_location, tx.cds, transcript_symbol="s"),
    )
    observe(
        key + ".from_chunk_relative_location(chrom)",
        lambda: TranscriptInterval.from_chunk_relative_location(tx.chromosome_location, tx.cds),
    )


def check_transcripts():
    n = 0
    pars = parents()
    for (ek, (es, ee)), (ck, (cs, ce, cf)), strand in itertools.product(EXONS.items(), CDS.items(), STRANDS):
        for pk in ("none", "chromseq", "chunk5_50", "chunk20_40", "chunk55_60", "seq_to_parent", "chromnoseq"):
            interesting = ek in ("single", "two", "three") and strand != Strand.UNSTRANDED
            if not interesting and pk not in ("none", "chunk5_50"):
                continue
            key = "TranscriptInterval({},{},{},{})".format(ek, ck, strand.name, pk)
            holder = {}

            def build():
                holder["tx"] = TranscriptInterval(
                    es, ee, strand, cs, ce, cf, qualifiers={"note": ["n1"]}, is_primary_tx=None,
                    transcript_id="tx1", transcript_symbol="TX1", transcript_type=Biotype.protein_coding,
                    sequence_name="chr1", protein_id="prot1", product="prod1",
                    parent_or_seq_chunk_parent=pars[pk],
                )
                return holder["tx"]

            observe(key, build)
            if "tx" in holder and interesting and ck in ("none", "single", "two", "three", "phases", "full", "full_two", "tiny", "single_f1"):
                n += 1
                exercise_transcript(key, holder["tx"])
    observe("TranscriptInterval(guid)", lambda: TranscriptInterval([1], [10], Strand.PLUS, guid=uuid.UUID(int=5), transcript_guid=uuid.UUID(int=6)))
    return n


def make_feature(starts, ends, strand=Strand.PLUS, name="f", primary=None, parent=None, types=("promoter",), guid=None):
    return FeatureInterval(
        starts, ends, strand, qualifiers={"q": ["1"]}, sequence_name="chr1", feature_types=list(types) if types else None,
        feature_name=name, feature_id=name + "_id", is_primary_feature=primary, parent_or_seq_chunk_parent=parent, guid=guid,
    )


def make_tx(starts, ends, strand=Strand.PLUS, cds=None, name="t", primary=None, parent=None, guid=None):
    cs, ce, cf = cds if cds else (None, None, None)
    return TranscriptInterval(
        starts, ends, strand, cs, ce, cf, qualifiers={"q": ["1"]}, is_primary_tx=primary, transcript_id=name + "_id",
        transcript_symbol=name, transcript_type=Biotype.protein_coding if cds else Biotype.lncRNA, sequence_name="chr1",
        parent_or_seq_chunk_parent=parent, guid=guid,
    )


def exercise_feature(key, f):
    observe(key + ".str", lambda: (str(f), len(f), f.id, f.name, f.is_primary_feature))
    for prop in ("cds_start", "cds_end", "is_coding", "cds_size", "chunk_relative_cds_size", "cds_location"):
        observe(key + "." + prop, lambda: getattr(f, prop))
    observe(key + ".export_qualifiers", lambda: f.export_qualifiers())
    observe(key + ".export_qualifiers(p)", lambda: f.export_qualifiers({"feature_id": {"other"}, "k": {"v"}}))
    for crc in (True, False):
        observe(key + ".to_bed12({})".format(crc), lambda: str(f.to_bed12(chromosome_relative_coordinates=crc)))
        observe(key + ".to_gff({})".format(crc), lambda: [str(r) for r in f.to_gff("par", {"k": {"v"}}, crc)])
    observe(key + ".from_location(chrom)", lambda: FeatureInterval.from_location(f.chromosome_location, feature_name="n", feature_types=["a", "b"]))
    observe(key + ".from_location(chunk)", lambda: FeatureInterval.from_location(f.chunk_relative_location, {"a": ["b"]}))
    observe(
        key + ".from_chunk_relative_location(chunk)",
        lambda: FeatureInterval.from_chunk_relative_location(f.chunk_relative_location, {"a": ["b"]}, None, "chr1", uuid.UUID(int=3), uuid.UUID(int=4), ["t"], "fid", "fname", True),
    )
    observe(key + ".from_chunk_relative_location(chrom)", lambda: FeatureInterval.from_chunk_relative_location(f.chromosome_location))
    observe(key + ".intersect", lambda: f.intersect(SingleInterval(8, 25, Strand.MINUS, f.chromosome_location.parent)))
    observe(key + ".get_spliced_sequence", lambda: f.get_spliced_sequence())


def check_features():
    pars = parents()
    for (ek, (es, ee)), strand, (pk, p) in itertools.product(EXONS.items(), STRANDS, pars.items()):
        key = "FeatureInterval({},{},{})".format(ek, strand.name, pk)
        holder = {}

        def build():
            holder["f"] = make_feature(es, ee, strand, parent=p)
            return holder["f"]

        observe(key, build)
        if "f" in holder and ek in ("single", "three", "overlap", "zero"):
            exercise_feature(key, holder["f"])
    observe("FeatureInterval.from_location(empty)", lambda: FeatureInterval.from_location(EmptyLocation()))
    observe("FeatureInterval.from_chunk_relative_location(empty)", lambda: FeatureInterval.from_chunk_relative_location(EmptyLocation()))


def exercise_collection_common(key, c):
    observe(key + ".repr", lambda: (repr(c), c.id, c.name, c.is_coding, c.identifiers, c.identifiers_dict))
    observe(key + ".export_qualifiers", lambda: c.export_qualifiers())
    for crc in (True, False):
        observe(key + ".to_gff({})".format(crc), lambda: [str(r) for r in c.to_gff(crc)])
    observe(key + ".get_primary_feature", lambda: c.get_primary_feature())
    observe(key + ".get_primary_feature_sequence", lambda: c.get_primary_feature_sequence())
    observe(key + ".get_merged_feature", lambda: c.get_merged_feature())
    observe(key + ".get_reference_sequence", lambda: c.get_reference_sequence())
    guids = sorted(c.guid_map)
    queries = {
        "first": guids[0],
        "first_list": [guids[0]],
        "all": guids,
        "all_rev": guids[::-1],
        "unknown": uuid.UUID(int=99),
        "mixed": [uuid.UUID(int=99), guids[-1]],
        "empty": [],
        "dup": [guids[0], guids[0]],
    }
    for qk, q in queries.items():
        observe(key + ".query_by_guids({})".format(qk), lambda: c.query_by_guids(q))


def check_feature_collections():
    pars = parents()
    sets = {
        "empty": lambda p: [],
        "one": lambda p: [make_feature([2], [12], parent=p)],
        "three": lambda p: [
            make_feature([2, 20], [12, 30], name="a", parent=p),
            make_feature([5], [45], Strand.MINUS, name="b", parent=p, types=("tfbs", "promoter")),
            make_feature([8, 15, 33], [10, 30, 40], name="c", parent=p, types=None),
        ],
        "same_size": lambda p: [make_feature([2], [12], name="a", parent=p), make_feature([20], [30], name="b", parent=p)],
        "primary_last": lambda p: [make_feature([2], [12], name="a", parent=p), make_feature([20], [25], name="b", primary=True, parent=p)],
        "two_primary": lambda p: [make_feature([2], [12], name="a", primary=True, parent=p), make_feature([20], [25], name="b", primary=True, parent=p)],
        "zero_len_primaries": lambda p: [make_feature([2], [2], name="a", primary=True, parent=p), make_feature([20], [25], name="b", primary=True, parent=p)],
        "primary_false": lambda p: [make_feature([2], [12], name="a", primary=False, parent=p), make_feature([20], [35], name="b", primary=False, parent=p)],
        "duplicate": lambda p: [make_feature([2], [12], name="a", parent=p), make_feature([2], [12], name="a", parent=p)],
        "dup_guid": lambda p: [make_feature([2], [12], name="a", parent=p, guid=uuid.UUID(int=1)), make_feature([20], [25], name="b", parent=p, guid=uuid.UUID(int=1))],
    }
    for (sk, mk), pk in itertools.product(sets.items(), ("none", "chromseq", "chunk5_50", "chunk20_40", "seq_to_parent", "plain")):
        key = "FeatureIntervalCollection({},{})".format(sk, pk)
        holder = {}

        def build():
            holder["c"] = FeatureIntervalCollection(
                mk(pars[pk]), "fcname", "fcid", "fctype", "locus1", "chr1", None, None, {"cq": ["v"]}, pars[pk]
            )
            return holder["c"]

        observe(key, build)
        if "c" in holder:
            exercise_collection_common(key, holder["c"])
    observe(
        "FeatureIntervalCollection(guid)",
        lambda: FeatureIntervalCollection([make_feature([2], [12])], guid=uuid.UUID(int=11)),
    )
    for sk in ("empty", "one", "three", "same_size", "two_primary", "zero_len_primaries"):
        observe(
            "_find_primary_feature({})".format(sk),
            lambda: AbstractFeatureIntervalCollection._find_primary_feature(sets[sk](None)),
        )


def check_genes():
    pars = parents()
    sets = {
        "empty": lambda p: [],
        "one_nc": lambda p: [make_tx([2, 20], [14, 41], parent=p)],
        "mixed": lambda p: [
            make_tx([2, 20], [14, 41], name="nc", parent=p),
            make_tx([2, 20], [14, 41], Strand.PLUS, CDS["two"], name="c1", parent=p),
            make_tx([2], [41], Strand.MINUS, CDS["single"], name="c2", parent=p),
            make_tx([2, 17, 30], [11, 26, 45], Strand.PLUS, CDS["three"], name="c3", parent=p),
        ],
        "same_cds": lambda p: [
            make_tx([2], [41], Strand.PLUS, CDS["single"], name="a", parent=p),
            make_tx([2], [41], Strand.MINUS, CDS["single"], name="b", parent=p),
        ],
        "primary_nc": lambda p: [
            make_tx([2, 20], [14, 41], Strand.PLUS, CDS["two"], name="c1", parent=p),
            make_tx([2, 20], [14, 41], name="nc", primary=True, parent=p),
        ],
        "two_primary": lambda p: [
            make_tx([2, 20], [14, 41], name="a", primary=True, parent=p),
            make_tx([2, 20], [14, 40], name="b", primary=True, parent=p),
        ],
        "duplicate": lambda p: [make_tx([2], [41], name="a", parent=p), make_tx([2], [41], name="a", parent=p)],
        "dup_guid": lambda p: [make_tx([2], [41], name="a", parent=p, guid=uuid.UUID(int=2)), make_tx([3], [40], name="b", parent=p, guid=uuid.UUID(int=2))],
    }
    for (sk, mk), pk in itertools.product(sets.items(), ("none", "chromseq", "chunk5_50", "chunk20_40", "seq_to_parent", "chromnoseq")):
        key = "GeneInterval({},{})".format(sk, pk)
        holder = {}

        def build():
            holder["g"] = GeneInterval(
                mk(pars[pk]), None, "gid", "gsym", Biotype.protein_coding, "locus2", {"gq": ["v"]}, "chr1", None, pars[pk]
            )
            return holder["g"]

        observe(key, build)
        if "g" in holder:
            g = holder["g"]
            exercise_collection_common(key, g)
            for m in ("get_primary_transcript", "get_primary_cds", "get_primary_transcript_sequence", "get_primary_cds_sequence",
                      "get_primary_protein", "get_merged_transcript", "get_merged_cds"):
                observe(key + "." + m, lambda: getattr(g, m)())
    observe("GeneInterval(guid,notype)", lambda: GeneInterval([make_tx([2], [41])], guid=uuid.UUID(int=12)))


def make_variants(p):
    return {
        "snv": lambda: VariantInterval(7, 8, "G", "SNV", parent_or_seq_chunk_parent=p, variant_name="snv"),
        "ins": lambda: VariantInterval(10, 11, "GGTT", "insertion", 1, None, None, "ins", "ins_id", {"vq": ["1"]}, p),
        "del": lambda: VariantInterval(22, 28, "T", "deletion", parent_or_seq_chunk_parent=p, variant_name="del"),
        "del_nopad": lambda: VariantInterval(33, 36, "", "deletion", parent_or_seq_chunk_parent=p),
        "overlap_del": lambda: VariantInterval(25, 30, "A", "deletion", parent_or_seq_chunk_parent=p),
        "late": lambda: VariantInterval(52, 54, "AC", "MNV", parent_or_seq_chunk_parent=p),
        "zero": lambda: VariantInterval(5, 5, "A", "insertion", parent_or_seq_chunk_parent=p),
        "inverted": lambda: VariantInterval(8, 5, "A", "x", parent_or_seq_chunk_parent=p),
        "badseq": lambda: VariantInterval(5, 6, "Z", "x", parent_or_seq_chunk_parent=p),
        "guid": lambda: VariantInterval(5, 6, "A", "x", guid=uuid.UUID(int=21), parent_or_seq_chunk_parent=p),
    }


def lift_targets(p):
    def on(loc):
        try:
            return loc.reset_parent(p) if p is not None else loc
        except Exception:  # noqa
            return loc

    return {
        "before": SingleInterval(0, 5, Strand.PLUS),
        "span": SingleInterval(5, 40, Strand.MINUS),
        "inside_del": SingleInterval(23, 27, Strand.PLUS),
        "after": SingleInterval(45, 50, Strand.PLUS),
        "compound": CompoundInterval([2, 20, 30], [14, 27, 45], Strand.PLUS),
        "compound_minus": CompoundInterval([6, 23, 35], [9, 26, 50], Strand.MINUS),
        "empty": EmptyLocation(),
    }


def check_variants():
    pars = parents()
    for pk in ("none", "chromseq", "seq_to_parent", "chunk5_50", "chunk20_40", "chromnoseq"):
        p = pars[pk]
        made = {}
        for vk, mk in make_variants(p).items():
            key = "VariantInterval({},{})".format(vk, pk)
            observe(key, lambda: made.setdefault(vk, mk()))
            if vk in made:
                v = made[vk]
                observe(key + ".misc", lambda: (str(v), v.id, v.name, v.length_difference, v.export_qualifiers({"a": {"b"}})))
                observe(key + ".alternative_genomic_sequence", lambda: v.alternative_genomic_sequence)
                observe(key + ".parent_with_alternative_sequence", lambda: v.parent_with_alternative_sequence)
                for lk, loc in lift_targets(p).items():
                    observe(key + ".lift_over_location({})".format(lk), lambda: v.lift_over_location(loc))
        combos = {
            "empty": [],
            "one": ["snv"],
            "three": ["del", "snv", "ins"],
            "four": ["late", "del_nopad", "snv", "del"],
            "overlapping": ["snv", "del", "overlap_del"],
            "duplicate": ["snv", "snv"],
            "dup_guid": ["guid", "guid"],
        }
        for ck, names in combos.items():
            key = "VariantIntervalCollection({},{})".format(ck, pk)
            holder = {}

            def build():
                members = [make_variants(p)[n]() for n in names]
                if ck == "dup_guid":
                    members[1] = VariantInterval(9, 10, "C", "x", guid=uuid.UUID(int=21), parent_or_seq_chunk_parent=p)
                holder["c"] = VariantIntervalCollection(members, "vc", "vcid", "chr1", None, None, {"q": ["1"]}, p)
                return holder["c"]

            observe(key, build)
            if "c" in holder:
                c = holder["c"]
                observe(key + ".misc", lambda: (repr(c), c.id, c.name, c.is_coding, c.variant_types))
                observe(key + ".alternative_genomic_sequence", lambda: c.alternative_genomic_sequence)
                observe(key + ".parent_with_alternative_sequence", lambda: c.parent_with_alternative_sequence)
                for lk, loc in lift_targets(p).items():
                    observe(key + ".lift_over_location({})".format(lk), lambda: c.lift_over_location(loc))
                guids = sorted(c.guid_map)
                for qk, q in (("first", guids[0]), ("all", guids), ("none", [uuid.UUID(int=1)]), ("empty", [])):
                    observe(key + ".query_by_guids({})".format(qk), lambda: c.query_by_guids(q))
                tx = make_tx([2, 20], [14, 41], Strand.PLUS, CDS["two"], name="c1", parent=p)
                feat = make_feature([2, 20], [12, 30], name="a", parent=p)
                observe(key + ".tx.incorporate_variants", lambda: tx.incorporate_variants(c))
                observe(key + ".feat.incorporate_variants", lambda: feat.incorporate_variants(c))
                observe(key + ".gene.incorporate_variants", lambda: GeneInterval([tx], gene_id="g").incorporate_variants(c))
                observe(
                    key + ".fc.incorporate_variants",
                    lambda: FeatureIntervalCollection([feat], feature_collection_id="fc").incorporate_variants(c),
                )


def build_annotation(p, with_variants=False, **kwargs):
    genes = [
        GeneInterval(
            [
                make_tx([12, 17], [16, 20], Strand.PLUS, ([12], [15], [CDSFrame.ZERO]), name="tx1", parent=p),
                make_tx([12, 17, 22], [16, 20, 25], Strand.PLUS, name="tx2", parent=p),
            ],
            gene_id="gene1", gene_symbol="G1", gene_type=Biotype.protein_coding, locus_tag="L1", sequence_name="chr1",
            parent_or_seq_chunk_parent=p,
        ),
        GeneInterval(
            [make_tx([30], [44], Strand.MINUS, name="tx3", parent=p)],
            gene_id="gene2", gene_symbol="G2", gene_type=Biotype.lncRNA, sequence_name="chr1", parent_or_seq_chunk_parent=p,
        ),
    ]
    fcs = [
        FeatureIntervalCollection(
            [
                make_feature([12], [15], name="f1", parent=p),
                make_feature([12, 17, 22], [16, 20, 25], name="f2", parent=p),
                make_feature([35], [40], Strand.MINUS, name="f3", parent=p),
            ],
            feature_collection_name="FC1", feature_collection_id="fc1", locus_tag="L1", sequence_name="chr1",
            parent_or_seq_chunk_parent=p,
        ),
        FeatureIntervalCollection(
            [make_feature([48], [52], name="f4", parent=p)], feature_collection_name="FC2", sequence_name="chr1",
            parent_or_seq_chunk_parent=p,
        ),
    ]
    vcs = None
    if with_variants:
        vcs = [
            VariantIntervalCollection(
                [VariantInterval(13, 14, "G", "SNV", parent_or_seq_chunk_parent=p), VariantInterval(36, 38, "A", "deletion", parent_or_seq_chunk_parent=p)],
                "vc1", "vc1id", "chr1", parent_or_seq_chunk_parent=p,
            )
        ]
    return AnnotationCollection(
        fcs, genes, vcs, "annot", "annot_id", "chr1", None, None, {"aq": ["v"]}, parent_or_seq_chunk_parent=p, **kwargs
    )


def check_annotation_collections():
    pars = parents()
    for pk in ("none", "chromseq", "seq_to_parent", "chunk5_50", "chunk0_60", "chromnoseq", "chunk20_40"):
        p = pars[pk]
        for bk, bounds in {
            "nobounds": {},
            "bounds": {"start": 2, "end": 58},
            "start_only": {"start": 2},
            "end_only": {"end": 58},
            "tight": {"start": 12, "end": 52},
            "cw": {"start": 0, "end": 60, "completely_within": True},
        }.items():
            for wv in (False, True):
                key = "AnnotationCollection({},{},{})".format(pk, bk, wv)
                holder = {}

                def build():
                    holder["a"] = build_annotation(p, wv, **bounds)
                    return holder["a"]

                observe(key, build)
                if "a" not in holder or (wv and bk != "nobounds"):
                    continue
                a = holder["a"]
                observe(key + ".misc", lambda: (repr(a), len(a), a.is_empty, a.id, a.name, a.children_guids, a.hierarchical_children_guids))
                for t in ("feature", "TRANSCRIPT", "Variant", "gene", ""):
                    observe(key + ".get_children_by_type({})".format(t), lambda: a.get_children_by_type(t))
                observe(key + ".get_children_by_type(None)", lambda: a.get_children_by_type(None))
                for crc in (True, False):
                    observe(key + ".to_gff({})".format(crc), lambda: [str(r) for r in a.to_gff(crc)])
                if bk in ("nobounds", "bounds"):
                    grid = [None, -1, 0, 2, 12, 16, 21, 22, 28, 36, 52, 58, 60, 61]
                    for s, e in itertools.product(grid, grid):
                        for coding_only, cw, expand in ((False, True, False), (False, False, False), (True, False, True), (False, False, True)):
                            if (s is None or e is None or s in (-1, 61) or e in (-1, 61)) and (coding_only or expand):
                                continue
                            observe(
                                key + ".query_by_position({},{},{},{},{})".format(s, e, coding_only, cw, expand),
                                lambda: a.query_by_position(s, e, coding_only, cw, expand),
                            )
                child_guids = [c.guid for c in a.iter_children()]
                interval_guids = [g.guid for c in a.iter_children() for g in c.iter_children()]
                for qk, q in (
                    ("first", child_guids[0]), ("all", child_guids), ("rev", child_guids[::-1]),
                    ("unknown", [uuid.UUID(int=5)]), ("empty", []), ("mixed", [child_guids[-1], uuid.UUID(int=5), child_guids[0]]),
                ):
                    observe(key + ".query_by_guids({})".format(qk), lambda: a.query_by_guids(q))
                for qk, q in (
                    ("first", interval_guids[0]), ("all", interval_guids), ("some", interval_guids[1::2]),
                    ("unknown", [uuid.UUID(int=5)]), ("empty", []),
                ):
                    for m in ("query_by_interval_guids", "query_by_transcript_interval_guids", "query_by_feature_interval_guids"):
                        observe(key + ".{}({})".format(m, qk), lambda: getattr(a, m)(q))
                for qk, q in (("gene1", "gene1"), ("L1", ["L1"]), ("many", ["G2", "fc1", "nope"]), ("none", []), ("vc", "vc1")):
                    observe(key + ".query_by_feature_identifiers({})".format(qk), lambda: a.query_by_feature_identifiers(q))
        observe("AnnotationCollection(empty,{})".format(pk), lambda: AnnotationCollection(parent_or_seq_chunk_parent=p))
        observe(
            "AnnotationCollection(empty,bounds,{})".format(pk),
            lambda: AnnotationCollection(start=3, end=30, parent_or_seq_chunk_parent=p),
        )
        observe(
            "AnnotationCollection(empty,{}).query".format(pk),
            lambda: AnnotationCollection(parent_or_seq_chunk_parent=p).query_by_position(1, 5),
        )
        observe(
            "AnnotationCollection(only_variants,{})".format(pk),
            lambda: AnnotationCollection(
                variant_collections=[VariantIntervalCollection([VariantInterval(13, 14, "G", "SNV", parent_or_seq_chunk_parent=p)], parent_or_seq_chunk_parent=p)],
                parent_or_seq_chunk_parent=p,
            ),
        )


def main():
    mode = sys.argv[1]
    if mode == "dump":
        RESULTS["io.parser importable"] = repr(PARSER_OK)
        check_initialize_location()
        n_cds = check_cds()
        n_tx = check_transcripts()
        check_features()
        check_feature_collections()
        check_genes()
        check_variants()
        check_annotation_collections()
        with open(sys.argv[2], "w") as fh:
            json.dump(RESULTS, fh, indent=0, sort_keys=True)
        n_exc = sum(1 for v in RESULTS.values() if v.startswith("EXC "))
        kinds = sorted({v.split(":")[0] for v in RESULTS.values() if v.startswith("EXC ")})
        print("io.parser importable: {}; {} CDS and {} transcripts exercised in depth".format(PARSER_OK, n_cds, n_tx))
        print("{} observations written ({} exceptions: {})".format(len(RESULTS), n_exc, ", ".join(kinds)))
    elif mode == "compare":
        with open(sys.argv[2]) as fh:
            a = json.load(fh)
        with open(sys.argv[3]) as fh:
            b = json.load(fh)
        diffs = [k for k in sorted(set(a) | set(b)) if a.get(k) != b.get(k)]
        for k in diffs[:40]:
            print("DIFF", k, "\n   ", str(a.get(k))[:600], "\n   ", str(b.get(k))[:600])
        print("{} keys compared, {} differences".format(len(set(a) | set(b)), len(diffs)))
        sys.exit(1 if diffs else 0)


if __name__ == "__main__":
    main()
