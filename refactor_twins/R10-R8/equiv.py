"""
Equivalence script for a behaviour-preserving refactoring of the BioCantor interval / parent / location code.

Usage (from the worktree root):

    /venv/bin/python _refactor/R1/equiv.py --out /tmp/pristine.json        # on the pristine checkout
    git apply _refactor/R1/patch.diff
    /venv/bin/python _refactor/R1/equiv.py --compare /tmp/pristine.json    # on the refactored checkout
    git apply -R _refactor/R1/patch.diff

Every accessor / operation is called on freshly built objects in several orders (cold, warm, after the codon location
cache was filled) and the serialized result (repr / str / to_dict, type names included) or the exception type and
message is recorded under a stable key. Operand snapshots (to_dict, guid, hash, qualifiers) before and after export
operations are recorded as well.
"""
import argparse
import json
import os
import random
import sys
import warnings
from enum import Enum
from uuid import UUID

if os.environ.get("PYTHONHASHSEED") != "0":
    # set reprs appear in some exception messages
    os.environ["PYTHONHASHSEED"] = "0"
    os.execv(sys.executable, [sys.executable] + sys.argv)

sys.path.insert(0, os.getcwd())

import inscripta.biocantor.location  # noqa: E402,F401  (must come first: circular import otherwise)
from inscripta.biocantor.gene.biotype import Biotype  # noqa: E402
from inscripta.biocantor.gene.cds import CDSInterval  # noqa: E402
from inscripta.biocantor.gene.cds_frame import CDSFrame, CDSPhase  # noqa: E402
from inscripta.biocantor.gene.codon import TranslationTable  # noqa: E402
from inscripta.biocantor.gene.collections import AnnotationCollection  # noqa: E402
from inscripta.biocantor.gene.feature import FeatureInterval, FeatureIntervalCollection  # noqa: E402
from inscripta.biocantor.gene.gene import GeneInterval  # noqa: E402
from inscripta.biocantor.gene.interval import AbstractFeatureIntervalCollection, AbstractInterval  # noqa: E402
from inscripta.biocantor.gene.transcript import TranscriptInterval  # noqa: E402
from inscripta.biocantor.location.location import Location  # noqa: E402
from inscripta.biocantor.location.location_impl import CompoundInterval, EmptyLocation, SingleInterval  # noqa: E402
from inscripta.biocantor.location.strand import Strand  # noqa: E402
from inscripta.biocantor.parent.parent import Parent, SequenceType, _unique_value_or_none  # noqa: E402
from inscripta.biocantor.sequence.alphabet import Alphabet  # noqa: E402
from inscripta.biocantor.sequence.sequence import Sequence  # noqa: E402

warnings.simplefilter("ignore")

RESULTS = {}

rng = random.Random(20261003)
GENOME = "".join(rng.choice("ACGT") for _ in range(120))
# make sure there are some start / stop codons in both orientations
GENOME = GENOME[:12] + "ATG" + GENOME[15:40] + "TAA" + GENOME[43:70] + "CAT" + GENOME[73:100] + "TTA" + GENOME[103:]


# ---------------------------------------------------------------------------------------------------------------------
# copies of inscripta.biocantor.io.parser helpers (the module cannot be imported here)
# ---------------------------------------------------------------------------------------------------------------------
def seq_to_parent(seq, alphabet=Alphabet.NT_EXTENDED_GAPPED, seq_id=None, seq_type=SequenceType.CHROMOSOME):
    return Parent(
        sequence=Sequence(seq, alphabet, type=seq_type, id=seq_id), location=SingleInterval(0, len(seq), Strand.PLUS)
    )


def seq_chunk_to_parent(seq, sequence_name, start, end, strand=Strand.PLUS, alphabet=Alphabet.NT_EXTENDED_GAPPED):
    chunk_id = f"{sequence_name}:{start}-{end}"
    return Parent(
        id=chunk_id,
        sequence=Sequence(
            seq,
            alphabet,
            id=chunk_id,
            type=SequenceType.SEQUENCE_CHUNK,
            parent=Parent(
                location=SingleInterval(
                    start, end, strand, parent=Parent(id=sequence_name, sequence_type=SequenceType.CHROMOSOME)
                )
            ),
        ),
    )


# ---------------------------------------------------------------------------------------------------------------------
# serialization
# ---------------------------------------------------------------------------------------------------------------------
def ser(x, depth=0):
    if depth > 8:
        return "<too deep>"
    if x is None or isinstance(x, (bool, int, float)):
        return [type(x).__name__, x]
    if isinstance(x, Enum):
        return ["enum", type(x).__name__, x.name]
    if isinstance(x, str):
        return ["str", x]
    if isinstance(x, UUID):
        return ["uuid", str(x)]
    if isinstance(x, Sequence):
        return ["Sequence", str(x), x.alphabet.name, repr(x.id), repr(x.sequence_type), repr(x.parent)]
    if isinstance(x, Location):
        return ["Location", type(x).__name__, repr(x)]
    if type(x).__name__ == "Parent":
        return ["Parent", repr(x)]
    if isinstance(x, AbstractInterval):
        try:
            d = ser(x.to_dict(), depth + 1)
        except Exception as e:  # noqa
            d = exc(e)
        return ["Interval", type(x).__name__, str(x), d, ser(x.chunk_relative_location, depth + 1), str(x.guid)]
    if isinstance(x, dict):
        return ["dict", [[ser(k, depth + 1), ser(v, depth + 1)] for k, v in x.items()]]
    if isinstance(x, (set, frozenset)):
        return [type(x).__name__, sorted(json.dumps(ser(v, depth + 1)) for v in x)]
    if isinstance(x, (list, tuple)):
        return [type(x).__name__, [ser(v, depth + 1) for v in x]]
    if hasattr(x, "__next__") or type(x).__name__ in ("generator", "map", "zip", "filter", "list_reverseiterator"):
        return ["iterator", [ser(v, depth + 1) for v in x]]
    if type(x).__name__ in ("GFFRow", "BED12", "GFFAttributes", "Codon"):
        return [type(x).__name__, str(x)]
    return ["repr", type(x).__name__, repr(x)]


def exc(e):
    return ["EXC", type(e).__name__, str(e)]


def rec(key, fn):
    assert key not in RESULTS, key
    try:
        RESULTS[key] = ser(fn())
    except Exception as e:  # noqa
        RESULTS[key] = exc(e)


# ---------------------------------------------------------------------------------------------------------------------
# parents
# ---------------------------------------------------------------------------------------------------------------------
def parent_factories():
    yield "noparent", lambda: None
    yield "genome", lambda: seq_to_parent(GENOME, seq_id="chr1")
    yield "noseq", lambda: Parent(id="chr1", sequence_type=SequenceType.CHROMOSOME)
    yield "untyped", lambda: Parent(id="chr1", sequence=Sequence(GENOME, Alphabet.NT_EXTENDED_GAPPED))
    for start, end in [(0, 120), (10, 60), (33, 90), (50, 70), (14, 44), (100, 120), (0, 13), (21, 23)]:
        yield f"chunk{start}_{end}", (
            lambda start=start, end=end: seq_chunk_to_parent(GENOME[start:end], "chr1", start, end)
        )


# ---------------------------------------------------------------------------------------------------------------------
# CDS
# ---------------------------------------------------------------------------------------------------------------------
F = CDSFrame
CDS_SPECS = {
    "single_p0": ([12], [45], Strand.PLUS, [F.ZERO]),
    "single_p1": ([11], [45], Strand.PLUS, [F.ONE]),
    "single_p2": ([10], [44], Strand.PLUS, [F.TWO]),
    "single_m0": ([70], [103], Strand.MINUS, [F.ZERO]),
    "single_m1": ([70], [104], Strand.MINUS, [F.ONE]),
    "single_m2": ([71], [105], Strand.MINUS, [F.TWO]),
    "single_short": ([20], [22], Strand.PLUS, [F.ZERO]),
    "multi_p": ([12, 28, 50], [20, 40, 63], Strand.PLUS, None),
    "multi_m": ([12, 28, 50], [20, 40, 63], Strand.MINUS, None),
    "multi_p_f1": ([12, 28, 50], [20, 40, 63], Strand.PLUS, F.ONE),
    "multi_m_f2": ([12, 28, 50], [20, 40, 63], Strand.MINUS, F.TWO),
    "adjacent_p": ([12, 20, 50], [20, 41, 63], Strand.PLUS, None),
    "frameshift_p": ([12, 28, 50], [20, 40, 63], Strand.PLUS, [F.ZERO, F.ZERO, F.ONE]),
    "frameshift_m": ([12, 28, 50], [20, 40, 63], Strand.MINUS, [F.TWO, F.ZERO, F.ZERO]),
    "tiny_exons_p": ([12, 20, 24, 30, 50], [17, 21, 25, 41, 63], Strand.PLUS, [F.ZERO, F.ONE, F.ONE, F.TWO, F.ZERO]),
    "tiny_exons_m": ([12, 20, 24, 30, 50], [17, 21, 25, 41, 63], Strand.MINUS, [F.ZERO, F.ONE, F.ONE, F.TWO, F.ONE]),
    "overlap_p": ([12, 25], [27, 50], Strand.PLUS, [F.ZERO, F.ZERO]),
    "overlap_m": ([12, 25], [27, 50], Strand.MINUS, [F.ZERO, F.ONE]),
    "many_p": ([3, 15, 33, 52, 77, 101], [9, 27, 46, 70, 95, 118], Strand.PLUS, None),
    "many_m": ([3, 15, 33, 52, 77, 101], [9, 27, 46, 70, 95, 118], Strand.MINUS, None),
    "phase_p": ([12, 28, 50], [20, 40, 63], Strand.PLUS, [CDSPhase.ZERO, CDSPhase.ONE, CDSPhase.ONE]),
    "mixed": ([12, 28, 50], [20, 40, 63], Strand.PLUS, [F.ZERO, CDSPhase.ONE, F.ONE]),
    "mixed2": ([12, 28, 50], [20, 40, 63], Strand.PLUS, [CDSPhase.ZERO, CDSPhase.ONE, F.ONE]),
    "mismatch": ([12, 28], [20, 40], Strand.PLUS, [F.ZERO]),
    "unstranded": ([12], [45], Strand.UNSTRANDED, [F.ZERO]),
}

QUALS = {"note": ["b", "a"], "db_xref": ["X:1"], "protein_id": ["other"]}
PARENT_QUALS = {"gene": {"g1"}, "note": {"from_parent"}, "product": {"pp"}}


def cds_frames(starts, ends, strand, frames):
    if isinstance(frames, list):
        return list(frames)
    loc = CompoundInterval(starts, ends, strand) if len(starts) > 1 else SingleInterval(starts[0], ends[0], strand)
    return CDSInterval.construct_frames_from_location(loc, frames if frames is not None else CDSFrame.ZERO)


def make_cds(spec, parent):
    starts, ends, strand, frames = spec
    return CDSInterval(
        list(starts),
        list(ends),
        strand,
        cds_frames(starts, ends, strand, frames),
        sequence_name="chr1",
        protein_id="prot1",
        product="a product",
        qualifiers={k: list(v) for k, v in QUALS.items()},
        parent_or_seq_chunk_parent=parent,
    )


def snapshot(obj):
    return [ser(obj.to_dict()), str(obj.guid), hash(obj), ser(obj.qualifiers)]


def feature_interval_accessors(prefix, get):
    """Accessors shared by CDSInterval / TranscriptInterval / FeatureInterval. ``get`` builds a fresh object."""
    o = get()
    simple = [
        "is_chunk_relative", "chunk_relative_size", "has_sequence", "chunk_relative_start", "chunk_relative_end",
        "chromosome_location", "_chunk_relative_bounded_chromosome_location", "chunk_relative_location", "num_blocks",
        "num_chunk_relative_blocks", "chunk_relative_blocks", "strand", "chunk_relative_strand", "identifiers",
        "identifiers_dict", "chromosome_span", "chromosome_gaps_location", "chunk_relative_span",
        "chunk_relative_gaps_location", "is_primary_feature", "id", "name", "guid", "start", "end",
    ]  # fmt: skip
    for name in simple:
        rec(f"{prefix}.{name}", lambda: getattr(o, name))
    rec(f"{prefix}.blocks", lambda: list(o.blocks))
    rec(f"{prefix}.relative_blocks", lambda: list(o.relative_blocks))
    rec(f"{prefix}.len", lambda: len(o))
    rec(f"{prefix}.str", lambda: str(o))
    rec(f"{prefix}.repr", lambda: repr(o))
    rec(f"{prefix}.hash", lambda: hash(o))
    rec(f"{prefix}.to_dict", lambda: o.to_dict())
    rec(f"{prefix}.to_dict_rel", lambda: o.to_dict(chromosome_relative_coordinates=False))
    rec(f"{prefix}._parent_to_dict", lambda: o._parent_to_dict())
    rec(f"{prefix}._parent_to_dict_rel", lambda: o._parent_to_dict(False))
    for m in ["get_spliced_sequence", "get_reference_sequence", "get_genomic_sequence"]:
        rec(f"{prefix}.{m}", lambda: getattr(o, m)())
        rec(f"{prefix}.{m}.again", lambda: getattr(o, m)())
    for st in [SequenceType.CHROMOSOME, SequenceType.SEQUENCE_CHUNK, "chromosome", "other"]:
        rec(f"{prefix}.has_ancestor_of_type.{st}", lambda: o.has_ancestor_of_type(st))
        rec(f"{prefix}.first_ancestor_of_type.{st}", lambda: o.first_ancestor_of_type(st))
        rec(f"{prefix}.lift_over.{st}", lambda: o.lift_over_to_first_ancestor_of_type(st))
    for pos in [0, 3, 12, 19, 20, 29, 44, 62, 63, 80, 119]:
        rec(f"{prefix}.sequence_pos_to_feature.{pos}", lambda: o.sequence_pos_to_feature(pos))
        rec(f"{prefix}.feature_pos_to_sequence.{pos}", lambda: o.feature_pos_to_sequence(pos))
        rec(f"{prefix}.chunk_relative_pos_to_feature.{pos}", lambda: o.chunk_relative_pos_to_feature(pos))
        rec(f"{prefix}.feature_pos_to_chunk_relative.{pos}", lambda: o.feature_pos_to_chunk_relative(pos))
    for a, b, s in [(0, 5, Strand.PLUS), (13, 35, Strand.MINUS), (2, 30, Strand.PLUS), (40, 40, Strand.PLUS)]:
        rec(f"{prefix}.sequence_interval_to_feature.{a}.{b}.{s}", lambda: o.sequence_interval_to_feature(a, b, s))
        rec(f"{prefix}.feature_interval_to_sequence.{a}.{b}.{s}", lambda: o.feature_interval_to_sequence(a, b, s))
        rec(
            f"{prefix}.chunk_relative_interval_to_feature.{a}.{b}.{s}",
            lambda: o.chunk_relative_interval_to_feature(a, b, s),
        )
        rec(
            f"{prefix}.feature_interval_to_chunk_relative.{a}.{b}.{s}",
            lambda: o.feature_interval_to_chunk_relative(a, b, s),
        )
    # exports must not change the operand
    before = None
    try:
        before = snapshot(o)
    except Exception:  # noqa
        pass
    pq = {k: set(v) for k, v in PARENT_QUALS.items()}
    rec(f"{prefix}.export_qualifiers", lambda: o.export_qualifiers())
    rec(f"{prefix}.export_qualifiers.parent", lambda: o.export_qualifiers(pq))
    rec(f"{prefix}.export_qualifiers.empty", lambda: o.export_qualifiers({}))
    rec(f"{prefix}._merge_qualifiers", lambda: o._merge_qualifiers(pq))
    rec(f"{prefix}._export_qualifiers_to_list", lambda: o._export_qualifiers_to_list())
    rec(f"{prefix}.to_gff", lambda: [str(r) for r in o.to_gff()])
    rec(f"{prefix}.to_gff.parent", lambda: [str(r) for r in o.to_gff(parent="theparent", parent_qualifiers=pq)])
    rec(
        f"{prefix}.to_gff.rel",
        lambda: [str(r) for r in o.to_gff(parent_qualifiers=pq, chromosome_relative_coordinates=False)],
    )
    rec(f"{prefix}.parent_quals_unchanged", lambda: pq)
    rec(f"{prefix}.to_bed12", lambda: str(o.to_bed12()))
    rec(f"{prefix}.to_bed12.rel", lambda: str(o.to_bed12(chromosome_relative_coordinates=False)))
    rec(f"{prefix}.operand_unchanged", lambda: before == snapshot(o))
    rec(f"{prefix}.eq_twin", lambda: o == get())
    return o


WINDOWS = [
    (None, None, False), (0, None, False), (None, 35, False), (13, 35, False), (13, 35, True), (14, 36, True),
    (29, 55, False), (29, 55, True), (60, 200, False), (22, 22, False), (22, 22, True), (64, 70, True), (0, 12, False),
]  # fmt: skip


def cds_checks(prefix, get):
    o = feature_interval_accessors(prefix, get)
    if o is None:
        return
    rec(f"{prefix}.frames", lambda: o.frames)
    rec(f"{prefix}.chunk_relative_frames", lambda: o.chunk_relative_frames)
    for flag in (True, False):
        rec(f"{prefix}._frame_iter.{flag}", lambda: list(o._frame_iter(flag)))
        rec(f"{prefix}._exon_iter.{flag}", lambda: list(o._exon_iter(flag)))
    # cold extract_sequence, then codon locations, then the cached path
    rec(f"{prefix}.extract_sequence.cold", lambda: o.extract_sequence())
    rec(f"{prefix}.num_codons", lambda: o.num_codons)
    rec(f"{prefix}.num_chunk_relative_codons", lambda: o.num_chunk_relative_codons)
    rec(f"{prefix}.chunk_relative_codon_locations", lambda: o.chunk_relative_codon_locations)
    rec(f"{prefix}.chromosome_codon_locations", lambda: o.chromosome_codon_locations)
    rec(f"{prefix}.extract_sequence.warm", lambda: o.extract_sequence())
    # a twin on which the codon locations are listed before the sequence is extracted
    twin = get()
    rec(f"{prefix}.twin.chunk_relative_codon_locations", lambda: twin.chunk_relative_codon_locations)
    rec(f"{prefix}.twin.extract_sequence.after_codons", lambda: twin.extract_sequence())
    rec(f"{prefix}.twin.translate", lambda: twin.translate())
    rec(f"{prefix}.twin.scan_codons", lambda: list(twin.scan_codons()))
    for trunc in (False, True):
        rec(f"{prefix}.scan_codons.{trunc}", lambda: list(o.scan_codons(truncate_at_in_frame_stop=trunc)))
        for table in (TranslationTable.DEFAULT, TranslationTable.PROKARYOTE):
            for strict in (True, False):
                rec(
                    f"{prefix}.translate.{trunc}.{table.name}.{strict}",
                    lambda: o.translate(truncate_at_in_frame_stop=trunc, translation_table=table, strict=strict),
                )
    rec(f"{prefix}.has_canonical_start_codon", lambda: o.has_canonical_start_codon)
    rec(
        f"{prefix}.has_start_codon_in_specific_translation_table",
        lambda: o.has_start_codon_in_specific_translation_table(TranslationTable.PROKARYOTE),
    )
    rec(f"{prefix}.has_valid_stop", lambda: o.has_valid_stop)
    rec(f"{prefix}.has_in_frame_stop", lambda: o.has_in_frame_stop)
    rec(f"{prefix}._first_codon_is_on_chunk", lambda: o._first_codon_is_on_chunk())
    rec(f"{prefix}.scan_codon_locations", lambda: list(o.scan_codon_locations()))
    for ws, we, expand in WINDOWS:
        rec(
            f"{prefix}.scan_chunk_relative_codon_locations.{ws}.{we}.{expand}",
            lambda: list(o.scan_chunk_relative_codon_locations(ws, we, expand)),
        )
        rec(
            f"{prefix}.scan_chromosome_codon_locations.{ws}.{we}.{expand}",
            lambda: list(o.scan_chromosome_codon_locations(ws, we, expand)),
        )
        rec(
            f"{prefix}._convert_window.{ws}.{we}.{expand}",
            lambda: o._convert_chromosome_start_end_to_relative_window(ws, we, expand),
        )
    for a, b in [(0, 120), (13, 14), (19, 29), (41, 49), (62, 64)]:
        rec(f"{prefix}._expand_coordinates_to_codons.{a}.{b}", lambda: o._expand_coordinates_to_codons(a, b))
    rec(f"{prefix}.optimize_blocks", lambda: o.optimize_blocks())
    rec(f"{prefix}.optimize_and_combine_blocks", lambda: o.optimize_and_combine_blocks())
    for pos in [0, 1, 7, 8, 20, 32, 33]:
        rec(f"{prefix}.cds_pos_to_sequence.{pos}", lambda: o.cds_pos_to_sequence(pos))
        rec(f"{prefix}.cds_pos_to_chunk_relative.{pos}", lambda: o.cds_pos_to_chunk_relative(pos))
    for pos in [12, 19, 20, 28, 62, 63, 102]:
        rec(f"{prefix}.sequence_pos_to_cds.{pos}", lambda: o.sequence_pos_to_cds(pos))
        rec(f"{prefix}.chunk_relative_pos_to_cds.{pos}", lambda: o.chunk_relative_pos_to_cds(pos))
        rec(f"{prefix}.sequence_pos_to_amino_acid.{pos}", lambda: o.sequence_pos_to_amino_acid(pos))
    rec(f"{prefix}.final_snapshot", lambda: snapshot(o))
    rec(f"{prefix}.final_eq_twin", lambda: (o == get(), hash(o) == hash(get())))


def run_cds():
    for pname, pf in parent_factories():
        for sname, spec in CDS_SPECS.items():
            prefix = f"cds[{sname}|{pname}]"
            try:
                make_cds(spec, pf())
            except Exception as e:  # noqa
                RESULTS[f"{prefix}.construct"] = exc(e)
                continue
            cds_checks(prefix, lambda spec=spec, pf=pf: make_cds(spec, pf()))
    # construct_frames_from_location
    locs = {
        "single": SingleInterval(3, 30, Strand.PLUS),
        "c_plus": CompoundInterval([0, 7, 12], [5, 11, 18], Strand.PLUS),
        "c_minus": CompoundInterval([0, 7, 12], [5, 11, 18], Strand.MINUS),
        "c_uns": CompoundInterval([0, 7, 12], [5, 11, 18], Strand.UNSTRANDED),
        "c_many": CompoundInterval([3, 15, 33, 52, 77, 101], [9, 27, 46, 70, 95, 118], Strand.MINUS),
        "c_two": CompoundInterval([3, 15], [4, 27], Strand.PLUS),
        "empty": EmptyLocation(),
    }
    for lname, loc in locs.items():
        for frame in CDSFrame:
            rec(
                f"construct_frames[{lname}|{frame.name}]", lambda: CDSInterval.construct_frames_from_location(loc, frame)
            )
        rec(f"construct_frames[{lname}|default]", lambda: CDSInterval.construct_frames_from_location(loc))
    # from_location / from_chunk_relative_location
    chunk = seq_chunk_to_parent(GENOME[10:60], "chr1", 10, 60)
    rec(
        "cds.from_location",
        lambda: CDSInterval.from_location(
            CompoundInterval([12, 28], [20, 40], Strand.PLUS, parent=seq_to_parent(GENOME)), [F.ZERO, F.TWO]
        ),
    )
    rec(
        "cds.from_location.chunk",
        lambda: CDSInterval.from_location(CompoundInterval([2, 18], [10, 30], Strand.PLUS, parent=chunk), [F.ZERO]),
    )
    rec(
        "cds.from_chunk_relative_location",
        lambda: CDSInterval.from_chunk_relative_location(
            CompoundInterval([2, 18], [10, 30], Strand.MINUS, parent=chunk), [F.ZERO, F.TWO]
        ),
    )


# ---------------------------------------------------------------------------------------------------------------------
# transcripts / features / genes / collections
# ---------------------------------------------------------------------------------------------------------------------
TX_SPECS = {
    "coding_p": dict(exon_starts=[5, 28, 50], exon_ends=[20, 40, 80], strand=Strand.PLUS, cds=([12, 28, 50], [20, 40, 63])),
    "coding_m": dict(exon_starts=[5, 28, 50], exon_ends=[20, 40, 80], strand=Strand.MINUS, cds=([12, 28, 50], [20, 40, 63])),
    "full_cds_p": dict(exon_starts=[12, 28], exon_ends=[20, 40], strand=Strand.PLUS, cds=([12, 28], [20, 40])),
    "single_exon_m": dict(exon_starts=[60], exon_ends=[110], strand=Strand.MINUS, cds=([70], [103])),
    "noncoding_p": dict(exon_starts=[5, 28, 50], exon_ends=[20, 40, 80], strand=Strand.PLUS, cds=None),
    "noncoding_m": dict(exon_starts=[2, 90], exon_ends=[11, 118], strand=Strand.MINUS, cds=None),
}  # fmt: skip


def make_tx(spec, parent, **kw):
    cds = spec["cds"]
    args = dict(
        exon_starts=list(spec["exon_starts"]),
        exon_ends=list(spec["exon_ends"]),
        strand=spec["strand"],
        qualifiers={k: list(v) for k, v in QUALS.items()},
        transcript_id="tx1",
        transcript_symbol="txsym",
        sequence_name="chr1",
        protein_id="prot1",
        product="prod",
        parent_or_seq_chunk_parent=parent,
    )
    if cds:
        args.update(
            cds_starts=list(cds[0]),
            cds_ends=list(cds[1]),
            cds_frames=cds_frames(cds[0], cds[1], spec["strand"], None),
            transcript_type=Biotype.protein_coding,
        )
    args.update(kw)
    return TranscriptInterval(**args)


def tx_checks(prefix, get):
    o = feature_interval_accessors(prefix, get)
    simple = [
        "is_primary_tx", "cds_location", "cds_chunk_relative_location", "chromosome_intron_location",
        "chunk_relative_intron_location", "is_coding", "has_in_frame_stop", "cds_size", "chunk_relative_cds_size",
        "cds_start", "cds_end", "chunk_relative_cds_start", "chunk_relative_cds_end", "chunk_relative_cds_blocks",
    ]  # fmt: skip
    for name in simple:
        rec(f"{prefix}.{name}", lambda: getattr(o, name))
    rec(f"{prefix}.cds_blocks", lambda: list(o.cds_blocks))
    for m in ["get_5p_interval", "get_3p_interval", "get_transcript_sequence", "get_cds_sequence"]:
        rec(f"{prefix}.{m}", lambda: getattr(o, m)())
        rec(f"{prefix}.{m}.again", lambda: getattr(o, m)())
    rec(f"{prefix}.get_protein_sequence", lambda: o.get_protein_sequence())
    rec(f"{prefix}.get_protein_sequence.trunc", lambda: o.get_protein_sequence(truncate_at_in_frame_stop=True))
    rec(
        f"{prefix}.get_protein_sequence.table",
        lambda: o.get_protein_sequence(translation_table=TranslationTable.PROKARYOTE),
    )
    for pos in [0, 3, 7, 8, 20, 33, 56]:
        for m in [
            "cds_pos_to_sequence", "cds_pos_to_chunk_relative", "cds_pos_to_transcript", "transcript_pos_to_cds",
            "transcript_pos_to_sequence", "transcript_pos_to_chunk_relative",
        ]:  # fmt: skip
            rec(f"{prefix}.{m}.{pos}", lambda: getattr(o, m)(pos))
    for pos in [5, 12, 19, 20, 29, 62, 63, 79, 102]:
        for m in [
            "sequence_pos_to_cds", "chunk_relative_pos_to_cds", "sequence_pos_to_transcript",
            "chunk_relative_pos_to_transcript",
        ]:  # fmt: skip
            rec(f"{prefix}.{m}.{pos}", lambda: getattr(o, m)(pos))
    for a, b, s in [(0, 5, Strand.PLUS), (13, 35, Strand.MINUS), (2, 30, Strand.PLUS)]:
        for m in [
            "cds_interval_to_sequence", "cds_interval_to_chunk_relative", "sequence_interval_to_cds",
            "chunk_relative_interval_to_cds", "sequence_interval_to_transcript", "transcript_interval_to_sequence",
            "chunk_relative_interval_to_transcript", "transcript_interval_to_chunk_relative",
        ]:  # fmt: skip
            rec(f"{prefix}.{m}.{a}.{b}.{s}", lambda: getattr(o, m)(a, b, s))
    if o.is_coding:
        rec(f"{prefix}.cds.snapshot", lambda: snapshot(o.cds))
        rec(f"{prefix}.cds.chunk_relative_frames", lambda: o.cds.chunk_relative_frames)
    rec(f"{prefix}.final_snapshot", lambda: snapshot(o))


def make_feature(starts, ends, strand, parent, **kw):
    args = dict(
        interval_starts=list(starts),
        interval_ends=list(ends),
        strand=strand,
        qualifiers={k: list(v) for k, v in QUALS.items()},
        sequence_name="chr1",
        feature_types=["promoter", "enhancer"],
        feature_name="feat",
        feature_id="fid",
        parent_or_seq_chunk_parent=parent,
    )
    args.update(kw)
    return FeatureInterval(**args)


def make_gene(parent, variant=0):
    txs = [
        make_tx(TX_SPECS["coding_p"], parent, transcript_id="txA"),
        make_tx(TX_SPECS["noncoding_p"], parent, transcript_id="txB"),
        make_tx(TX_SPECS["full_cds_p"], parent, transcript_id="txC"),
        make_tx(TX_SPECS["coding_p"], parent, transcript_id="txD", transcript_symbol="other"),
    ]
    if variant == 1:
        txs[1] = make_tx(TX_SPECS["noncoding_p"], parent, transcript_id="txB", is_primary_tx=True)
    if variant == 2:
        txs[0] = make_tx(TX_SPECS["coding_p"], parent, transcript_id="txA", is_primary_tx=True)
        txs[2] = make_tx(TX_SPECS["full_cds_p"], parent, transcript_id="txC", is_primary_tx=True)
    if variant == 3:
        txs = txs[1:2] + [make_tx(TX_SPECS["noncoding_m"], parent, transcript_id="txE")]
    return GeneInterval(
        txs,
        gene_id="gene1",
        gene_symbol="sym",
        gene_type=Biotype.protein_coding,
        locus_tag="lt1",
        qualifiers={"gq": ["1", "2"]},
        sequence_name="chr1",
        parent_or_seq_chunk_parent=parent,
    )


def make_feature_collection(parent, variant=0):
    feats = [
        make_feature([3, 30], [9, 48], Strand.PLUS, parent, feature_id="f1"),
        make_feature([60], [90], Strand.MINUS, parent, feature_id="f2"),
        make_feature([3, 30], [9, 48], Strand.MINUS, parent, feature_id="f3"),
    ]
    if variant == 1:
        feats[2] = make_feature([3, 30], [9, 48], Strand.MINUS, parent, feature_id="f3", is_primary_feature=True)
    if variant == 2:
        feats[0] = make_feature([3, 30], [9, 48], Strand.PLUS, parent, feature_id="f1", is_primary_feature=True)
        feats[1] = make_feature([60], [90], Strand.MINUS, parent, feature_id="f2", is_primary_feature=True)
    return FeatureIntervalCollection(
        feats,
        feature_collection_name="fc",
        feature_collection_id="fcid",
        locus_tag="lt2",
        sequence_name="chr1",
        qualifiers={"cq": ["z"]},
        parent_or_seq_chunk_parent=parent,
    )


def collection_accessors(prefix, o):
    for name in [
        "is_chunk_relative", "chunk_relative_size", "has_sequence", "chromosome_location", "chunk_relative_location",
        "_chunk_relative_bounded_chromosome_location", "blocks", "num_blocks", "strand", "chunk_relative_strand",
        "identifiers", "identifiers_dict", "id", "name", "guid", "start", "end", "children_guids",
    ]:  # fmt: skip
        rec(f"{prefix}.{name}", lambda: getattr(o, name))
    rec(f"{prefix}.len", lambda: len(o))
    rec(f"{prefix}.repr", lambda: repr(o))
    rec(f"{prefix}.iter", lambda: [str(c.guid) for c in o])
    rec(f"{prefix}.to_dict", lambda: o.to_dict())
    rec(f"{prefix}._parent_to_dict", lambda: o._parent_to_dict())
    rec(f"{prefix}.get_reference_sequence", lambda: o.get_reference_sequence())
    rec(f"{prefix}.to_gff", lambda: [str(r) for r in o.to_gff()])
    rec(f"{prefix}.to_gff.rel", lambda: [str(r) for r in o.to_gff(chromosome_relative_coordinates=False)])
    rec(f"{prefix}.hash", lambda: hash(o))


def run_tx_and_collections():
    for pname, pf in parent_factories():
        for sname, spec in TX_SPECS.items():
            prefix = f"tx[{sname}|{pname}]"
            try:
                make_tx(spec, pf())
            except Exception as e:  # noqa
                RESULTS[f"{prefix}.construct"] = exc(e)
                continue
            tx_checks(prefix, lambda spec=spec, pf=pf: make_tx(spec, pf()))
        for fname, (starts, ends, strand) in {
            "f_p": ([3, 30], [9, 48], Strand.PLUS),
            "f_m": ([3, 30, 70], [9, 48, 71], Strand.MINUS),
            "f_single": ([60], [90], Strand.UNSTRANDED),
        }.items():
            prefix = f"feature[{fname}|{pname}]"
            try:
                make_feature(starts, ends, strand, pf())
            except Exception as e:  # noqa
                RESULTS[f"{prefix}.construct"] = exc(e)
                continue
            o = feature_interval_accessors(
                prefix, lambda starts=starts, ends=ends, strand=strand, pf=pf: make_feature(starts, ends, strand, pf())
            )
            rec(f"{prefix}.final_snapshot", lambda: snapshot(o))
        for variant in range(4):
            prefix = f"gene[{variant}|{pname}]"
            try:
                gene = make_gene(pf(), variant)
            except Exception as e:  # noqa
                RESULTS[f"{prefix}.construct"] = exc(e)
                continue
            collection_accessors(prefix, gene)
            for m in [
                "get_primary_transcript", "get_primary_cds", "get_primary_transcript_sequence", "get_primary_feature",
                "get_primary_cds_sequence", "get_primary_protein", "get_merged_feature", "get_merged_transcript",
                "get_merged_cds", "export_qualifiers",
            ]:  # fmt: skip
                rec(f"{prefix}.{m}", lambda: getattr(gene, m)())
            rec(f"{prefix}.is_coding", lambda: gene.is_coding)
            guids = [t.guid for t in gene.transcripts]
            rec(f"{prefix}.query_by_guids", lambda: gene.query_by_guids(guids[:2]))
        for variant in range(3):
            prefix = f"fc[{variant}|{pname}]"
            try:
                fc = make_feature_collection(pf(), variant)
            except Exception as e:  # noqa
                RESULTS[f"{prefix}.construct"] = exc(e)
                continue
            collection_accessors(prefix, fc)
            rec(f"{prefix}.get_primary_feature", lambda: fc.get_primary_feature())
            rec(f"{prefix}.export_qualifiers", lambda: fc.export_qualifiers())
        # annotation collections
        prefix = f"ac[{pname}]"
        try:
            parent = pf()
            genes = [make_gene(parent, 0), make_gene(parent, 3)]
            fcs = [make_feature_collection(parent, 0), make_feature_collection(parent, 1)]
            ac = AnnotationCollection(
                feature_collections=fcs,
                genes=genes,
                name="ac",
                id="acid",
                sequence_name="chr1",
                qualifiers={"aq": ["v"]},
                parent_or_seq_chunk_parent=parent,
            )
        except Exception as e:  # noqa
            RESULTS[f"{prefix}.construct"] = exc(e)
            continue
        collection_accessors(prefix, ac)
        for name in [
            "is_empty", "hierarchical_children_guids", "interval_guids_to_collections", "children",
            "non_variant_children", "_child_interval_guid_map",
        ]:  # fmt: skip
            rec(f"{prefix}.{name}", lambda: getattr(ac, name))
            rec(f"{prefix}.{name}.again", lambda: getattr(ac, name))
        rec(f"{prefix}.iter_children", lambda: list(ac.iter_children()))
        child_guids = [c.guid for c in ac.iter_children()]
        grandchild_guids = [g.guid for c in ac.iter_children() for g in c.iter_children()]
        unknown = UUID(int=5)
        # io.models cannot be imported here, which the construction of the resulting collection needs: also observe
        # what the queries select
        spy = AnnotationCollection(
            feature_collections=fcs, genes=genes, name="ac", sequence_name="chr1", parent_or_seq_chunk_parent=parent
        )
        spy._return_collection_for_id_queries = lambda g, f, v: [[str(x.guid) for x in lst] for lst in (g, f, v)]
        rec(f"{prefix}.spy.query_by_guids.all", lambda: spy.query_by_guids(child_guids))
        rec(f"{prefix}.spy.query_by_guids.rev", lambda: spy.query_by_guids(list(reversed(child_guids)) + [unknown]))
        rec(f"{prefix}.spy.query_by_guids.one", lambda: spy.query_by_guids(child_guids[1]))
        rec(f"{prefix}.spy.query_by_guids.dup", lambda: spy.query_by_guids(child_guids[:1] * 2 + child_guids[2:]))
        rec(f"{prefix}.spy.query_by_guids.none", lambda: spy.query_by_guids([unknown]))
        rec(f"{prefix}.spy.query_by_guids.empty", lambda: spy.query_by_guids([]))
        rec(f"{prefix}.spy._child_interval_guid_map", lambda: spy._child_interval_guid_map)
        rec(f"{prefix}.query_by_guids.all", lambda: ac.query_by_guids(child_guids))
        rec(f"{prefix}.query_by_guids.rev", lambda: ac.query_by_guids(list(reversed(child_guids)) + [unknown]))
        rec(f"{prefix}.query_by_guids.one", lambda: ac.query_by_guids(child_guids[0]))
        rec(f"{prefix}.query_by_guids.dup", lambda: ac.query_by_guids(child_guids[:1] * 2))
        rec(f"{prefix}.query_by_guids.none", lambda: ac.query_by_guids([unknown]))
        rec(f"{prefix}.query_by_interval_guids", lambda: ac.query_by_interval_guids(grandchild_guids[::2] + [unknown]))
        rec(f"{prefix}.query_by_interval_guids.one", lambda: ac.query_by_interval_guids(grandchild_guids[-1]))
        rec(
            f"{prefix}.query_by_transcript_interval_guids",
            lambda: ac.query_by_transcript_interval_guids(grandchild_guids),
        )
        rec(f"{prefix}.query_by_feature_interval_guids", lambda: ac.query_by_feature_interval_guids(grandchild_guids))
        rec(f"{prefix}.query_by_feature_identifiers", lambda: ac.query_by_feature_identifiers(["gene1", "fcid", "f2"]))
        for qs, qe, within, coding in [(0, 120, True, False), (10, 50, False, False), (25, 95, True, True), (None, 30, False, False)]:  # fmt: skip
            rec(
                f"{prefix}.query_by_position.{qs}.{qe}.{within}.{coding}",
                lambda: ac.query_by_position(qs, qe, coding_only=coding, completely_within=within),
            )
        rec(f"{prefix}.to_dict.parent", lambda: ac.to_dict(export_parent=True))
        rec(f"{prefix}.final.to_dict", lambda: ac.to_dict())
    # _find_primary_feature directly, including the error path
    for pname in ("noparent", "genome"):
        pf = dict(parent_factories())[pname]
        for variant in range(4):
            rec(
                f"_find_primary_feature.gene[{variant}|{pname}]",
                lambda: AbstractFeatureIntervalCollection._find_primary_feature(make_gene(pf(), variant).transcripts),
            )
        for variant in range(3):
            rec(
                f"_find_primary_feature.fc[{variant}|{pname}]",
                lambda: AbstractFeatureIntervalCollection._find_primary_feature(
                    make_feature_collection(pf(), variant).feature_intervals
                ),
            )
    rec("_find_primary_feature.empty", lambda: AbstractFeatureIntervalCollection._find_primary_feature([]))


# ---------------------------------------------------------------------------------------------------------------------
# initialize_location / liftover
# ---------------------------------------------------------------------------------------------------------------------
def run_liftover():
    factories = dict(parent_factories())
    cases = {
        "one": ([12], [45]),
        "multi": ([12, 28, 50], [20, 40, 63]),
        "adjacent": ([12, 20], [20, 41]),
        "mismatch": ([12, 28], [20]),
        "zero": ([20], [20]),
    }
    for cname, (starts, ends) in cases.items():
        for strand in Strand:
            for pname, pf in factories.items():
                rec(
                    f"initialize_location[{cname}|{strand.name}|{pname}]",
                    lambda: AbstractInterval.initialize_location(starts, ends, strand, pf()),
                )
    # chunk -> chunk liftover
    for src in ("chunk10_60", "chunk33_90", "genome", "noseq"):
        for dst in ("chunk0_120", "chunk14_44", "chunk100_120", "genome", "noseq", "untyped"):
            for strand in (Strand.PLUS, Strand.MINUS):
                key = f"liftover[{src}->{dst}|{strand.name}]"
                try:
                    loc = AbstractInterval.initialize_location([12, 28, 50], [20, 40, 63], strand, factories[src]())
                except Exception as e:  # noqa
                    RESULTS[key + ".construct"] = exc(e)
                    continue
                rec(key, lambda: AbstractInterval.liftover_location_to_seq_chunk_parent(loc, factories[dst]()))
                cds = make_cds(CDS_SPECS["multi_p" if strand == Strand.PLUS else "multi_m"], factories[src]())
                rec(key + ".cds", lambda: cds.liftover_to_parent_or_seq_chunk_parent(factories[dst]()))
                tx = make_tx(TX_SPECS["coding_p" if strand == Strand.PLUS else "coding_m"], factories[src]())
                rec(key + ".tx", lambda: tx.liftover_to_parent_or_seq_chunk_parent(factories[dst]()))
                rec(key + ".tx.unchanged", lambda: snapshot(tx))
    # different chromosome
    other = seq_chunk_to_parent(GENOME[10:60], "chr2", 10, 60)
    loc = AbstractInterval.initialize_location([12, 28], [20, 40], Strand.PLUS, factories["chunk10_60"]())
    rec("liftover.other_chromosome", lambda: AbstractInterval.liftover_location_to_seq_chunk_parent(loc, other))
    # chunk parent without a chromosome / without a sequence
    orphan = Parent(id="x", sequence=Sequence("ACGTACGTACGTACGTACGTACGTAAAAAAAAAAAAAA", Alphabet.NT_STRICT, type=SequenceType.SEQUENCE_CHUNK))
    rec(
        "liftover.orphan_chunk",
        lambda: AbstractInterval.liftover_location_to_seq_chunk_parent(SingleInterval(1, 5, Strand.PLUS), orphan),
    )
    rec("liftover.none", lambda: AbstractInterval.liftover_location_to_seq_chunk_parent(SingleInterval(1, 5, Strand.PLUS)))


# ---------------------------------------------------------------------------------------------------------------------
# Parent
# ---------------------------------------------------------------------------------------------------------------------
def run_parent():
    vals = [None, "a", "b", SequenceType.CHROMOSOME, "chromosome"]
    for a in vals:
        for b in vals:
            for c in vals:
                rec(f"_unique_value_or_none[{a!r},{b!r},{c!r}]", lambda: _unique_value_or_none((a, b, c)))
    rec("_unique_value_or_none.empty", lambda: _unique_value_or_none(()))
    seq = Sequence(GENOME, Alphabet.NT_STRICT, id="chr1", type=SequenceType.CHROMOSOME)
    grand = Parent(id="chr1", sequence_type=SequenceType.CHROMOSOME, sequence=seq)
    mid_p = Parent(
        id="mid",
        sequence_type="contig",
        location=SingleInterval(10, 70, Strand.PLUS),
        sequence=Sequence(GENOME[10:90], Alphabet.NT_STRICT, id="mid", type="contig"),
        parent=Parent(id="chr1", sequence_type=SequenceType.CHROMOSOME, sequence=seq, location=SingleInterval(10, 90, Strand.MINUS)),
    )
    parents = {
        "empty": lambda: Parent(),
        "id": lambda: Parent(id="p"),
        "strand_only": lambda: Parent(id="p", strand=Strand.MINUS),
        "strand_uns": lambda: Parent(id="p", strand=Strand.UNSTRANDED),
        "loc": lambda: Parent(id="p", location=SingleInterval(1, 5, Strand.MINUS)),
        "loc_strand": lambda: Parent(id="p", strand=Strand.PLUS, location=SingleInterval(1, 5, Strand.PLUS)),
        "loc_strand_bad": lambda: Parent(id="p", strand=Strand.PLUS, location=SingleInterval(1, 5, Strand.MINUS)),
        "loc_uns_strand": lambda: Parent(id="p", strand=Strand.PLUS, location=SingleInterval(1, 5, Strand.UNSTRANDED)),
        "loc_empty_strand": lambda: Parent(id="p", strand=Strand.MINUS, location=EmptyLocation()),
        "loc_compound": lambda: Parent(id="p", location=CompoundInterval([1, 9], [5, 12], Strand.MINUS)),
        "seq": lambda: Parent(sequence=seq),
        "seq_loc_too_long": lambda: Parent(sequence=seq, location=SingleInterval(0, 500, Strand.PLUS)),
        "id_clash": lambda: Parent(id="zzz", sequence=seq),
        "type_clash": lambda: Parent(sequence_type="other", sequence=seq),
        "grand": lambda: grand,
        "mid": lambda: mid_p,
        "child": lambda: Parent(id="child", sequence_type="exon", location=SingleInterval(3, 20, Strand.MINUS), parent=mid_p),
        "child_compound": lambda: Parent(
            id="child", sequence_type="exon", location=CompoundInterval([3, 30], [20, 41], Strand.PLUS), parent=mid_p
        ),
        "child_noloc": lambda: Parent(id="child", sequence_type="exon", parent=mid_p),
        "parent_too_short": lambda: Parent(sequence=seq, parent=Parent(sequence=Sequence("ACGT", Alphabet.NT_STRICT))),
        "chunk": lambda: seq_chunk_to_parent(GENOME[10:60], "chr1", 10, 60),
        "genome": lambda: seq_to_parent(GENOME, seq_id="chr1"),
    }  # fmt: skip
    built = {}
    for name, f in parents.items():
        rec(f"parent[{name}].repr", lambda: repr(f()))
        try:
            built[name] = f()
        except Exception:  # noqa
            continue
        p = built[name]
        rec(f"parent[{name}].strand", lambda: p.strand)
        rec(f"parent[{name}].strand.again", lambda: p.strand)
        rec(f"parent[{name}].hash", lambda: hash(p))
        rec(f"parent[{name}].strip_location_info", lambda: p.strip_location_info())
        rec(f"parent[{name}].reset_location", lambda: p.reset_location(SingleInterval(0, 3, Strand.MINUS)))
        rec(f"parent[{name}].reset_location.none", lambda: p.reset_location(None))
        rec(f"parent[{name}].lift_child_location_to_parent", lambda: p.lift_child_location_to_parent())
        for st in [SequenceType.CHROMOSOME, "chromosome", "contig", "exon", SequenceType.SEQUENCE_CHUNK, None, "nope"]:
            for inc in (True, False):
                rec(f"parent[{name}].first_ancestor_of_type.{st}.{inc}", lambda: p.first_ancestor_of_type(st, inc))
                rec(f"parent[{name}].has_ancestor_of_type.{st}.{inc}", lambda: p.has_ancestor_of_type(st, inc))
        for sname, s in {
            "seq": seq,
            "mid": mid_p.sequence,
            "other": Sequence("ACGT", Alphabet.NT_STRICT),
            "empty": Sequence("", Alphabet.NT_STRICT),
            "none": None,
        }.items():
            for inc in (True, False):
                rec(f"parent[{name}].has_ancestor_sequence.{sname}.{inc}", lambda: p.has_ancestor_sequence(s, inc))
        rec(f"parent[{name}].repr.after", lambda: repr(p))
    names = sorted(built)
    for a in names:
        for b in names:
            rec(f"parent.eq[{a},{b}]", lambda: built[a] == built[b])
            rec(f"parent.equals_except_location[{a},{b}]", lambda: built[a].equals_except_location(built[b]))
            rec(
                f"parent.equals_except_location.noseq[{a},{b}]",
                lambda: built[a].equals_except_location(built[b], require_same_sequence=False),
            )
        rec(f"parent.eq[{a},str]", lambda: built[a] == "x")
        rec(f"parent.equals_except_location[{a},None]", lambda: built[a].equals_except_location(None))


# ---------------------------------------------------------------------------------------------------------------------
# locations
# ---------------------------------------------------------------------------------------------------------------------
def run_locations():
    par = lambda: seq_to_parent(GENOME[:60], seq_id="chr1")  # noqa: E731
    noseq = lambda: Parent(id="chr1", sequence_type=SequenceType.CHROMOSOME)  # noqa: E731
    locs = {}
    for strand in Strand:
        for pname, pf in {"nop": lambda: None, "seq": par, "noseq": noseq}.items():
            locs[f"single.{strand.name}.{pname}"] = lambda s=strand, pf=pf: SingleInterval(5, 17, s, pf())
            locs[f"single0.{strand.name}.{pname}"] = lambda s=strand, pf=pf: SingleInterval(5, 5, s, pf())
            locs[f"compound.{strand.name}.{pname}"] = lambda s=strand, pf=pf: CompoundInterval(
                [30, 3, 12], [41, 8, 20], s, pf()
            )
            locs[f"compound_overlap.{strand.name}.{pname}"] = lambda s=strand, pf=pf: CompoundInterval(
                [3, 6, 6, 20], [8, 12, 10, 20], s, pf()
            )
            locs[f"compound_adjacent.{strand.name}.{pname}"] = lambda s=strand, pf=pf: CompoundInterval(
                [3, 8], [8, 12], s, pf()
            )
            locs[f"compound_one.{strand.name}.{pname}"] = lambda s=strand, pf=pf: CompoundInterval([3], [8], s, pf())
    locs["compound_bad_len"] = lambda: CompoundInterval([3, 8], [8], Strand.PLUS)
    locs["compound_empty"] = lambda: CompoundInterval([], [], Strand.PLUS)
    locs["compound_negative"] = lambda: CompoundInterval([-3, 8], [8, 9], Strand.PLUS)
    locs["compound_start_gt_end"] = lambda: CompoundInterval([3, 8], [8, 7], Strand.PLUS)
    locs["compound_too_long"] = lambda: CompoundInterval([3, 8], [8, 700], Strand.PLUS, par())
    locs["compound_parent_with_loc"] = lambda: CompoundInterval(
        [3, 9], [8, 17], Strand.MINUS, Parent(id="q", location=SingleInterval(0, 2, Strand.PLUS))
    )
    locs["single_bad"] = lambda: SingleInterval(9, 3, Strand.PLUS)
    locs["single_too_long"] = lambda: SingleInterval(3, 900, Strand.PLUS, par())
    for name, f in locs.items():
        prefix = f"loc[{name}]"
        rec(f"{prefix}.repr", lambda: repr(f()))
        try:
            loc = f()
        except Exception:  # noqa
            continue
        for attr in [
            "start", "end", "strand", "length", "parent", "is_contiguous", "is_empty", "blocks", "num_blocks",
            "is_overlapping", "_full_span_interval", "parent_id", "parent_type",
        ]:  # fmt: skip
            rec(f"{prefix}.{attr}", lambda: getattr(loc, attr))
        rec(f"{prefix}.is_overlapping.again", lambda: loc.is_overlapping)
        rec(f"{prefix}.str", lambda: str(loc))
        rec(f"{prefix}.hash", lambda: hash(loc))
        rec(f"{prefix}.scan_blocks", lambda: list(loc.scan_blocks()))
        rec(f"{prefix}.extract_sequence", lambda: loc.extract_sequence())
        rec(f"{prefix}.extract_sequence.again", lambda: loc.extract_sequence())
        rec(f"{prefix}.blocks.again", lambda: loc.blocks)
        rec(f"{prefix}.optimize_blocks", lambda: loc.optimize_blocks())
        rec(f"{prefix}.gap_list", lambda: loc.gap_list())
        rec(f"{prefix}.gaps_location", lambda: loc.gaps_location())
        for pos in range(0, 45, 1):
            rec(f"{prefix}.parent_to_relative_pos.{pos}", lambda: loc.parent_to_relative_pos(pos))
        for pos in range(-1, 28):
            rec(f"{prefix}.relative_to_parent_pos.{pos}", lambda: loc.relative_to_parent_pos(pos))
        for a, b, s in [(0, 3, Strand.PLUS), (2, 9, Strand.MINUS), (4, 24, Strand.PLUS), (5, 5, Strand.PLUS), (7, 3, Strand.PLUS), (0, 99, Strand.PLUS)]:  # fmt: skip
            rec(
                f"{prefix}.relative_interval_to_parent_location.{a}.{b}.{s.name}",
                lambda: loc.relative_interval_to_parent_location(a, b, s),
            )
        rec(f"{prefix}.eq_twin", lambda: (loc == f(), hash(loc) == hash(f())))
        rec(f"{prefix}.repr.after", lambda: repr(loc))
    rec(
        "sort_starts_ends",
        lambda: [
            CompoundInterval._sort_starts_ends(s, e, strand)
            for strand in Strand
            for s, e in [([5, 1, 5, 1], [9, 4, 7, 2]), ([1], [2]), ([3, 3, 3], [4, 9, 6])]
        ],
    )


def main():
    ap = argparse.ArgumentParser()
    ap.add_argument("--out")
    ap.add_argument("--compare")
    args = ap.parse_args()
    run_cds()
    run_tx_and_collections()
    run_liftover()
    run_parent()
    run_locations()
    n_exc = sum(1 for v in RESULTS.values() if isinstance(v, list) and v and v[0] == "EXC")
    print(f"{len(RESULTS)} observations recorded ({n_exc} of them are exceptions)")
    if args.out:
        with open(args.out, "w") as fh:
            json.dump(RESULTS, fh, indent=0, sort_keys=True)
        print(f"written to {args.out}")
    if args.compare:
        with open(args.compare) as fh:
            ref = json.load(fh)
        cur = json.loads(json.dumps(RESULTS))
        bad = [k for k in sorted(set(ref) | set(cur)) if ref.get(k, "<missing>") != cur.get(k, "<missing>")]
        for k in bad[:40]:
            print("DIFF", k)
            print("   ref:", json.dumps(ref.get(k, "<missing>"))[:400])
            print("   cur:", json.dumps(cur.get(k, "<missing>"))[:400])
        print(f"{len(bad)} differences out of {len(set(ref) | set(cur))} observations")
        sys.exit(1 if bad else 0)


if __name__ == "__main__":
    main()
