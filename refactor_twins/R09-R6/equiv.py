"""
Equivalence harness for property C09 (collection queries).

Usage (from the worktree root):

    /venv/bin/python _refactor/R2/equiv.py dump /tmp/c09_pristine.json      # on the pristine code
    git apply _refactor/R2/patch.diff
    /venv/bin/python _refactor/R2/equiv.py dump /tmp/c09_patched.json       # on the refactored code
    /venv/bin/python _refactor/R2/equiv.py compare /tmp/c09_pristine.json /tmp/c09_patched.json

Every observation is a JSON-able description of the result (to_dict, bounds, guids, child sequences, reprs) or of the
exception raised (type + message).
"""
import json
import os
import pickle
import random
import sys
import types
from uuid import UUID

if os.environ.get("PYTHONHASHSEED") != "0":
    # reprs of string sets (identifiers, qualifiers) depend on the hash seed in the pristine code already; pin it
    os.environ["PYTHONHASHSEED"] = "0"
    os.execv(sys.executable, [sys.executable] + sys.argv)

sys.path.insert(0, os.getcwd())  # run from the worktree root

import inscripta.biocantor.location  # noqa: F401  (must come first, circular import otherwise)
from inscripta.biocantor.location import SingleInterval, Strand
from inscripta.biocantor.parent import Parent, SequenceType
from inscripta.biocantor.sequence import Alphabet, Sequence


# --------------------------------------------------------------------------------------------------------------------
# `inscripta.biocantor.io.parser` cannot be imported in this environment (marshmallow version); the library imports
# two small functions from it lazily. Provide verbatim copies through a stub module.
# --------------------------------------------------------------------------------------------------------------------
def seq_to_parent(seq, alphabet=Alphabet.NT_EXTENDED_GAPPED, seq_id=None, seq_type=SequenceType.CHROMOSOME):
    return Parent(
        sequence=Sequence(seq, alphabet, type=seq_type, id=seq_id), location=SingleInterval(0, len(seq), Strand.PLUS)
    )


def seq_chunk_to_parent(seq, sequence_name, start, end, strand=Strand.PLUS, alphabet=Alphabet.NT_EXTENDED_GAPPED):
    chunk_id = f"{sequence_name}:{start}-{end}"
    return Parent(
        id=chunk_id,
        sequence=Sequence(
            seq,
            alphabet,
            id=chunk_id,
            type=SequenceType.SEQUENCE_CHUNK,
            parent=Parent(
                location=SingleInterval(
                    start,
                    end,
                    strand,
                    parent=Parent(id=sequence_name, sequence_type=SequenceType.CHROMOSOME),
                )
            ),
        ),
    )


import inscripta.biocantor.io as _io_pkg  # noqa: E402

_stub = types.ModuleType("inscripta.biocantor.io.parser")
_stub.seq_to_parent = seq_to_parent
_stub.seq_chunk_to_parent = seq_chunk_to_parent
sys.modules["inscripta.biocantor.io.parser"] = _stub
_io_pkg.parser = _stub

from inscripta.biocantor.gene.biotype import Biotype  # noqa: E402
from inscripta.biocantor.gene.cds_frame import CDSFrame  # noqa: E402
from inscripta.biocantor.gene.collections import AnnotationCollection  # noqa: E402
from inscripta.biocantor.gene.feature import FeatureInterval, FeatureIntervalCollection  # noqa: E402
from inscripta.biocantor.gene.gene import GeneInterval  # noqa: E402
from inscripta.biocantor.gene.transcript import TranscriptInterval  # noqa: E402
from inscripta.biocantor.gene.variants import VariantInterval, VariantIntervalCollection  # noqa: E402
from inscripta.biocantor.util.bins import bins  # noqa: E402

RESULTS = {}


def jsonable(x):
    return json.loads(json.dumps(x, default=str, sort_keys=False))


def observe(key, fn):
    assert key not in RESULTS, key
    try:
        RESULTS[key] = {"ok": jsonable(fn())}
    except Exception as e:  # noqa
        RESULTS[key] = {"exc": type(e).__name__, "msg": str(e)}


def attempt(fn):
    try:
        return jsonable(fn())
    except Exception as e:  # noqa
        return {"exc": type(e).__name__, "msg": str(e)}


# --------------------------------------------------------------------------------------------------------------------
# descriptions
# --------------------------------------------------------------------------------------------------------------------
def describe_leaf(leaf):
    return dict(
        guid=str(leaf.guid),
        start=leaf.start,
        end=leaf.end,
        chrom_loc=repr(leaf.chromosome_location),
        chunk_loc=attempt(lambda: repr(leaf.chunk_relative_location)),
        spliced=attempt(lambda: str(leaf.get_spliced_sequence())),
        bin=getattr(leaf, "bin", None),
    )


def describe_child(child):
    return dict(
        cls=type(child).__name__,
        guid=str(child.guid),
        start=child.start,
        end=child.end,
        identifiers=sorted(str(x) for x in child.identifiers),
        chrom_loc=repr(child.chromosome_location),
        chunk_loc=attempt(lambda: repr(child.chunk_relative_location)),
        ref_seq=attempt(lambda: str(child.get_reference_sequence())),
        to_dict=attempt(child.to_dict),
        to_dict_chunk=attempt(lambda: child.to_dict(chromosome_relative_coordinates=False)),
        leaves=[describe_leaf(x) for x in child.iter_children()],
        children_guids=attempt(lambda: sorted(str(x) for x in child.children_guids)),
    )


def describe_collection(ac, deep=True):
    if ac is None:
        return None
    d = dict(
        repr=repr(ac),
        str=str(ac),
        len=len(ac),
        is_empty=ac.is_empty,
        start=getattr(ac, "start", "unset"),
        end=getattr(ac, "end", "unset"),
        bin=getattr(ac, "bin", "unset"),
        completely_within=ac.completely_within,
        guid=str(ac.guid),
        name=ac.name,
        id=ac.id,
        sequence_name=ac.sequence_name,
        location=repr(ac._location),
        chunk_parent=attempt(lambda: repr(ac.chunk_relative_location.parent)),
        sequence=attempt(lambda: None if ac.sequence is None else str(ac.sequence)[:200] + f"..{len(ac.sequence)}"),
        gene_guids=[str(x.guid) for x in ac.genes],
        fc_guids=[str(x.guid) for x in ac.feature_collections],
        vc_guids=[str(x.guid) for x in ac.variant_collections],
        children=[str(x.guid) for x in ac.iter_children()],
        non_variant_children=[str(x.guid) for x in ac.iter_non_variant_children()],
        guid_map=[str(k) for k in ac.guid_map],
        to_dict=attempt(ac.to_dict),
    )
    if deep:
        d.update(
            to_dict_chunk=attempt(lambda: ac.to_dict(chromosome_relative_coordinates=False)),
            to_dict_parent=attempt(
                lambda: {
                    k: (v if k != "seq" else (v[:100], len(v)))
                    for k, v in (ac.to_dict(export_parent=True)["parent_or_seq_chunk_parent"] or {}).items()
                }
            ),
            ref_seq=attempt(lambda: (lambda s: (s[:100], s[-100:], len(s)))(str(ac.get_reference_sequence()))),
            members=[describe_child(x) for x in ac.iter_children()],
            hier=attempt(
                lambda: {str(k): sorted(str(x) for x in v) for k, v in ac.hierarchical_children_guids.items()}
            ),
            interval_guids_to_collections=attempt(
                lambda: {str(k): str(v.guid) for k, v in ac.interval_guids_to_collections.items()}
            ),
            child_interval_guid_map=attempt(
                lambda: {str(k): [str(v[0].guid), str(v[1].guid)] for k, v in ac._child_interval_guid_map.items()}
            ),
            alt_haplo=attempt(
                lambda: None
                if ac.alternative_haplotype_mapping is None
                else {str(k): [str(x.guid) for x in v] for k, v in ac.alternative_haplotype_mapping.items()}
            ),
            gff=attempt(lambda: [str(r) for r in ac.to_gff()]),
        )
    return d


# --------------------------------------------------------------------------------------------------------------------
# fixtures
# --------------------------------------------------------------------------------------------------------------------
rng = random.Random(909)
BIG = "".join(rng.choice("ACGT") for _ in range(300000))
SMALL = "TTTTTTTTTTAAGTATTCTTGGACCTAATTAAAAAAAAAAAAAAAAAAACCCCC"


def tx(starts, ends, strand, cds=None, tid=None, parent=None, primary=None, ttype=None):
    kw = {}
    if cds:
        kw = dict(cds_starts=cds[0], cds_ends=cds[1], cds_frames=cds[2])
    return TranscriptInterval(
        exon_starts=starts,
        exon_ends=ends,
        strand=strand,
        transcript_id=tid,
        transcript_symbol=(tid + "_sym") if tid else None,
        transcript_type=ttype,
        is_primary_tx=primary,
        qualifiers={"note": ["q_" + str(tid)]},
        parent_or_seq_chunk_parent=parent,
        **kw,
    )


def gene(txs, gid, parent=None, locus=None):
    return GeneInterval(
        transcripts=txs,
        gene_id=gid,
        gene_symbol=gid + "_sym",
        gene_type=Biotype.protein_coding if any(t.is_coding for t in txs) else Biotype.lncRNA,
        locus_tag=locus,
        qualifiers={"gq": ["v1", "v2"]},
        sequence_name="chr1",
        parent_or_seq_chunk_parent=parent,
    )


def feat(starts, ends, strand, fid, parent=None, types=None):
    return FeatureInterval(
        interval_starts=starts,
        interval_ends=ends,
        strand=strand,
        feature_id=fid,
        feature_name=fid + "_name",
        feature_types=types or ["promoter"],
        qualifiers={"fq": [fid]},
        parent_or_seq_chunk_parent=parent,
    )


def fcoll(feats, cid, parent=None, locus=None):
    return FeatureIntervalCollection(
        feature_intervals=feats,
        feature_collection_id=cid,
        feature_collection_name=cid + "_name",
        feature_collection_type="regulatory",
        locus_tag=locus,
        sequence_name="chr1",
        qualifiers={"cq": ["x"]},
        parent_or_seq_chunk_parent=parent,
    )


F0, F1, F2 = CDSFrame.ZERO, CDSFrame.ONE, CDSFrame.TWO


def big_members(parent, with_variants):
    genes = [
        gene([tx([0], [50], Strand.PLUS, tid="t0", parent=parent)], "g0", parent, locus="L0"),
        gene(
            [
                tx(
                    [100, 300, 700],
                    [200, 400, 900],
                    Strand.PLUS,
                    cds=([150, 300, 700], [200, 400, 800], [F0, F2, F1]),
                    tid="t1a",
                    parent=parent,
                ),
                tx([100, 650], [250, 900], Strand.PLUS, tid="t1b", parent=parent),
                tx([120], [180], Strand.MINUS, tid="t1c", parent=parent),
            ],
            "g1",
            parent,
            locus="L1",
        ),
        gene(
            [
                tx(
                    [2000, 2600, 3300],
                    [2300, 2900, 3500],
                    Strand.MINUS,
                    cds=([2100, 2600, 3300], [2300, 2900, 3400], [F0, F0, F1]),
                    tid="t2a",
                    parent=parent,
                    primary=True,
                ),
                tx([2050, 3400], [2300, 3500], Strand.MINUS, tid="t2b", parent=parent),
            ],
            "g2",
            parent,
        ),
        gene(
            [
                tx(
                    [131000, 131100],
                    [131080, 131200],
                    Strand.PLUS,
                    cds=([131010], [131070], [F0]),
                    tid="t3a",
                    parent=parent,
                )
            ],
            "g3",
            parent,
            locus="L3",
        ),
        gene([tx([262100, 262150], [262140, 262200], Strand.MINUS, tid="t4a", parent=parent)], "g4", parent),
        gene(
            [
                tx([150000], [150500], Strand.PLUS, tid="t5a", parent=parent),
                tx([150100, 150400], [150200, 150450], Strand.MINUS, tid="t5b", parent=parent),
            ],
            "g5",
            parent,
        ),
        gene(
            [tx([131071], [131073], Strand.PLUS, cds=([131071], [131073], [F0]), tid="t6a", parent=parent)],
            "g6",
            parent,
        ),
    ]
    fcs = [
        fcoll(
            [
                feat([500, 800], [600, 1200], Strand.PLUS, "f1a", parent),
                feat([550], [650], Strand.MINUS, "f1b", parent, types=["tfbs", "enhancer"]),
            ],
            "fc1",
            parent,
            locus="L1",
        ),
        fcoll([feat([131072], [131100], Strand.PLUS, "f2a", parent)], "fc2", parent),
        fcoll(
            [
                feat([299000, 299900], [299500, 300000], Strand.MINUS, "f3a", parent),
                feat([299950], [300000], Strand.PLUS, "f3b", parent),
            ],
            "fc3",
            parent,
        ),
        fcoll([feat([100], [900], Strand.PLUS, "f4a", parent)], "g1", parent),  # same identifier as gene g1
    ]
    vcs = []
    if with_variants:
        vcs = [
            VariantIntervalCollection(
                [
                    VariantInterval(160, 161, "G", "SNV", variant_id="v1", parent_or_seq_chunk_parent=parent),
                    VariantInterval(720, 723, "A", "deletion", variant_id="v2", parent_or_seq_chunk_parent=parent),
                ],
                variant_collection_id="vc1",
                variant_collection_name="vc1_name",
                parent_or_seq_chunk_parent=parent,
            ),
            VariantIntervalCollection(
                [VariantInterval(131075, 131076, "TTA", "insertion", variant_id="v3", parent_or_seq_chunk_parent=parent)],
                variant_collection_id="vc2",
                parent_or_seq_chunk_parent=parent,
            ),
        ]
    return genes, fcs, vcs


def build_big(parent, with_variants=True, **kw):
    genes, fcs, vcs = big_members(parent, with_variants)
    return AnnotationCollection(
        feature_collections=fcs,
        genes=genes,
        variant_collections=vcs,
        name="big",
        id="big_id",
        sequence_name="chr1",
        qualifiers={"aq": ["1", "2"]},
        parent_or_seq_chunk_parent=parent,
        **kw,
    )


def small_members(parent, with_variants):
    genes = [
        gene(
            [
                tx([12], [28], Strand.PLUS, cds=([15], [19], [F0]), tid="s1a", parent=parent),
                tx([12, 17, 22], [16, 20, 25], Strand.PLUS, cds=([14, 17, 22], [16, 20, 23], [F0, F2, F2]),
                   tid="s1b", parent=parent),
            ],
            "sg1",
            parent,
            locus="SL1",
        ),
        gene([tx([30, 40], [35, 45], Strand.MINUS, tid="s2a", parent=parent)], "sg2", parent),
    ]
    fcs = [
        fcoll(
            [
                feat([12], [15], Strand.PLUS, "sf1", parent),
                feat([12, 17, 22], [16, 20, 25], Strand.MINUS, "sf2", parent),
            ],
            "sfc1",
            parent,
        ),
        fcoll([feat([35], [40], Strand.MINUS, "sf3", parent)], "sfc2", parent, locus="SL1"),
    ]
    vcs = []
    if with_variants:
        vcs = [
            VariantIntervalCollection(
                [VariantInterval(18, 19, "G", "SNV", variant_id="sv1", parent_or_seq_chunk_parent=parent)],
                variant_collection_id="svc1",
                parent_or_seq_chunk_parent=parent,
            )
        ]
    return genes, fcs, vcs


def build_small(parent, with_variants=False, **kw):
    genes, fcs, vcs = small_members(parent, with_variants)
    return AnnotationCollection(
        feature_collections=fcs,
        genes=genes,
        variant_collections=vcs,
        name="small",
        sequence_name="genome",
        parent_or_seq_chunk_parent=parent,
        **kw,
    )


def make_collections():
    cols = {}
    big_parent = seq_to_parent(BIG, seq_id="chr1")
    cols["big"] = build_big(big_parent)
    cols["big_novar"] = build_big(big_parent, with_variants=False)
    cols["big_noparent"] = build_big(None, with_variants=False)
    cols["big_bounded"] = build_big(None, with_variants=False, start=0, end=300000)
    # a collection that already sits on a chunk crossing the 128kb boundary
    cols["big_chunk"] = build_big(
        seq_chunk_to_parent(BIG[90:270000], "chr1", 90, 270000), with_variants=False
    )
    cols["big_chunk_from_query"] = cols["big_novar"].query_by_position(1000, 200000, completely_within=False)

    cols["small_chrom"] = build_small(
        Parent(id="genome", sequence=Sequence(SMALL, Alphabet.NT_STRICT), sequence_type=SequenceType.CHROMOSOME)
    )
    cols["small_chrom_loc"] = build_small(
        Parent(
            id="genome",
            sequence=Sequence(SMALL, Alphabet.NT_STRICT),
            sequence_type=SequenceType.CHROMOSOME,
            location=SingleInterval(0, len(SMALL), Strand.PLUS),
        ),
        with_variants=True,
    )
    cols["small_seq_to_parent"] = build_small(seq_to_parent(SMALL, seq_id="genome"), with_variants=True)
    cols["small_chunk_10_49"] = build_small(seq_chunk_to_parent(SMALL[10:49], "genome", 10, 49))
    cols["small_chunk_10_49_var"] = build_small(seq_chunk_to_parent(SMALL[10:49], "genome", 10, 49), True)
    cols["small_chunk_narrow"] = build_small(seq_chunk_to_parent(SMALL[14:42], "genome", 14, 42))
    cols["small_noseq"] = build_small(Parent(sequence_type=SequenceType.CHROMOSOME, id="genome"))
    cols["small_none"] = build_small(None)
    cols["small_none_bounded"] = build_small(None, start=5, end=50, completely_within=False)
    cols["empty_with_seq"] = AnnotationCollection(parent_or_seq_chunk_parent=seq_to_parent(SMALL, seq_id="genome"))
    cols["empty_bounded"] = AnnotationCollection(start=3, end=30)
    cols["empty"] = AnnotationCollection()
    return cols


BIG_RANGES = [
    (None, None), (0, None), (None, 300000), (0, 300000), (0, 1), (0, 50), (0, 49), (1, 50), (50, 100),
    (100, 900), (99, 901), (101, 900), (100, 899), (150, 160), (250, 260), (400, 700), (100, 1200), (0, 1200),
    (500, 1200), (2000, 3500), (2300, 2600), (1999, 3501), (2001, 3500),
    (131000, 131200), (130999, 131201), (131071, 131073), (131072, 131073), (131071, 131072),
    (131072, 131100), (131000, 131072), (131072, 262144), (131071, 262145), (131010, 131070),
    (150000, 150500), (150200, 150400), (262100, 262200), (262143, 262145), (262144, 262200),
    (299000, 300000), (299999, 300000), (299950, 300000), (1000, 200000), (90, 270000), (91, 269999),
    (200000, 250000), (0, 131072), (0, 131071), (1, 131072),
    # invalid
    (-1, 10), (10, 10), (20, 10), (0, 300001), (300000, 300000), (300001, 300002), (None, 0), (300000, None),
]

SMALL_RANGES = [
    (None, None), (0, None), (None, 54), (0, 54), (10, 49), (12, 28), (12, 25), (12, 16), (11, 29), (13, 28),
    (16, 17), (20, 22), (21, 22), (25, 30), (28, 35), (28, 36), (27, 36), (24, 36), (30, 45), (29, 46), (35, 40),
    (14, 42), (15, 41), (5, 50), (3, 30), (10, 11), (48, 49), (0, 10), (49, 54), (12, 45), (10, 12), (45, 49),
    (-1, 10), (10, 10), (20, 10), (0, 55), (54, 54), (9, 49), (10, 50),
]

FLAGS = [
    dict(),
    dict(coding_only=True),
    dict(completely_within=False),
    dict(coding_only=True, completely_within=False),
    dict(completely_within=False, expand_location_to_children=True),
    dict(completely_within=True, expand_location_to_children=True),
    dict(coding_only=True, completely_within=False, expand_location_to_children=True),
    dict(coding_only=None, completely_within=None, expand_location_to_children=None),
    dict(coding_only=1, completely_within=1, expand_location_to_children=1),
    dict(coding_only=0, completely_within=0),
]


def run_position_queries(cols):
    for name, ac in cols.items():
        ranges = BIG_RANGES if name.startswith("big") else SMALL_RANGES
        # deep descriptions are expensive on the big genome; use them on a subset there
        for ri, (s, e) in enumerate(ranges):
            for fi, flags in enumerate(FLAGS):
                deep = (not name.startswith("big")) or (fi in (0, 2, 4) and ri % 3 == 0) or name == "big_chunk"
                if name.startswith("big") and name not in ("big", "big_chunk", "big_chunk_from_query") and fi > 4:
                    continue
                observe(
                    f"pos|{name}|{s}|{e}|{sorted(flags.items())}",
                    lambda: describe_collection(ac.query_by_position(s, e, **flags), deep=deep),
                )
        # positional call style + private entry points
        observe(f"pos_positional|{name}", lambda: describe_collection(ac.query_by_position(12, 30, False, False, True)))
        if not ac.is_empty or hasattr(ac, "start"):
            for cw in (True, False):
                for co in (True, False):
                    for (s, e) in ranges[:12]:
                        if s is None or e is None:
                            continue
                        observe(
                            f"_query_by_position|{name}|{s}|{e}|{cw}|{co}",
                            lambda: [[str(x.guid) for x in part] for part in ac._query_by_position(s, e, cw, co)],
                        )
        observe(f"_optimized|{name}", lambda: ac._optimized_query_by_position(0, 10, True, False))


def check_new_optional_parameters(cols):
    """
    R2 adds trailing optional parameters (``_query_by_position(..., use_bins=True)``,
    ``_children_matching_guids(..., guid_map=None)``, ``_query_children_by_interval_guids(..., kinds_wanted=None)``).
    Where they exist, check that the non-default value of ``use_bins`` never changes a result and that spelling out the
    defaults is the same as leaving them out. Nothing is recorded, so dumps of pristine and patched code stay
    comparable.
    """
    import inspect

    if "use_bins" not in inspect.signature(AnnotationCollection._query_by_position).parameters:
        print("(pristine code: no new optional parameters to check)")
        return
    n = 0
    for name, ac in cols.items():
        if not hasattr(ac, "start"):
            continue
        ranges = BIG_RANGES if name.startswith("big") else SMALL_RANGES
        for s, e in ranges:
            if s is None or e is None:
                continue
            for cw in (True, False):
                for co in (True, False):
                    res = [
                        attempt(lambda: [[str(x.guid) for x in part] for part in ac._query_by_position(s, e, cw, co, **kw)])
                        for kw in ({}, {"use_bins": True}, {"use_bins": False})
                    ]
                    assert res[0] == res[1] == res[2], (name, s, e, cw, co, res)
                    n += 1
        for child in ac.iter_children():
            lg = [g.guid for g in child.iter_children()]
            assert child._children_matching_guids(lg) == child._children_matching_guids(lg, None)
            assert child._children_matching_guids(lg) == child._children_matching_guids(lg, guid_map=child.guid_map)
        leaf = [g.guid for c in ac.iter_children() for g in c.iter_children()]
        a = attempt(lambda: describe_collection(ac._query_children_by_interval_guids(leaf), deep=False))
        b = attempt(lambda: describe_collection(ac._query_children_by_interval_guids(leaf, None), deep=False))
        c = attempt(lambda: describe_collection(ac._query_children_by_interval_guids(leaf, (0, 1, 2)), deep=False))
        d = attempt(lambda: describe_collection(ac.query_by_interval_guids(leaf), deep=False))
        assert a == b == c == d, name
    print(f"new optional parameters: {n} position queries agree with and without the bin shortcut")


def run_subset_parent(cols):
    for name, ac in cols.items():
        if not hasattr(ac, "start"):
            continue
        pts = sorted({ac.start, ac.start + 1, ac.start + 7, (ac.start + ac.end) // 2, ac.end - 1, ac.end,
                      max(0, ac.start - 5), ac.end + 5})
        for s in pts:
            for e in pts:
                def f():
                    p = ac._subset_parent(s, e)
                    if p is None:
                        return None
                    seq = str(p.sequence)
                    return dict(repr=repr(p)[:600], id=p.id, seq_head=seq[:60], seq_tail=seq[-60:], n=len(seq),
                                same_object=p is ac.chunk_relative_location.parent)
                observe(f"subset_parent|{name}|{s}|{e}", f)


def run_id_queries(cols):
    bogus = UUID("00000000-0000-0000-0000-000000000001")
    for name, ac in cols.items():
        children = list(ac.iter_children())
        child_guids = [c.guid for c in children]
        leaf_guids = [g.guid for c in children for g in c.iter_children()]
        r = random.Random(hash(name) % 1000 if False else len(name) * 7 + 3)
        subsets = [[], [bogus]]
        if child_guids:
            subsets += [child_guids, list(reversed(child_guids)), child_guids[:1], child_guids[-1:],
                        child_guids[::2] + [bogus], child_guids[:2] * 2]
            for _ in range(6):
                subsets.append(r.sample(child_guids, r.randint(1, len(child_guids))))
        for i, sub in enumerate(subsets):
            observe(f"guids|{name}|{i}", lambda: describe_collection(ac.query_by_guids(sub), deep=(i % 4 == 0)))
        if child_guids:
            observe(f"guids_single|{name}", lambda: describe_collection(ac.query_by_guids(child_guids[0])))
            observe(f"guids_tuple|{name}", lambda: describe_collection(ac.query_by_guids(tuple(child_guids[:2]))))
            observe(f"guids_iter|{name}", lambda: describe_collection(ac.query_by_guids(iter(child_guids[:2]))))
        observe(f"guids_bogus_single|{name}", lambda: describe_collection(ac.query_by_guids(bogus)))
        observe(f"guids_str|{name}", lambda: describe_collection(ac.query_by_guids("abc")))
        observe(f"guids_none|{name}", lambda: describe_collection(ac.query_by_guids(None)))

        lsubsets = [[], [bogus]]
        if leaf_guids:
            lsubsets += [leaf_guids, list(reversed(leaf_guids)), leaf_guids[:1], leaf_guids[-1:],
                         leaf_guids[::2] + [bogus], leaf_guids[:3] * 2, child_guids + leaf_guids[:2]]
            for _ in range(8):
                lsubsets.append(r.sample(leaf_guids, r.randint(1, len(leaf_guids))))
        for meth in ("query_by_interval_guids", "query_by_transcript_interval_guids",
                     "query_by_feature_interval_guids"):
            for i, sub in enumerate(lsubsets):
                observe(f"{meth}|{name}|{i}",
                        lambda: describe_collection(getattr(ac, meth)(sub), deep=(i % 4 == 0)))
            if leaf_guids:
                observe(f"{meth}|{name}|single", lambda: describe_collection(getattr(ac, meth)(leaf_guids[0])))
                observe(f"{meth}|{name}|single_last", lambda: describe_collection(getattr(ac, meth)(leaf_guids[-1])))
                observe(f"{meth}|{name}|tuple", lambda: describe_collection(getattr(ac, meth)(tuple(leaf_guids[:3]))))
            observe(f"{meth}|{name}|bogus_single", lambda: describe_collection(getattr(ac, meth)(bogus)))
            observe(f"{meth}|{name}|none", lambda: describe_collection(getattr(ac, meth)(None)))

        idents = ["g1", "g1_sym", "L1", "fc1", "fc1_name", "vc1", "vc1_name", "sg1", "SL1", "sfc2", "svc1", "nope",
                  "L3", "g6", ""]
        id_sets = [[x] for x in idents] + [idents, idents[:4], ["g2", "g0", "fc3"], [], ("g1", "L0"), {"g3"},
                                           ["g1", "g1"], "g1", "sg2", "zzz"]
        for i, ids in enumerate(id_sets):
            observe(f"identifiers|{name}|{i}",
                    lambda: describe_collection(ac.query_by_feature_identifiers(ids), deep=(i % 5 == 0)))
        observe(f"identifiers|{name}|none", lambda: describe_collection(ac.query_by_feature_identifiers(None)))
        observe(f"identifiers|{name}|mixed",
                lambda: describe_collection(ac.query_by_feature_identifiers(child_guids[:1] + ["g2"])))

        for t in ("feature", "FEATURE", "transcript", "Transcript", "variant", "VARIANT", "gene", "", "features"):
            observe(f"children_by_type|{name}|{t}", lambda: [str(x.guid) for x in ac.get_children_by_type(t)])
        observe(f"children_by_type|{name}|None", lambda: ac.get_children_by_type(None))

        # gene / feature collection level
        for ci, child in enumerate(children):
            lg = [g.guid for g in child.iter_children()]
            csubs = [[], [bogus], lg, list(reversed(lg)), lg[:1], lg[-1:], lg + [bogus], lg[:1] * 2, tuple(lg),
                     leaf_guids]
            for i, sub in enumerate(csubs):
                def f():
                    res = child.query_by_guids(sub)
                    return None if res is None else describe_child(res)
                observe(f"child_guids|{name}|{ci}|{i}", f)
            observe(f"child_guids|{name}|{ci}|single",
                    lambda: (lambda res: None if res is None else describe_child(res))(child.query_by_guids(lg[0])))
            observe(f"child_guids|{name}|{ci}|bogus_single",
                    lambda: (lambda res: None if res is None else describe_child(res))(child.query_by_guids(bogus)))
            observe(f"child_guids|{name}|{ci}|none",
                    lambda: (lambda res: None if res is None else describe_child(res))(child.query_by_guids(None)))
            observe(f"child_guids|{name}|{ci}|iter", lambda: (
                lambda res: None if res is None else describe_child(res))(child.query_by_guids(iter(lg))))


def run_roundtrips(cols):
    for name, ac in cols.items():
        observe(f"describe|{name}", lambda: describe_collection(ac))
        observe(f"pickle|{name}", lambda: describe_collection(pickle.loads(pickle.dumps(ac))))
        observe(f"from_dict_parent|{name}",
                lambda: describe_collection(AnnotationCollection.from_dict(ac.to_dict(export_parent=True))))
        observe(f"from_dict_noparent|{name}",
                lambda: describe_collection(AnnotationCollection.from_dict(ac.to_dict())))
        observe(f"from_dict_given_parent|{name}", lambda: describe_collection(
            AnnotationCollection.from_dict(ac.to_dict(), parent_or_seq_chunk_parent=ac._parent_or_seq_chunk_parent)))
        observe(f"to_dict_chunk_parent|{name}",
                lambda: ac.to_dict(chromosome_relative_coordinates=False, export_parent=True))
        # chained query: query the result of a query (collection already on a chunk)
        def chained():
            first = ac.query_by_position(ac.start + 2, ac.end - 2, completely_within=False)
            second = first.query_by_position(first.start + 1, first.end - 1, completely_within=False)
            third = second.query_by_position(completely_within=True)
            return [describe_collection(x) for x in (first, second, third)]
        observe(f"chained|{name}", chained)


def run_constructor_errors():
    observe("ctor|start_only", lambda: AnnotationCollection(start=1))
    observe("ctor|end_only", lambda: AnnotationCollection(end=1))
    observe("ctor|gene_empty", lambda: GeneInterval(transcripts=[]))
    observe("ctor|fc_empty", lambda: FeatureIntervalCollection(feature_intervals=[]))


def run_bins():
    pts = [-5, -1, 0, 1, 2, 131070, 131071, 131072, 131073, 262143, 262144, 262145, 1048575, 1048576, 1048577,
           8388607, 8388608, 67108863, 67108864, 67108865, 2 ** 29 - 2, 2 ** 29 - 1, 2 ** 29, 2 ** 29 + 1, 2 ** 30]
    r = random.Random(17)
    pts += [r.randrange(0, 2 ** 29) for _ in range(25)]
    for a in pts:
        for b in pts:
            for fmt in ("bed", "gff"):
                for one in (True, False):
                    def f():
                        res = bins(a, b, fmt=fmt, one=one)
                        return sorted(res) if isinstance(res, set) else ["scalar", res]
                    observe(f"bins|{a}|{b}|{fmt}|{one}", f)
    for a, b in [(0, 10), (5, 2 ** 29), (-1, 5), (2 ** 29, 5)]:
        observe(f"bins_default|{a}|{b}", lambda: (lambda x: sorted(x) if isinstance(x, set) else x)(bins(a, b)))
        observe(f"bins_positional|{a}|{b}",
                lambda: (lambda x: sorted(x) if isinstance(x, set) else x)(bins(a, b, "bed", False)))
        observe(f"bins_badfmt|{a}|{b}", lambda: (lambda x: sorted(x) if isinstance(x, set) else x)(bins(a, b, fmt="x")))
        observe(f"bins_truthy_one|{a}|{b}",
                lambda: (lambda x: sorted(x) if isinstance(x, set) else x)(bins(a, b, fmt="bed", one=2)))
        observe(f"bins_none_one|{a}|{b}",
                lambda: (lambda x: sorted(x) if isinstance(x, set) else x)(bins(a, b, fmt="bed", one=None)))


def dump(path):
    cols = make_collections()
    run_roundtrips(cols)
    run_position_queries(cols)
    run_subset_parent(cols)
    run_id_queries(cols)
    run_constructor_errors()
    run_bins()
    check_new_optional_parameters(cols)
    with open(path, "w") as fh:
        json.dump(RESULTS, fh, indent=0, sort_keys=True)
    n_exc = sum(1 for v in RESULTS.values() if "exc" in v)
    print(f"{len(RESULTS)} observations written to {path} ({n_exc} of them are exceptions)")
    from collections import Counter
    print(Counter((v["exc"], v["msg"][:60]) for v in RESULTS.values() if "exc" in v).most_common(40))


def compare(a, b):
    with open(a) as fh:
        ra = json.load(fh)
    with open(b) as fh:
        rb = json.load(fh)
    bad = [k for k in sorted(set(ra) | set(rb)) if ra.get(k) != rb.get(k)]
    print(f"{len(ra)} vs {len(rb)} observations; {len(bad)} differ")
    for k in bad[:10]:
        print("DIFF", k)
        print("   A:", json.dumps(ra.get(k))[:400])
        print("   B:", json.dumps(rb.get(k))[:400])
    return 1 if bad else 0


if __name__ == "__main__":
    if sys.argv[1] == "dump":
        dump(sys.argv[2])
    else:
        sys.exit(compare(sys.argv[2], sys.argv[3]))
