"""
Equivalence script for the C09 refactorings (collection queries).

Usage (from the worktree root):

    /venv/bin/python _refactor/RN/equiv.py dump _refactor/tmp/pristine.json     # on pristine code
    git apply _refactor/RN/patch.diff
    /venv/bin/python _refactor/RN/equiv.py dump _refactor/tmp/patched.json      # on refactored code
    /venv/bin/python _refactor/RN/equiv.py compare _refactor/tmp/pristine.json _refactor/tmp/patched.json

The script exercises, on several collections (plus/minus strand members, multi-exon transcripts, feature
collections, variant collections, whole-chromosome parents, chunk parents on both strands, sequence-less
collections, coordinates that cross 128 kb bin boundaries):

  * bins() on a grid of start/stop/fmt/one,
  * AnnotationCollection.query_by_position for a grid of ranges x all flag combinations
    (both the plain `_query_by_position` path and, through a small pure-python stand-in for `cgranges`,
    the `_optimized_query_by_position` path),
  * `_subset_parent` directly,
  * query_by_guids / query_by_interval_guids / query_by_transcript_interval_guids /
    query_by_feature_interval_guids / query_by_feature_identifiers for all small subsets of ids,
  * GeneInterval.query_by_guids / FeatureIntervalCollection.query_by_guids,
  * re-querying collections that are themselves the result of a query (collections on a chunk).

Every result is serialised (bounds, to_dict incl. the exported parent, member guids, member sequences, or the
exception type and message) and written as JSON.
"""
import os
import sys

if os.environ.get("PYTHONHASHSEED") is None:
    # several reprs print sets of strings; pin the string hash seed so that two runs are comparable
    os.environ["PYTHONHASHSEED"] = "0"
    os.execv(sys.executable, [sys.executable] + sys.argv)

sys.path.insert(0, os.getcwd())  # run from the worktree root

import inscripta.biocantor.location  # noqa: F401,E402  must be first (circular imports otherwise)

import hashlib  # noqa: E402
import itertools  # noqa: E402
import json  # noqa: E402
import random  # noqa: E402
import types  # noqa: E402
from uuid import UUID  # noqa: E402

from inscripta.biocantor.location import SingleInterval, Strand  # noqa: E402
from inscripta.biocantor.parent import Parent, SequenceType  # noqa: E402
from inscripta.biocantor.sequence import Alphabet, Sequence  # noqa: E402


# ---------------------------------------------------------------------------------------------------------------------
# `inscripta.biocantor.io.parser` cannot be imported in this environment (io/models.py fails); the two helpers that
# collections.py imports lazily from it are copied verbatim here and registered as a stand-in module.
# ---------------------------------------------------------------------------------------------------------------------
def seq_to_parent(seq, alphabet=Alphabet.NT_EXTENDED_GAPPED, seq_id=None, seq_type=SequenceType.CHROMOSOME):
    return Parent(
        sequence=Sequence(seq, alphabet, type=seq_type, id=seq_id), location=SingleInterval(0, len(seq), Strand.PLUS)
    )


def seq_chunk_to_parent(seq, sequence_name, start, end, strand=Strand.PLUS, alphabet=Alphabet.NT_EXTENDED_GAPPED):
    chunk_id = f"{sequence_name}:{start}-{end}"
    return Parent(
        id=chunk_id,
        sequence=Sequence(
            seq,
            alphabet,
            id=chunk_id,
            type=SequenceType.SEQUENCE_CHUNK,
            parent=Parent(
                location=SingleInterval(
                    start,
                    end,
                    strand,
                    parent=Parent(id=sequence_name, sequence_type=SequenceType.CHROMOSOME),
                )
            ),
        ),
    )


_parser = types.ModuleType("inscripta.biocantor.io.parser")
_parser.seq_to_parent = seq_to_parent
_parser.seq_chunk_to_parent = seq_chunk_to_parent
sys.modules["inscripta.biocantor.io.parser"] = _parser

from inscripta.biocantor.gene import collections as collections_module  # noqa: E402
from inscripta.biocantor.gene.collections import AnnotationCollection  # noqa: E402
from inscripta.biocantor.gene.feature import FeatureIntervalCollection  # noqa: E402
from inscripta.biocantor.gene.gene import GeneInterval  # noqa: E402
from inscripta.biocantor.util.bins import bins  # noqa: E402


class _FakeCGRanges:
    """Tiny pure-python stand-in with the three cgranges methods the library uses."""

    class cgranges:  # noqa: N801
        def __init__(self):
            self._ivs = []

        def add(self, ctg, start, end, label):
            self._ivs.append((ctg, start, end, label))

        def index(self):
            self._ivs.sort(key=lambda t: (t[1], t[2]))

        def overlap(self, ctg, start, end):
            for c, s, e, label in self._ivs:
                if c == ctg and s < end and start < e:
                    yield s, e, label


# ---------------------------------------------------------------------------------------------------------------------
# input builders
# ---------------------------------------------------------------------------------------------------------------------
def tx(starts, ends, strand, cds=None, tid=None, ttype=None, primary=False, seqname="chr"):
    cds_starts = cds_ends = cds_frames = None
    if cds:
        cds_starts, cds_ends, cds_frames = cds
    return dict(
        exon_starts=starts,
        exon_ends=ends,
        strand=strand,
        cds_starts=cds_starts,
        cds_ends=cds_ends,
        cds_frames=cds_frames,
        qualifiers={"note": ["t", tid or "x"]},
        is_primary_tx=primary,
        transcript_id=tid,
        transcript_symbol=tid and f"sym_{tid}",
        transcript_type=ttype,
        sequence_name=seqname,
        sequence_guid=None,
        protein_id=None,
        product=None,
        transcript_guid=None,
        transcript_interval_guid=None,
    )


def gene(txs, gid, gtype=None, locus=None, seqname="chr"):
    return dict(
        transcripts=txs,
        gene_id=gid,
        gene_symbol=f"sym_{gid}",
        gene_type=gtype,
        locus_tag=locus,
        qualifiers={"gene_note": [gid]},
        sequence_name=seqname,
        sequence_guid=None,
        gene_guid=None,
    )


def feat(starts, ends, strand, fid, types_=None, seqname="chr"):
    return dict(
        interval_starts=starts,
        interval_ends=ends,
        strand=strand,
        qualifiers={"fnote": [fid]},
        sequence_guid=None,
        sequence_name=seqname,
        feature_types=types_,
        feature_name=f"name_{fid}",
        feature_id=fid,
        feature_interval_guid=None,
        feature_guid=None,
        is_primary_feature=False,
    )


def fcoll(feats, cid, locus=None, seqname="chr"):
    return dict(
        feature_intervals=feats,
        feature_collection_name=f"name_{cid}",
        feature_collection_id=cid,
        feature_collection_type="promoterish",
        locus_tag=locus,
        qualifiers={"fc": [cid]},
        sequence_name=seqname,
        sequence_guid=None,
        feature_collection_guid=None,
    )


def var(start, end, seq, vtype, vid):
    return dict(
        start=start,
        end=end,
        sequence=seq,
        variant_type=vtype,
        phase_block=None,
        guid=None,
        variant_guid=None,
        variant_name=f"n_{vid}",
        variant_id=vid,
        qualifiers=None,
    )


def vcoll(vars_, cid, seqname="chr"):
    return dict(
        variant_intervals=vars_,
        variant_collection_name=f"n_{cid}",
        variant_collection_id=cid,
        qualifiers=None,
        sequence_name=seqname,
        sequence_guid=None,
        variant_collection_guid=None,
    )


def coll_dict(genes, fcs, vcs, start=None, end=None, name="coll", seqname="chr"):
    return dict(
        genes=genes,
        feature_collections=fcs,
        variant_collections=vcs,
        name=name,
        id=f"id_{name}",
        qualifiers={"cq": ["v1", "v2"]},
        sequence_name=seqname,
        sequence_guid=None,
        sequence_path=None,
        start=start,
        end=end,
        completely_within=None,
    )


def shift(d, off):
    """Shift every coordinate of a gene / feature collection dict."""
    d = json.loads(json.dumps(d))
    for t in d.get("transcripts", []):
        for k in ("exon_starts", "exon_ends", "cds_starts", "cds_ends"):
            if t[k]:
                t[k] = [x + off for x in t[k]]
    for f in d.get("feature_intervals", []):
        for k in ("interval_starts", "interval_ends"):
            f[k] = [x + off for x in f[k]]
    for v in d.get("variant_intervals", []):
        v["start"] += off
        v["end"] += off
    return d


def small_members():
    genes = [
        gene(
            [
                tx([12], [28], "PLUS", cds=([15], [24], ["ZERO"]), tid="t1", ttype="protein_coding", primary=True),
                tx([12, 17, 22], [16, 20, 25], "PLUS", cds=([14, 17, 22], [16, 20, 23], ["ZERO", "TWO", "TWO"]),
                   tid="t2", ttype="protein_coding"),
            ],
            "g1", gtype="protein_coding", locus="L1",
        ),
        gene([tx([30, 40], [35, 48], "MINUS", tid="t3", ttype="ncRNA")], "g2", gtype="ncRNA", locus="L2"),
        gene(
            [
                tx([50, 60, 70], [55, 66, 80], "MINUS", cds=([52, 60, 70], [55, 66, 74], ["ONE", "ONE", "ZERO"]),
                   tid="t4", ttype="protein_coding"),
                tx([58], [79], "MINUS", tid="t5", ttype="lncRNA"),
            ],
            "g3", gtype="protein_coding",
        ),
        gene([tx([2], [9], "PLUS", tid="t6")], "g4"),
    ]
    fcs = [
        fcoll(
            [
                feat([12], [15], "PLUS", "f1", ["promoter"]),
                feat([12, 17, 22], [16, 20, 25], "PLUS", "f2", ["tfbs", "other"]),
                feat([35], [40], "MINUS", "f3"),
            ],
            "fc1", locus="L1",
        ),
        fcoll([feat([82, 90], [88, 97], "MINUS", "f4", ["x"])], "fc2"),
        fcoll([feat([0], [3], "PLUS", "f5"), feat([95], [100], "PLUS", "f6")], "fc3"),
    ]
    return genes, fcs


def build_collections():
    rnd = random.Random(909)
    out = {}
    genes, fcs = small_members()

    genome100 = "".join(rnd.choice("ACGT") for _ in range(100))

    # 1. whole chromosome parent with sequence
    out["chrom_seq"] = AnnotationCollection.from_dict(
        coll_dict(genes, fcs, None, name="chrom_seq"), parent_or_seq_chunk_parent=seq_to_parent(genome100, seq_id="chr")
    )
    # 2. no parent at all, inferred bounds
    out["no_parent"] = AnnotationCollection.from_dict(coll_dict(genes, fcs, None, name="no_parent"))
    # 3. no parent, explicit bounds wider than the children
    out["no_parent_bounds"] = AnnotationCollection.from_dict(
        coll_dict(genes, fcs, None, start=0, end=120, name="no_parent_bounds")
    )
    # 4. sequence-less chromosome parent
    out["seqless_parent"] = AnnotationCollection.from_dict(
        coll_dict(genes, fcs, None, name="seqless"),
        parent_or_seq_chunk_parent=Parent(id="chr", sequence_type=SequenceType.CHROMOSOME),
    )
    # 5. plus-strand chunk parent 10..90, members partially outside the chunk
    out["chunk_10_90"] = AnnotationCollection.from_dict(
        coll_dict(genes, fcs, None, name="chunk_10_90"),
        parent_or_seq_chunk_parent=seq_chunk_to_parent(genome100[10:90], "chr", 10, 90),
    )
    # 6. chunk parent with explicit bounds narrower than the chunk
    out["chunk_10_90_bounds"] = AnnotationCollection.from_dict(
        coll_dict(genes[:3], fcs[:1], None, start=11, end=85, name="chunk_bounds"),
        parent_or_seq_chunk_parent=seq_chunk_to_parent(genome100[10:90], "chr", 10, 90),
    )
    # 7. chunk with bounds wider than the chunk
    out["chunk_20_70_wide"] = AnnotationCollection.from_dict(
        coll_dict(genes, fcs, None, start=0, end=100, name="chunk_wide"),
        parent_or_seq_chunk_parent=seq_chunk_to_parent(genome100[20:70], "chr", 20, 70),
    )
    # 8. minus strand chunk
    try:
        out["chunk_minus"] = AnnotationCollection.from_dict(
            coll_dict(genes, fcs, None, name="chunk_minus"),
            parent_or_seq_chunk_parent=seq_chunk_to_parent(genome100[5:95], "chr", 5, 95, strand=Strand.MINUS),
        )
    except Exception as e:  # noqa
        out["chunk_minus"] = ("construction failed", type(e).__name__, str(e))
    # 9. with variants
    vcs = [
        vcoll([var(13, 14, "G", "SNV", "v1"), var(18, 19, "TTT", "insertion", "v2")], "vc1"),
        vcoll([var(61, 64, "A", "deletion", "v3")], "vc2"),
    ]
    try:
        out["variants"] = AnnotationCollection.from_dict(
            coll_dict(genes, fcs, vcs, name="variants"),
            parent_or_seq_chunk_parent=seq_to_parent(genome100, seq_id="chr"),
        )
    except Exception as e:  # noqa
        out["variants"] = ("construction failed", type(e).__name__, str(e))
    try:
        out["variants_noseq"] = AnnotationCollection.from_dict(coll_dict(genes[:2], fcs[:1], vcs, name="variants_ns"))
    except Exception as e:  # noqa
        out["variants_noseq"] = ("construction failed", type(e).__name__, str(e))
    # 10. empty collections
    out["empty_bounds"] = AnnotationCollection.from_dict(coll_dict(None, None, None, start=5, end=50, name="empty"))
    out["empty_seq"] = AnnotationCollection.from_dict(
        coll_dict(None, None, None, name="empty_seq"), parent_or_seq_chunk_parent=seq_to_parent(genome100, seq_id="chr")
    )
    # 11. large coordinates crossing 128 kb (2**17 = 131072) bin boundaries; sequence-less
    off = 131072 - 40
    big_genes = [shift(g, off) for g in genes] + [shift(g, 2 * 131072 - 50) for g in genes[:2]]
    for i, g in enumerate(big_genes):
        g["gene_id"] = f"{g['gene_id']}_{i}"
    big_fcs = [shift(f, off) for f in fcs] + [shift(fcs[0], 8 * 131072 - 15)]
    for i, f in enumerate(big_fcs):
        f["feature_collection_id"] = f"{f['feature_collection_id']}_{i}"
    out["big_noseq"] = AnnotationCollection.from_dict(coll_dict(big_genes, big_fcs, None, start=0, end=1200000))
    # 12. large coordinates with a sequence chunk spanning a bin boundary
    chunk_start, chunk_end = 131072 - 60, 131072 + 80
    big_seq = "".join(rnd.choice("ACGT") for _ in range(chunk_end - chunk_start))
    out["big_chunk"] = AnnotationCollection.from_dict(
        coll_dict([shift(g, off) for g in genes], [shift(f, off) for f in fcs], None, name="big_chunk"),
        parent_or_seq_chunk_parent=seq_chunk_to_parent(big_seq, "chr", chunk_start, chunk_end),
    )
    return out


# ---------------------------------------------------------------------------------------------------------------------
# serialisation
# ---------------------------------------------------------------------------------------------------------------------
def jsonable(o):
    if isinstance(o, dict):
        return {str(k): jsonable(v) for k, v in o.items()}
    if isinstance(o, (list, tuple)):
        return [jsonable(x) for x in o]
    if isinstance(o, (set, frozenset)):
        return sorted(jsonable(x) for x in o)
    if isinstance(o, (str, int, float, bool)) or o is None:
        return o
    return repr(o) if not isinstance(o, UUID) else str(o)


def safe(fn):
    try:
        return fn()
    except Exception as e:  # noqa
        return ["EXC", type(e).__name__, str(e)]


def seqs_of(child):
    out = []
    for gc in child.iter_children():
        rec = [str(gc.guid)]
        for meth in ("get_spliced_sequence", "get_reference_sequence", "get_genomic_sequence"):
            if hasattr(gc, meth):
                rec.append(safe(lambda m=meth: str(getattr(gc, m)())))
        if safe(lambda: gc.is_coding) is True and hasattr(gc, "get_cds_sequence"):
            rec.append(safe(lambda: str(gc.get_cds_sequence())))
        rec.append(safe(lambda: repr(gc.chunk_relative_location)))
        rec.append(safe(lambda: repr(gc.chromosome_location)))
        out.append(rec)
    return out


def describe(ac):
    if ac is None:
        return None
    if not isinstance(ac, AnnotationCollection):
        return jsonable(ac)
    return dict(
        bounds=[getattr(ac, "start", "unset"), getattr(ac, "end", "unset")],
        bin=getattr(ac, "bin", "unset"),
        guid=str(ac.guid),
        completely_within=ac.completely_within,
        repr=repr(ac),
        location=repr(ac._location),
        order=[str(c.guid) for c in ac.iter_children()],
        genes=[str(g.guid) for g in ac.genes],
        fcs=[str(g.guid) for g in ac.feature_collections],
        vcs=[str(g.guid) for g in ac.variant_collections],
        to_dict=jsonable(safe(lambda: ac.to_dict())),
        to_dict_parent=jsonable(safe(lambda: ac.to_dict(export_parent=True)["parent_or_seq_chunk_parent"])),
        to_dict_chunk=jsonable(safe(lambda: ac.to_dict(chromosome_relative_coordinates=False))),
        sequence=safe(lambda: str(ac.sequence) if ac.sequence is not None else None),
        collection_sequence=safe(lambda: str(ac.get_reference_sequence())),
        children=[
            [str(c.guid), c.start, c.end, repr(c), safe(lambda c=c: repr(c.chunk_relative_location)), seqs_of(c)]
            for c in ac.iter_children()
        ],
        haplotypes=jsonable(
            safe(
                lambda: None
                if ac.alternative_haplotype_mapping is None
                else {str(k): [repr(x) for x in v] for k, v in ac.alternative_haplotype_mapping.items()}
            )
        ),
    )


def describe_child(c):
    if c is None:
        return None
    return dict(
        repr=repr(c),
        guid=str(c.guid),
        bounds=[c.start, c.end],
        to_dict=jsonable(c.to_dict()),
        loc=safe(lambda: repr(c.chunk_relative_location)),
        seqs=seqs_of(c),
    )


# ---------------------------------------------------------------------------------------------------------------------
# the experiments
# ---------------------------------------------------------------------------------------------------------------------
def bins_grid():
    res = {}
    points = [-5, -1, 0, 1, 2, 100, 131071, 131072, 131073, 262143, 262144, 1048575, 1048576, 1048577, 8388608,
              67108864, 2**29 - 1, 2**29, 2**29 + 5]
    for s, e in itertools.product(points, repeat=2):
        for fmt in ("bed", "gff"):
            for one in (True, False):
                res[f"{s},{e},{fmt},{one}"] = jsonable(safe(lambda: bins(s, e, fmt=fmt, one=one)))
    res["default"] = jsonable([bins(5, 10), bins(131070, 131080), bins(0, 10, "bed"), bins(0, 10, "bed", False)])
    res["badfmt"] = safe(lambda: bins(1, 2, fmt="nope"))
    return res


def position_grid(ac):
    s0, e0 = ac.start, ac.end
    pts = {s0, e0, s0 + 1, e0 - 1, (s0 + e0) // 2}
    for c in ac.iter_children():
        pts.update({c.start, c.end, c.start + 1, c.end - 1, c.start - 1, c.end + 1})
    for b in (131072, 262144, 1048576):
        if s0 <= b <= e0:
            pts.update({b - 1, b, b + 1})
    pts = sorted(p for p in pts if s0 - 2 <= p <= e0 + 2)
    if len(pts) > 13:
        rnd = random.Random(len(pts))
        keep = {s0, e0, pts[0], pts[-1]}
        rest = [p for p in pts if p not in keep]
        pts = sorted(keep | set(rnd.sample(rest, 9)))
    pairs = [(a, b) for a in pts for b in pts if a <= b]
    pairs += [(None, None), (None, pts[len(pts) // 2]), (pts[len(pts) // 2], None), (-1, e0), (0, e0), (0, None)]
    return pairs


def run_position(ac, tag, res, full_flags=True):
    pairs = position_grid(ac)
    flag_sets = list(itertools.product((False, True), repeat=3))
    rnd = random.Random(7)
    for (s, e) in pairs:
        flags_here = flag_sets if full_flags else rnd.sample(flag_sets, 2)
        for coding_only, within, expand in flags_here:
            key = f"{tag}|pos|{s}|{e}|co={coding_only}|cw={within}|ex={expand}"
            res[key] = safe(
                lambda: describe(
                    ac.query_by_position(
                        s, e, coding_only=coding_only, completely_within=within, expand_location_to_children=expand
                    )
                )
            )
    # defaults and odd flag values (None / truthy non-bools)
    res[f"{tag}|pos|defaults"] = safe(lambda: describe(ac.query_by_position()))
    mid = (ac.start + ac.end) // 2
    for within in (None, 1, 0):
        for expand in (None, 1):
            for coding in (None, 1):
                res[f"{tag}|pos|odd|{within}|{expand}|{coding}"] = safe(
                    lambda: describe(ac.query_by_position(ac.start, mid, coding, within, expand))
                )


def run_subset_parent(ac, tag, res):
    s0, e0 = ac.start, ac.end
    pts = sorted({s0 - 3, s0, s0 + 1, s0 + 7, (s0 + e0) // 2, e0 - 1, e0, e0 + 4})
    for a in pts:
        for b in pts:
            if a <= b:
                def go():
                    p = ac._subset_parent(a, b)
                    if p is None:
                        return None
                    return [repr(p), str(p.sequence) if p.sequence is not None else None, p.id]
                res[f"{tag}|subset|{a}|{b}"] = safe(go)


def id_subsets(ids, extra):
    ids = list(ids)
    subsets = [[]]
    subsets += [[i] for i in ids]
    subsets += [list(p) for p in itertools.combinations(ids, 2)][:12]
    subsets += [list(reversed(p)) for p in itertools.combinations(ids, 2)][-4:]
    if len(ids) > 2:
        subsets += [ids, list(reversed(ids)), ids[:3] + [extra], [extra], ids[:2] + ids[:2]]
    return subsets


def run_id_queries(ac, tag, res):
    bogus = UUID("00000000-0000-0000-0000-000000000001")
    child_guids = [c.guid for c in ac.iter_children()]
    interval_guids = [gc.guid for c in ac.iter_children() for gc in c.iter_children()]

    for n, sub in enumerate(id_subsets(child_guids, bogus)):
        res[f"{tag}|guids|{n}"] = safe(lambda: describe(ac.query_by_guids(sub)))
    if child_guids:
        res[f"{tag}|guids|single"] = safe(lambda: describe(ac.query_by_guids(child_guids[0])))
        res[f"{tag}|guids|tuple"] = safe(lambda: describe(ac.query_by_guids(tuple(child_guids[:2]))))
        res[f"{tag}|guids|set"] = safe(lambda: describe(ac.query_by_guids({child_guids[0]})))
    res[f"{tag}|guids|bogus-single"] = safe(lambda: describe(ac.query_by_guids(bogus)))

    for meth in (
        "query_by_interval_guids",
        "query_by_transcript_interval_guids",
        "query_by_feature_interval_guids",
    ):
        for n, sub in enumerate(id_subsets(interval_guids, bogus)):
            res[f"{tag}|{meth}|{n}"] = safe(lambda: describe(getattr(ac, meth)(sub)))
        if interval_guids:
            res[f"{tag}|{meth}|single"] = safe(lambda: describe(getattr(ac, meth)(interval_guids[0])))
            res[f"{tag}|{meth}|single-last"] = safe(lambda: describe(getattr(ac, meth)(interval_guids[-1])))
            res[f"{tag}|{meth}|tuple"] = safe(lambda: describe(getattr(ac, meth)(tuple(interval_guids[:3]))))
        # child-level guids are not interval guids
        res[f"{tag}|{meth}|childguids"] = safe(lambda: describe(getattr(ac, meth)(child_guids)))

    idents = sorted({str(i) for c in ac.iter_children() for i in c.identifiers if isinstance(i, str)})
    for n, sub in enumerate(id_subsets(idents, "nonexistent")):
        res[f"{tag}|idents|{n}"] = safe(lambda: describe(ac.query_by_feature_identifiers(sub)))
    if idents:
        res[f"{tag}|idents|single"] = safe(lambda: describe(ac.query_by_feature_identifiers(idents[0])))
        res[f"{tag}|idents|tuple"] = safe(lambda: describe(ac.query_by_feature_identifiers(tuple(idents[:2]))))
    res[f"{tag}|idents|L1"] = safe(lambda: describe(ac.query_by_feature_identifiers("L1")))

    # child-level query_by_guids
    for c in ac.iter_children():
        if not isinstance(c, (GeneInterval, FeatureIntervalCollection)):
            continue
        gcs = [gc.guid for gc in c.iter_children()]
        for n, sub in enumerate(id_subsets(gcs, bogus)):
            res[f"{tag}|child:{c.guid}|{n}"] = safe(lambda: describe_child(c.query_by_guids(sub)))
        res[f"{tag}|child:{c.guid}|single"] = safe(lambda: describe_child(c.query_by_guids(gcs[0])))
        res[f"{tag}|child:{c.guid}|bogus"] = safe(lambda: describe_child(c.query_by_guids(bogus)))
        res[f"{tag}|child:{c.guid}|tuple"] = safe(lambda: describe_child(c.query_by_guids(tuple(gcs))))

    for t in ("feature", "transcript", "variant", "FEATURE", "Transcript", "nope"):
        res[f"{tag}|children_by_type|{t}"] = safe(lambda: [str(x.guid) for x in ac.get_children_by_type(t)])


def run_all(mode):
    res = {}
    collections = build_collections()
    for name, ac in collections.items():
        tag = f"{mode}|{name}"
        if not isinstance(ac, AnnotationCollection):
            res[f"{tag}|construction"] = jsonable(ac)
            continue
        res[f"{tag}|self"] = describe(ac)
        run_position(ac, tag, res)
        run_subset_parent(ac, tag, res)
        run_id_queries(ac, tag, res)

        # re-query collections that are themselves query results (collections already on a chunk)
        mid = (ac.start + ac.end) // 2
        quarter = (ac.start + mid) // 2
        for n, (a, b, within, expand) in enumerate(
            [(ac.start, mid + 3, False, False), (quarter, ac.end, True, False), (quarter, mid + 5, False, True)]
        ):
            try:
                sub = ac.query_by_position(a, b, completely_within=within, expand_location_to_children=expand)
            except Exception as e:  # noqa
                res[f"{tag}|requery{n}"] = ["EXC", type(e).__name__, str(e)]
                continue
            subtag = f"{tag}|requery{n}"
            run_position(sub, subtag, res, full_flags=False)
            run_subset_parent(sub, subtag, res)
            if n == 0:
                run_id_queries(sub, subtag, res)
    return res


def compact(v):
    """Keep exceptions and small values verbatim; replace big descriptions by a digest plus a short summary."""
    if isinstance(v, dict) and "to_dict" in v:
        digest = hashlib.sha1(json.dumps(v, sort_keys=True).encode()).hexdigest()
        return {"sha1": digest, "bounds": v.get("bounds"), "members": v.get("order", v.get("guid"))}
    return v


def dump(path):
    res = {"bins": bins_grid()}
    # plain path (cgranges is not installed here)
    collections_module.HAS_CGRANGES = False
    res.update(run_all("plain"))
    # optimized path through the stand-in
    collections_module.HAS_CGRANGES = True
    collections_module.cgranges = _FakeCGRanges
    res.update(run_all("cgr"))
    # the optimized function refuses to run without cgranges
    collections_module.HAS_CGRANGES = False
    ac = build_collections()["chrom_seq"]
    res["optimized-without-cgranges"] = safe(lambda: ac._optimized_query_by_position(0, 10, True, False))
    res = {k: compact(v) for k, v in res.items()}
    os.makedirs(os.path.dirname(path) or ".", exist_ok=True)
    with open(path, "w") as fh:
        json.dump(res, fh, sort_keys=True)
    n_exc = sum(1 for v in res.values() if isinstance(v, list) and v[:1] == ["EXC"])
    print(f"wrote {len(res)} results ({n_exc} of them exceptions) to {path}")


def compare(a, b):
    with open(a) as fh:
        ra = json.load(fh)
    with open(b) as fh:
        rb = json.load(fh)
    bad = [k for k in sorted(set(ra) | set(rb)) if ra.get(k, "<missing>") != rb.get(k, "<missing>")]
    print(f"{len(ra)} vs {len(rb)} results; {len(bad)} differ")
    for k in bad[:20]:
        print("DIFF", k)
        print("   A:", json.dumps(ra.get(k, "<missing>"))[:600])
        print("   B:", json.dumps(rb.get(k, "<missing>"))[:600])
    return 1 if bad else 0


if __name__ == "__main__":
    if sys.argv[1] == "dump":
        dump(sys.argv[2])
    elif sys.argv[1] == "compare":
        sys.exit(compare(sys.argv[2], sys.argv[3]))
    else:
        raise SystemExit(__doc__)
