"""Equivalence script for refactoring R1 (object_validation.py / parent.py / location.py).

Usage (from the worktree root):
    /venv/bin/python _refactor/R1/equiv.py dump /tmp/r1_pristine.json      # on the pristine tree
    git apply _refactor/R1/patch.diff
    /venv/bin/python _refactor/R1/equiv.py dump /tmp/r1_patched.json
    /venv/bin/python _refactor/R1/equiv.py compare /tmp/r1_pristine.json /tmp/r1_patched.json
"""
import itertools
import json
import os
import sys

if os.environ.get("PYTHONHASHSEED") != "0":
    # some exception messages print a set of strings: fix the hash seed so that two runs are comparable
    os.environ["PYTHONHASHSEED"] = "0"
    os.execv(sys.executable, [sys.executable] + sys.argv)

sys.path.insert(0, os.getcwd())  # run from the worktree root

import inscripta.biocantor.location  # noqa: F401  (must come first: circular import otherwise)
from inscripta.biocantor.location import SingleInterval, CompoundInterval, EmptyLocation, Strand
from inscripta.biocantor.parent import Parent, SequenceType
from inscripta.biocantor.parent.parent import _unique_value_or_none
from inscripta.biocantor.sequence import Sequence
from inscripta.biocantor.sequence.alphabet import Alphabet
from inscripta.biocantor.util.object_validation import ObjectValidation

RESULTS = {}


def show(value):
    if isinstance(value, (list, tuple)):
        return [show(v) for v in value]
    return repr(value)


def record(label, thunk):
    assert label not in RESULTS, label
    try:
        RESULTS[label] = ["ok", show(thunk())]
    except Exception as e:  # noqa
        RESULTS[label] = ["exc", type(e).__name__, str(e)]


def seq_to_parent(seq, seq_id=None, seq_type=SequenceType.CHROMOSOME):
    return Parent(
        sequence=Sequence(seq, Alphabet.NT_EXTENDED_GAPPED, type=seq_type, id=seq_id),
        location=SingleInterval(0, len(seq), Strand.PLUS),
    )


def seq_chunk_to_parent(seq, sequence_name, start, end, strand=Strand.PLUS):
    chunk_id = f"{sequence_name}:{start}-{end}"
    return Parent(
        id=chunk_id,
        sequence=Sequence(
            seq,
            Alphabet.NT_EXTENDED_GAPPED,
            id=chunk_id,
            type=SequenceType.SEQUENCE_CHUNK,
            parent=Parent(
                location=SingleInterval(
                    start, end, strand, parent=Parent(id=sequence_name, sequence_type=SequenceType.CHROMOSOME)
                )
            ),
        ),
    )


GENOME = "ACGTACGTTTGACCAGTAGCATCAGGATCGACTAGCTAGCATTTTAGC"
SEQ = Sequence(GENOME, Alphabet.NT_STRICT, id="chr1", type="chromosome")
SEQ2 = Sequence("AAAACCCCGGGGTTTT", Alphabet.NT_STRICT, id="chr2", type="chromosome")
SHORT = Sequence("ACGT", Alphabet.NT_STRICT)
EMPTYSEQ = Sequence("", Alphabet.NT_STRICT)


def three_level(strand_mid, strand_top):
    """child location -> 'mid' sequence -> 'top' sequence"""
    top = Sequence(GENOME, Alphabet.NT_STRICT, id="top", type="chromosome")
    mid = Sequence(
        GENOME[10:40] if strand_top is not Strand.MINUS else str(top[10:40].reverse_complement()),
        Alphabet.NT_STRICT,
        id="mid",
        type="contig",
        parent=Parent(location=SingleInterval(10, 40, strand_top), sequence=top, id="top", sequence_type="chromosome"),
    )
    low = Sequence(
        str(mid)[5:25],
        Alphabet.NT_STRICT,
        id="low",
        type="exon",
        parent=Parent(location=SingleInterval(5, 25, strand_mid), sequence=mid),
    )
    return top, mid, low


# ------------------------------------------------------------------ parents
def parent_pool():
    pool = {
        "none": None,
        "bare": Parent(),
        "id1": Parent(id="chr1"),
        "id2": Parent(id="chr2"),
        "typed": Parent(id="chr1", sequence_type="chromosome"),
        "typed2": Parent(id="chr1", sequence_type=SequenceType.SEQUENCE_CHUNK),
        "seq": Parent(sequence=SEQ),
        "seq2": Parent(sequence=SEQ2),
        "idseq": Parent(id="chr1", sequence=SEQ),
        "loc": Parent(id="chr1", location=SingleInterval(2, 9, Strand.MINUS)),
        "loc_empty": Parent(id="chr1", location=SingleInterval(5, 5, Strand.PLUS)),
        "loc_cmp": Parent(id="chr1", location=CompoundInterval([2, 12], [9, 15], Strand.PLUS)),
        "strand": Parent(id="chr1", strand=Strand.MINUS),
        "strand_uns": Parent(id="chr1", strand=Strand.UNSTRANDED),
        "nested": Parent(id="chr1", parent=Parent(id="genome", sequence_type="genome")),
        "nested2": Parent(id="chr1", parent=Parent(id="genome2", sequence_type="genome")),
        "nested_loc": Parent(
            id="c", location=SingleInterval(1, 4, Strand.PLUS), parent=Parent(id="g", location=SingleInterval(3, 30, Strand.MINUS))
        ),
        "chunk": seq_chunk_to_parent(GENOME[5:30], "chr1", 5, 30),
        "chunk_minus": seq_chunk_to_parent(GENOME[5:30], "chr1", 5, 30, Strand.MINUS),
        "chrom": seq_to_parent(GENOME, "chr1"),
        "emptyseq": Parent(sequence=EMPTYSEQ),
    }
    return pool


def location_pool():
    chunk = seq_chunk_to_parent(GENOME[5:30], "chr1", 5, 30)
    chunk_minus = seq_chunk_to_parent(GENOME[5:30], "chr1", 5, 30, Strand.MINUS)
    chrom = seq_to_parent(GENOME, "chr1")
    pool = {
        "si_plus": SingleInterval(3, 12, Strand.PLUS),
        "si_minus": SingleInterval(3, 12, Strand.MINUS),
        "si_uns": SingleInterval(3, 12, Strand.UNSTRANDED),
        "si_zero": SingleInterval(7, 7, Strand.PLUS),
        "si_far": SingleInterval(30, 35, Strand.PLUS),
        "ci_plus": CompoundInterval([2, 8, 15], [5, 11, 20], Strand.PLUS),
        "ci_minus": CompoundInterval([2, 8, 15], [5, 11, 20], Strand.MINUS),
        "ci_overlap": CompoundInterval([2, 4], [6, 9], Strand.PLUS),
        "ci_adjacent": CompoundInterval([2, 6], [6, 9], Strand.MINUS),
        "empty": EmptyLocation(),
        "si_id": SingleInterval(3, 12, Strand.PLUS, parent="chr1"),
        "si_id2": SingleInterval(5, 20, Strand.MINUS, parent="chr2"),
        "si_seq": SingleInterval(3, 12, Strand.PLUS, parent=SEQ),
        "si_seq_minus": SingleInterval(0, 20, Strand.MINUS, parent=SEQ),
        "ci_seq": CompoundInterval([2, 8, 15], [5, 11, 20], Strand.PLUS, parent=SEQ),
        "ci_seq_minus": CompoundInterval([2, 8, 15], [5, 11, 20], Strand.MINUS, parent=SEQ),
        "si_seq2": SingleInterval(3, 12, Strand.PLUS, parent=SEQ2),
        "si_chunk": SingleInterval(2, 20, Strand.PLUS, parent=chunk),
        "si_chunk_minus": SingleInterval(2, 20, Strand.MINUS, parent=chunk),
        "ci_chunk": CompoundInterval([1, 9, 18], [4, 13, 24], Strand.MINUS, parent=chunk),
        "ci_chunk_rev": CompoundInterval([1, 9, 18], [4, 13, 24], Strand.PLUS, parent=chunk_minus),
        "si_chunk_rev": SingleInterval(0, 25, Strand.MINUS, parent=chunk_minus),
        "si_chrom": SingleInterval(10, 30, Strand.PLUS, parent=chrom),
        "ci_chrom": CompoundInterval([10, 20], [15, 30], Strand.MINUS, parent=chrom),
    }
    for sm, st in itertools.product([Strand.PLUS, Strand.MINUS], repeat=2):
        top, mid, low = three_level(sm, st)
        pool[f"si_low_{sm.name}_{st.name}"] = SingleInterval(3, 12, Strand.MINUS, parent=low)
        pool[f"ci_low_{sm.name}_{st.name}"] = CompoundInterval([1, 8, 14], [4, 11, 19], Strand.PLUS, parent=low)
        pool[f"si_mid_{sm.name}_{st.name}"] = SingleInterval(0, 30, Strand.PLUS, parent=mid)
    return pool


def run():
    parents = parent_pool()
    locations = location_pool()

    # ---- _unique_value_or_none
    for vals in [(None, None, None), ("a", None, None), ("a", "a", None), ("a", "b", None), ("a", "b", "c"), (), ("x",)]:
        record(f"unique/{vals}", lambda: _unique_value_or_none(vals))
    record("unique/unhashable", lambda: _unique_value_or_none(([1], None)))

    # ---- ObjectValidation
    for name, loc in locations.items():
        record(f"ov/nonempty/{name}", lambda: ObjectValidation.require_location_nonempty(loc))
        record(f"ov/has_parent/{name}", lambda: ObjectValidation.require_location_has_parent(loc))
        record(f"ov/has_parent_seq/{name}", lambda: ObjectValidation.require_location_has_parent_with_sequence(loc))
    for name, par in parents.items():
        if par is None:
            continue
        record(f"ov/p_has_loc/{name}", lambda: ObjectValidation.require_parent_has_location(par))
        record(f"ov/p_has_parent/{name}", lambda: ObjectValidation.require_parent_has_parent(par))
        record(f"ov/p_has_parent_loc/{name}", lambda: ObjectValidation.require_parent_has_parent_with_location(par))
    for (n1, p1), (n2, p2) in itertools.product(parents.items(), repeat=2):
        record(f"ov/peq/{n1}/{n2}", lambda: ObjectValidation.require_parents_equal_except_location(p1, p2))
        record(
            f"ov/peqseq/{n1}/{n2}",
            lambda: ObjectValidation.require_parents_equal_except_location_and_sequence(p1, p2),
        )
        if p1 is not None:
            record(f"parent/eq/{n1}/{n2}", lambda: p1 == p2)
            record(f"parent/ne/{n1}/{n2}", lambda: p1 != p2)
            record(f"parent/eel/{n1}/{n2}", lambda: p1.equals_except_location(p2))
            record(f"parent/eel_noseq/{n1}/{n2}", lambda: p1.equals_except_location(p2, require_same_sequence=False))
    record("parent/eq/other_type", lambda: parents["id1"] == "chr1")
    record("parent/eel/other_type", lambda: parents["id1"].equals_except_location(5))
    for (n1, l1), (n2, l2) in itertools.product(locations.items(), repeat=2):
        record(f"ov/same_parent/{n1}/{n2}", lambda: ObjectValidation.require_locations_have_same_nonempty_parent(l1, l2))
        for ms in (False, True):
            record(f"ov/overlap/{n1}/{n2}/{ms}", lambda: ObjectValidation.require_locations_overlap(l1, l2, ms))
            record(f"ov/no_overlap/{n1}/{n2}/{ms}", lambda: ObjectValidation.require_locations_do_not_overlap(l1, l2, ms))
    for obj, typ in [(1, int), (True, int), ("a", str), (locations["si_plus"], SingleInterval), (locations["ci_plus"], SingleInterval), (None, type(None))]:
        record(f"ov/type/{obj!r}/{typ.__name__}", lambda: ObjectValidation.require_object_has_type(obj, typ))

    # ---- Parent constructor grid
    ids = [None, "chr1", "other"]
    types = [None, "chromosome", SequenceType.SEQUENCE_CHUNK]
    strands = [None, Strand.PLUS, Strand.MINUS, Strand.UNSTRANDED]
    locs = [
        None,
        SingleInterval(2, 9, Strand.MINUS),
        SingleInterval(5, 5, Strand.PLUS),
        SingleInterval(0, 60, Strand.PLUS),
        CompoundInterval([2, 12], [9, 15], Strand.PLUS),
        SingleInterval(2, 9, Strand.UNSTRANDED, parent="chr1"),
        SingleInterval(1, 3, Strand.PLUS, parent=Parent(id="other", sequence_type="chromosome")),
        EmptyLocation(),
    ]
    seqs = [
        None,
        SEQ,
        SHORT,
        EMPTYSEQ,
        Sequence("ACGTACGTAC", Alphabet.NT_STRICT, id="chr1", type="chromosome", parent=Parent(id="genome")),
        Sequence(
            "ACGTACGTAC",
            Alphabet.NT_STRICT,
            parent=Parent(id="chr1", location=SingleInterval(0, 10, Strand.PLUS), sequence=SEQ),
        ),
    ]
    pars = [None, "genome", "", Parent(id="genome"), Parent(id="zzz"), Parent(id="genome", sequence=SHORT), Parent(sequence=SEQ)]
    n = 0
    for i, t, st, lo, sq, pa in itertools.product(ids, types, strands, locs, seqs, pars):
        n += 1

        def build():
            p = Parent(id=i, sequence_type=t, strand=st, location=lo, sequence=sq, parent=pa)
            return [p, p.strand, p.strand, p.parent, p.id, p.sequence_type, hash(p) == hash(p)]

        record(f"parent/ctor/{n}/{i}/{t}/{st}/{lo!r}/{sq!r}/{pa!r}", build)
    record("parent/ctor/bad_parent_type", lambda: Parent(parent=5))
    record("parent/ctor/bad_location", lambda: Parent(location=5))

    # ---- ancestor walks on parents
    top, mid, low = three_level(Strand.MINUS, Strand.PLUS)
    chain = {
        "p_low": Parent(sequence=low, location=SingleInterval(0, 5, Strand.PLUS)),
        "p_mid": Parent(sequence=mid),
        "p_top": Parent(sequence=top),
        "p_chunk": parents["chunk"],
        "p_nested": parents["nested"],
        "p_bare": parents["bare"],
        "p_typed": parents["typed"],
    }
    wanted_types = ["chromosome", "contig", "exon", "genome", "nope", None, SequenceType.CHROMOSOME, SequenceType.SEQUENCE_CHUNK]
    wanted_seqs = {"top": top, "mid": mid, "low": low, "SEQ": SEQ, "none": None, "emptyseq": EMPTYSEQ}
    for name, par in chain.items():
        for wt in wanted_types:
            for inc in (True, False):
                record(f"parent/first_anc/{name}/{wt}/{inc}", lambda: par.first_ancestor_of_type(wt, inc))
                record(f"parent/has_anc/{name}/{wt}/{inc}", lambda: par.has_ancestor_of_type(wt, inc))
            record(f"parent/first_anc_default/{name}/{wt}", lambda: par.first_ancestor_of_type(wt))
            record(f"parent/has_anc_default/{name}/{wt}", lambda: par.has_ancestor_of_type(wt))
        for sn, sq in wanted_seqs.items():
            for inc in (True, False):
                record(f"parent/has_anc_seq/{name}/{sn}/{inc}", lambda: par.has_ancestor_sequence(sq, inc))
        record(f"parent/strip/{name}", lambda: par.strip_location_info())
        record(f"parent/lift/{name}", lambda: par.lift_child_location_to_parent())
    for name, par in parents.items():
        if par is not None:
            record(f"parent/strand/{name}", lambda: [par.strand, par.strand])
            record(f"parent/lift2/{name}", lambda: par.lift_child_location_to_parent())
            for l2n in ("si_plus", "ci_minus", "si_zero", "empty"):
                record(f"parent/reset_loc/{name}/{l2n}", lambda: (lambda q: [q, q.strand])(par.reset_location(locations[l2n])))
            record(f"parent/reset_loc/{name}/None", lambda: par.reset_location(None))

    # ---- Location methods
    for name, loc in locations.items():
        record(f"loc/parent_lift/{name}", lambda: loc.parent.lift_child_location_to_parent())
        for wt in wanted_types:
            record(f"loc/first_anc/{name}/{wt}", lambda: loc.first_ancestor_of_type(wt))
            record(f"loc/has_anc/{name}/{wt}", lambda: loc.has_ancestor_of_type(wt))
            record(f"loc/lift_type/{name}/{wt}", lambda: loc.lift_over_to_first_ancestor_of_type(wt))
        for sn, sq in wanted_seqs.items():
            if sq is None:
                continue
            record(f"loc/has_anc_seq/{name}/{sn}", lambda: loc.has_ancestor_sequence(sq))
            record(f"loc/lift_seq/{name}/{sn}", lambda: loc.lift_over_to_sequence(sq))
    # three-level hierarchies: the sequences are distinct objects per strand combination
    for sm, st in itertools.product([Strand.PLUS, Strand.MINUS], repeat=2):
        top, mid, low = three_level(sm, st)
        for kind in ("si_low", "ci_low", "si_mid"):
            loc = locations[f"{kind}_{sm.name}_{st.name}"]
            for sn, sq in (("top", top), ("mid", mid), ("low", low)):
                record(f"loc/lift_seq3/{kind}/{sm.name}/{st.name}/{sn}", lambda: loc.lift_over_to_sequence(sq))
                record(f"loc/has_anc_seq3/{kind}/{sm.name}/{st.name}/{sn}", lambda: loc.has_ancestor_sequence(sq))
        for block in locations[f"ci_low_{sm.name}_{st.name}"].blocks:
            for sn, sq in (("top", top), ("mid", mid), ("low", low)):
                record(f"loc/lift_seq3/block{block.start}/{sm.name}/{st.name}/{sn}", lambda: block.lift_over_to_sequence(sq))

    for (n1, l1), (n2, l2) in itertools.product(locations.items(), repeat=2):
        record(f"loc/rel/{n1}/{n2}", lambda: l1.location_relative_to(l2))
        record(f"loc/rel_noopt/{n1}/{n2}", lambda: l1.location_relative_to(l2, optimize_blocks=False))
        record(f"loc/p2rel/{n1}/{n2}", lambda: l1.parent_to_relative_location(l2))
        for ms, fs, sp in itertools.product((False, True), repeat=3):
            record(f"loc/contains/{n1}/{n2}/{ms}/{fs}/{sp}", lambda: l1.contains(l2, ms, fs, sp))
        record(f"loc/contains_fs_none/{n1}/{n2}", lambda: l1.contains(l2, full_span=None))
        record(f"loc/contains_fs_0/{n1}/{n2}", lambda: l1.contains(l2, full_span=0))

    window_args = [
        (1, 1, 0), (3, 1, 0), (3, 2, 1), (3, 5, 0), (9, 1, 0), (9, 1, 1), (10, 1, 0), (5, 3, 4), (5, 3, 5), (1, 1, 8),
        (1, 1, 9), (1, 1, -1), (0, 1, 0), (1, 0, 0), (-1, 2, 0), (2, -1, 0), (4, 4, 100), (11, 3, 0), (13, 1, 0),
        (2.0, 1, 0), (2, 1.0, 0), (2, 1, 0.0), (float("nan"), 1, 0), (float("nan"), 0, 0), (0, float("nan"), 0),
        (1, float("nan"), 0), (2, 1, float("nan")), (True, True, False), ("a", 1, 0), (2, 1, None), (None, 1, 0),
    ]
    for name, loc in locations.items():
        for ws, ss, sp in window_args:
            record(f"loc/scan/{name}/{ws}/{ss}/{sp}", lambda: list(loc.scan_windows(ws, ss, sp)))
        record(f"loc/scan_default/{name}", lambda: list(loc.scan_windows(2, 3)))
        # validation must stay lazy: building the generator never raises
        record(f"loc/scan_lazy/{name}", lambda: type(loc.scan_windows(0, 0, -5)).__name__)


def main():
    mode = sys.argv[1]
    if mode == "dump":
        run()
        with open(sys.argv[2], "w") as fh:
            json.dump(RESULTS, fh, indent=0, sort_keys=True)
        n_exc = sum(1 for v in RESULTS.values() if v[0] == "exc")
        print(f"{len(RESULTS)} cases recorded ({n_exc} raise)")
    elif mode == "compare":
        a = json.load(open(sys.argv[2]))
        b = json.load(open(sys.argv[3]))
        bad = [k for k in sorted(set(a) | set(b)) if a.get(k) != b.get(k)]
        for k in bad[:40]:
            print("DIFF", k, a.get(k), b.get(k))
        print(f"{len(a)} vs {len(b)} cases, {len(bad)} differences")
        sys.exit(1 if bad else 0)


if __name__ == "__main__":
    main()
