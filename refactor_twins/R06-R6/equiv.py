"""
Equivalence harness for the coordinate API of TranscriptInterval / FeatureInterval / CDSInterval (property C06).

Usage (from the worktree root):
    /venv/bin/python _refactor/R2/equiv.py dump /tmp/pristine.json      # on the pristine checkout
    git apply _refactor/R2/patch.diff
    /venv/bin/python _refactor/R2/equiv.py dump /tmp/patched.json       # on the refactored checkout
    /venv/bin/python _refactor/R2/equiv.py compare /tmp/pristine.json /tmp/patched.json
    /venv/bin/python _refactor/R2/equiv.py newparam    # patched code only: the new trailing ``chunk_relative``
                                                       # parameter: explicit False == default, True == chunk_relative_*

Every call is recorded as repr()/str() of its result, or as "EXC:<type>:<message>" when it raises.
"""
import json
import os
import random
import sys

sys.path.insert(0, os.getcwd())  # run from the worktree root

import inscripta.biocantor.location  # noqa: F401  (must come first: circular import otherwise)
from inscripta.biocantor.gene.cds import CDSInterval
from inscripta.biocantor.gene.cds_frame import CDSFrame
from inscripta.biocantor.gene.feature import FeatureInterval
from inscripta.biocantor.gene.transcript import TranscriptInterval
from inscripta.biocantor.location.location_impl import SingleInterval, CompoundInterval
from inscripta.biocantor.location.strand import Strand
from inscripta.biocantor.parent.parent import Parent, SequenceType
from inscripta.biocantor.sequence.alphabet import Alphabet
from inscripta.biocantor.sequence.sequence import Sequence

random.seed(20260)
GENOME = "".join(random.choice("ACGT") for _ in range(120))


# copies of io.parser.seq_to_parent / seq_chunk_to_parent (that module cannot be imported here)
def seq_to_parent(seq, alphabet=Alphabet.NT_EXTENDED_GAPPED, seq_id=None, seq_type=SequenceType.CHROMOSOME):
    return Parent(
        sequence=Sequence(seq, alphabet, type=seq_type, id=seq_id), location=SingleInterval(0, len(seq), Strand.PLUS)
    )


def seq_chunk_to_parent(seq, sequence_name, start, end, strand=Strand.PLUS, alphabet=Alphabet.NT_EXTENDED_GAPPED):
    chunk_id = f"{sequence_name}:{start}-{end}"
    return Parent(
        id=chunk_id,
        sequence=Sequence(
            seq,
            alphabet,
            id=chunk_id,
            type=SequenceType.SEQUENCE_CHUNK,
            parent=Parent(
                location=SingleInterval(
                    start,
                    end,
                    strand,
                    parent=Parent(id=sequence_name, sequence_type=SequenceType.CHROMOSOME),
                )
            ),
        ),
    )


def rec(fn, *args, **kwargs):
    try:
        res = fn(*args, **kwargs)
    except Exception as e:  # noqa
        return f"EXC:{type(e).__name__}:{e}"
    if isinstance(res, (int, bool, str)) or res is None:
        return repr(res)
    if isinstance(res, dict):
        return json.dumps({str(k): str(v) for k, v in res.items()}, sort_keys=True)
    if isinstance(res, (set, frozenset)):
        return repr(sorted(repr(x) for x in res))
    if isinstance(res, (list, tuple)):
        return repr([repr(x) for x in res])
    return f"{type(res).__name__}|{res!r}|{res!s}"


def prop(obj, name):
    return rec(lambda: getattr(obj, name))


# exon structures: (starts, ends)
EXONS = [
    ([10], [40]),
    ([5, 20], [15, 41]),
    ([2, 12, 30], [8, 25, 47]),
    ([0, 7, 12], [5, 11, 18]),
    ([3, 10, 20, 33, 50], [6, 16, 29, 44, 62]),
    ([10, 20], [20, 31]),  # adjacent blocks (0 bp intron)
]


# CDS placements as fractions of the exon structure; resolved per structure below
def cds_placements(starts, ends):
    """Yield (cds_lo, cds_hi) genomic bounds: full length, inner, at exon boundaries, at transcript ends."""
    lo, hi = starts[0], ends[-1]
    out = [(lo, hi)]  # full length
    out.append((lo, ends[0]))  # only first exon, starts at transcript start, ends at exon boundary
    out.append((starts[-1], hi))  # only last exon, ends at transcript end
    out.append((lo + 1, hi - 1))
    out.append((lo + 2, hi))  # reaches the 3' (or 5') end
    out.append((lo, hi - 2))
    if len(starts) > 1:
        out.append((starts[1], ends[-2] if len(starts) > 2 else ends[1] - 1))  # exon-boundary start
        out.append((ends[0] - 1, starts[-1] + 1))  # one base in first and last exon
    # dedupe, keep order
    seen = []
    for x in out:
        if x not in seen and x[0] < x[1]:
            seen.append(x)
    return seen


def clip(starts, ends, lo, hi):
    s, e = [], []
    for a, b in zip(starts, ends):
        a2, b2 = max(a, lo), min(b, hi)
        if a2 < b2:
            s.append(a2)
            e.append(b2)
    return s, e


def parents(starts, ends):
    """Label -> parent: none, chromosome, several chunk parents (covering, partial left, partial right, inner)."""
    lo, hi = starts[0], ends[-1]
    out = {"none": None, "chrom": seq_to_parent(GENOME, seq_id="chr1")}
    chunks = {
        "chunk_cover": (max(lo - 2, 0), hi + 3),
        "chunk_exact": (lo, hi),
        "chunk_left": (0, lo + (hi - lo) // 2),
        "chunk_right": (lo + (hi - lo) // 3, hi + 5),
        "chunk_inner": (lo + 3, hi - 3),
    }
    for label, (a, b) in chunks.items():
        out[label] = seq_chunk_to_parent(GENOME[a:b], "chr1", a, b)
    return out


INTERVAL_STRANDS = [Strand.PLUS, Strand.MINUS]


def interval_queries(lo, hi):
    """A few dozen (start, end) pairs around [lo, hi)."""
    pts = sorted({lo - 1, lo, lo + 4, (lo + hi) // 2, hi - 1, hi, hi + 2})
    return [(a, b) for a in pts for b in pts if 0 <= a <= b]


def exercise_feature_api(obj, prefix, out, kind):
    """kind: 'feature' or 'transcript' - selects the wrappers to call in addition to the base ones."""
    lo, hi = obj.start, obj.end
    n = len(obj)
    for name in [
        "chromosome_location",
        "chunk_relative_location",
        "_chunk_relative_bounded_chromosome_location",
        "chromosome_span",
        "chromosome_gaps_location",
        "chunk_relative_span",
        "chunk_relative_gaps_location",
        "chunk_relative_start",
        "chunk_relative_end",
        "chunk_relative_size",
        "is_chunk_relative",
        "has_sequence",
        "strand",
        "chunk_relative_strand",
        "num_blocks",
        "num_chunk_relative_blocks",
        "chunk_relative_blocks",
        "is_primary_feature",
        "identifiers",
        "guid",
    ]:
        out[f"{prefix}.{name}"] = prop(obj, name)
    out[f"{prefix}.blocks"] = rec(lambda: list(obj.blocks))
    out[f"{prefix}.relative_blocks"] = rec(lambda: list(obj.relative_blocks))
    out[f"{prefix}.len"] = rec(len, obj)
    out[f"{prefix}.str"] = rec(str, obj)
    out[f"{prefix}.repr"] = rec(repr, obj)
    out[f"{prefix}.to_dict"] = rec(obj.to_dict)
    out[f"{prefix}.to_dict_rel"] = rec(obj.to_dict, chromosome_relative_coordinates=False)
    out[f"{prefix}.spliced"] = rec(obj.get_spliced_sequence)
    out[f"{prefix}.reference"] = rec(obj.get_reference_sequence)
    out[f"{prefix}.genomic"] = rec(obj.get_genomic_sequence)

    crl = obj.chunk_relative_location
    c_lo = crl.start if not crl.is_empty else 0
    c_hi = crl.end if not crl.is_empty else 5

    pos_methods = ["sequence_pos_to_feature", "feature_pos_to_sequence"]
    chunk_pos_methods = ["chunk_relative_pos_to_feature", "feature_pos_to_chunk_relative"]
    if kind == "transcript":
        pos_methods += ["sequence_pos_to_transcript", "transcript_pos_to_sequence"]
        chunk_pos_methods += ["chunk_relative_pos_to_transcript", "transcript_pos_to_chunk_relative"]
        pos_methods += ["sequence_pos_to_cds", "cds_pos_to_sequence", "cds_pos_to_transcript", "transcript_pos_to_cds"]
        chunk_pos_methods += ["chunk_relative_pos_to_cds", "cds_pos_to_chunk_relative"]
    for m in pos_methods:
        for p in list(range(lo - 2, hi + 3)) + [-1, n, n + 1]:
            out[f"{prefix}.{m}({p})"] = rec(getattr(obj, m), p)
    for m in chunk_pos_methods:
        for p in list(range(c_lo - 2, c_hi + 3)) + [-1, n, n + 1]:
            out[f"{prefix}.{m}({p})"] = rec(getattr(obj, m), p)

    to_rel = ["sequence_interval_to_feature"]
    to_par = ["feature_interval_to_sequence"]
    c_to_rel = ["chunk_relative_interval_to_feature"]
    c_to_par = ["feature_interval_to_chunk_relative"]
    if kind == "transcript":
        to_rel += ["sequence_interval_to_transcript", "sequence_interval_to_cds"]
        to_par += ["transcript_interval_to_sequence", "cds_interval_to_sequence"]
        c_to_rel += ["chunk_relative_interval_to_transcript", "chunk_relative_interval_to_cds"]
        c_to_par += ["transcript_interval_to_chunk_relative", "cds_interval_to_chunk_relative"]
    for strand in INTERVAL_STRANDS:
        for a, b in interval_queries(lo, hi):
            for m in to_rel:
                out[f"{prefix}.{m}({a},{b},{strand.name})"] = rec(getattr(obj, m), a, b, strand)
        for a, b in interval_queries(0, n):
            for m in to_par + c_to_par:
                out[f"{prefix}.{m}({a},{b},{strand.name})"] = rec(getattr(obj, m), a, b, strand)
        for a, b in interval_queries(c_lo, c_hi):
            for m in c_to_rel:
                out[f"{prefix}.{m}({a},{b},{strand.name})"] = rec(getattr(obj, m), a, b, strand)
    # keyword-argument calls of the public API
    out[f"{prefix}.kw.sequence_pos_to_feature"] = rec(obj.sequence_pos_to_feature, pos=lo)
    out[f"{prefix}.kw.feature_pos_to_sequence"] = rec(obj.feature_pos_to_sequence, pos=0)
    out[f"{prefix}.kw.sequence_interval_to_feature"] = rec(
        obj.sequence_interval_to_feature, chr_start=lo, chr_end=lo + 2, chr_strand=Strand.PLUS
    )
    out[f"{prefix}.kw.feature_interval_to_sequence"] = rec(
        obj.feature_interval_to_sequence, rel_start=0, rel_end=2, rel_strand=Strand.MINUS
    )
    out[f"{prefix}.kw.chunk_relative_interval_to_feature"] = rec(
        obj.chunk_relative_interval_to_feature, chr_start=c_lo, chr_end=c_lo + 2, chr_strand=Strand.PLUS
    )
    out[f"{prefix}.kw.feature_interval_to_chunk_relative"] = rec(
        obj.feature_interval_to_chunk_relative, rel_start=0, rel_end=2, rel_strand=Strand.PLUS
    )

    # intersect
    for a, b in [(lo, lo + 3), (lo + 2, hi - 1), (hi + 1, hi + 4), (lo - 5, lo), ((lo + hi) // 2, hi + 10)]:
        if a < 0:
            continue
        for strand in INTERVAL_STRANDS:
            for with_parent in (False, True):
                try:
                    par = crl.parent if with_parent else None
                    q = SingleInterval(a, b, strand, parent=par)
                except Exception as e:  # noqa
                    out[f"{prefix}.intersect({a},{b},{strand.name},{with_parent})"] = f"EXC-build:{type(e).__name__}"
                    continue
                out[f"{prefix}.intersect({a},{b},{strand.name},{with_parent})"] = rec(obj.intersect, q)


def exercise_transcript_only(tx, prefix, out):
    for name in [
        "is_coding",
        "cds_location",
        "cds_chunk_relative_location",
        "chromosome_intron_location",
        "chunk_relative_intron_location",
        "cds_size",
        "chunk_relative_cds_size",
        "cds_start",
        "cds_end",
        "chunk_relative_cds_start",
        "chunk_relative_cds_end",
        "chunk_relative_cds_blocks",
        "has_in_frame_stop",
        "is_primary_tx",
        "id",
        "name",
    ]:
        out[f"{prefix}.{name}"] = prop(tx, name)
    out[f"{prefix}.cds_blocks"] = rec(lambda: list(tx.cds_blocks))
    out[f"{prefix}.get_5p_interval"] = rec(tx.get_5p_interval)
    out[f"{prefix}.get_3p_interval"] = rec(tx.get_3p_interval)
    out[f"{prefix}.get_transcript_sequence"] = rec(tx.get_transcript_sequence)
    out[f"{prefix}.get_cds_sequence"] = rec(tx.get_cds_sequence)
    out[f"{prefix}.get_protein_sequence"] = rec(tx.get_protein_sequence)
    out[f"{prefix}.kw.cds_pos_to_transcript"] = rec(tx.cds_pos_to_transcript, pos=0)
    out[f"{prefix}.kw.transcript_pos_to_cds"] = rec(tx.transcript_pos_to_cds, pos=0)
    out[f"{prefix}.kw.sequence_pos_to_cds"] = rec(tx.sequence_pos_to_cds, pos=tx.start)
    out[f"{prefix}.kw.cds_pos_to_sequence"] = rec(tx.cds_pos_to_sequence, pos=0)
    out[f"{prefix}.kw.cds_interval_to_sequence"] = rec(
        tx.cds_interval_to_sequence, rel_start=0, rel_end=3, rel_strand=Strand.PLUS
    )
    out[f"{prefix}.kw.sequence_interval_to_cds"] = rec(
        tx.sequence_interval_to_cds, chr_start=tx.start, chr_end=tx.end, chr_strand=Strand.PLUS
    )
    out[f"{prefix}.kw.sequence_pos_to_transcript"] = rec(tx.sequence_pos_to_transcript, pos=tx.start)
    out[f"{prefix}.kw.transcript_interval_to_sequence"] = rec(
        tx.transcript_interval_to_sequence, rel_start=0, rel_end=3, rel_strand=Strand.PLUS
    )


def exercise_cds(cds, prefix, out):
    lo, hi = cds.start, cds.end
    n = len(cds)
    for name in [
        "chromosome_location",
        "chunk_relative_location",
        "chromosome_span",
        "chromosome_gaps_location",
        "chunk_relative_span",
        "chunk_relative_gaps_location",
        "frames",
        "chunk_relative_frames",
        "num_codons",
        "num_chunk_relative_codons",
        "guid",
    ]:
        out[f"{prefix}.{name}"] = prop(cds, name)
    out[f"{prefix}.str"] = rec(str, cds)
    out[f"{prefix}.len"] = rec(len, cds)
    out[f"{prefix}.to_dict"] = rec(cds.to_dict)
    crl = cds.chunk_relative_location
    c_lo = crl.start if not crl.is_empty else 0
    c_hi = crl.end if not crl.is_empty else 5
    for m in [
        "sequence_pos_to_cds",
        "sequence_pos_to_amino_acid",
        "cds_pos_to_sequence",
        "sequence_pos_to_feature",
        "feature_pos_to_sequence",
    ]:
        for p in list(range(lo - 2, hi + 3)) + [-1, n, n + 1]:
            out[f"{prefix}.{m}({p})"] = rec(getattr(cds, m), p)
    for m in ["chunk_relative_pos_to_cds", "cds_pos_to_chunk_relative"]:
        for p in list(range(c_lo - 2, c_hi + 3)) + [-1, n, n + 1]:
            out[f"{prefix}.{m}({p})"] = rec(getattr(cds, m), p)
    for strand in INTERVAL_STRANDS:
        for a, b in interval_queries(lo, hi):
            out[f"{prefix}.sequence_interval_to_cds({a},{b},{strand.name})"] = rec(
                cds.sequence_interval_to_cds, a, b, strand
            )
        for a, b in interval_queries(0, n):
            out[f"{prefix}.cds_interval_to_sequence({a},{b},{strand.name})"] = rec(
                cds.cds_interval_to_sequence, a, b, strand
            )
            out[f"{prefix}.cds_interval_to_chunk_relative({a},{b},{strand.name})"] = rec(
                cds.cds_interval_to_chunk_relative, a, b, strand
            )
        for a, b in interval_queries(c_lo, c_hi):
            out[f"{prefix}.chunk_relative_interval_to_cds({a},{b},{strand.name})"] = rec(
                cds.chunk_relative_interval_to_cds, a, b, strand
            )
    out[f"{prefix}.kw.sequence_pos_to_cds"] = rec(cds.sequence_pos_to_cds, pos=lo)
    out[f"{prefix}.kw.sequence_pos_to_amino_acid"] = rec(cds.sequence_pos_to_amino_acid, pos=lo)
    out[f"{prefix}.kw.cds_pos_to_sequence"] = rec(cds.cds_pos_to_sequence, pos=0)
    out[f"{prefix}.kw.cds_pos_to_chunk_relative"] = rec(cds.cds_pos_to_chunk_relative, pos=0)
    out[f"{prefix}.kw.chunk_relative_pos_to_cds"] = rec(cds.chunk_relative_pos_to_cds, pos=c_lo)
    out[f"{prefix}.kw.cds_interval_to_sequence"] = rec(
        cds.cds_interval_to_sequence, rel_start=0, rel_end=2, rel_strand=Strand.PLUS
    )
    out[f"{prefix}.kw.cds_interval_to_chunk_relative"] = rec(
        cds.cds_interval_to_chunk_relative, rel_start=0, rel_end=2, rel_strand=Strand.PLUS
    )
    out[f"{prefix}.kw.sequence_interval_to_cds"] = rec(
        cds.sequence_interval_to_cds, chr_start=lo, chr_end=lo + 2, chr_strand=Strand.MINUS
    )
    out[f"{prefix}.kw.chunk_relative_interval_to_cds"] = rec(
        cds.chunk_relative_interval_to_cds, chr_start=c_lo, chr_end=c_lo + 2, chr_strand=Strand.MINUS
    )


def build_all():
    out = {}
    n_tx = n_feat = n_cds = 0
    for ei, (starts, ends) in enumerate(EXONS):
        for strand in (Strand.PLUS, Strand.MINUS):
            for plabel, parent in parents(starts, ends).items():
                base = f"E{ei}.{strand.name}.{plabel}"
                # --- FeatureInterval
                try:
                    feat = FeatureInterval(
                        list(starts),
                        list(ends),
                        strand,
                        feature_name="f",
                        feature_id="fid",
                        sequence_name="chr1",
                        parent_or_seq_chunk_parent=parent,
                    )
                except Exception as e:  # noqa
                    out[f"{base}.feature.ctor"] = f"EXC:{type(e).__name__}:{e}"
                else:
                    n_feat += 1
                    exercise_feature_api(feat, f"{base}.feature", out, "feature")
                # --- noncoding transcript
                try:
                    tx = TranscriptInterval(
                        list(starts),
                        list(ends),
                        strand,
                        transcript_id="nc",
                        sequence_name="chr1",
                        parent_or_seq_chunk_parent=parent,
                    )
                except Exception as e:  # noqa
                    out[f"{base}.nctx.ctor"] = f"EXC:{type(e).__name__}:{e}"
                else:
                    n_tx += 1
                    exercise_feature_api(tx, f"{base}.nctx", out, "transcript")
                    exercise_transcript_only(tx, f"{base}.nctx", out)
                # --- coding transcripts
                for ci, (clo, chi) in enumerate(cds_placements(starts, ends)):
                    cs, ce = clip(starts, ends, clo, chi)
                    cds_loc = (
                        SingleInterval(cs[0], ce[0], strand) if len(cs) == 1 else CompoundInterval(cs, ce, strand)
                    )
                    for frame in (CDSFrame.ZERO, CDSFrame.ONE):
                        if frame is CDSFrame.ONE and ci != 3:
                            continue
                        frames = CDSInterval.construct_frames_from_location(cds_loc, frame)
                        key = f"{base}.tx{ci}f{frame.value}"
                        try:
                            tx = TranscriptInterval(
                                list(starts),
                                list(ends),
                                strand,
                                cds_starts=list(cs),
                                cds_ends=list(ce),
                                cds_frames=list(frames),
                                transcript_id="t",
                                transcript_symbol="sym",
                                protein_id="p",
                                sequence_name="chr1",
                                parent_or_seq_chunk_parent=parent,
                            )
                        except Exception as e:  # noqa
                            out[f"{key}.ctor"] = f"EXC:{type(e).__name__}:{e}"
                            continue
                        n_tx += 1
                        exercise_feature_api(tx, key, out, "transcript")
                        exercise_transcript_only(tx, key, out)
                        if tx.cds is not None:
                            n_cds += 1
                            exercise_cds(tx.cds, f"{key}.cds", out)
                        # standalone CDS built directly
                        try:
                            cds = CDSInterval(
                                list(cs), list(ce), strand, list(frames), parent_or_seq_chunk_parent=parent
                            )
                        except Exception as e:  # noqa
                            out[f"{key}.sacds.ctor"] = f"EXC:{type(e).__name__}:{e}"
                        else:
                            if frame is CDSFrame.ZERO and plabel in ("none", "chrom", "chunk_right"):
                                n_cds += 1
                                exercise_cds(cds, f"{key}.sacds", out)
    out["__counts__"] = f"transcripts={n_tx} features={n_feat} cds={n_cds}"
    return out


def check_new_parameter():
    """Only meaningful on the refactored code: the new optional ``chunk_relative`` parameter of the four converters."""
    n = bad = 0
    for starts, ends in EXONS:
        for strand in (Strand.PLUS, Strand.MINUS):
            for parent in parents(starts, ends).values():
                objs = [
                    FeatureInterval(list(starts), list(ends), strand, parent_or_seq_chunk_parent=parent),
                    TranscriptInterval(list(starts), list(ends), strand, parent_or_seq_chunk_parent=parent),
                ]
                for obj in objs:
                    length = len(obj)
                    crl = obj.chunk_relative_location
                    c_lo, c_hi = (0, 5) if crl.is_empty else (crl.start, crl.end)
                    pairs = []
                    for p in range(obj.start - 2, obj.end + 3):
                        pairs.append((rec(obj.sequence_pos_to_feature, p), rec(obj.sequence_pos_to_feature, p, False)))
                        pairs.append(
                            (rec(obj.sequence_pos_to_feature, p), rec(obj.sequence_pos_to_feature, p, chunk_relative=False))
                        )
                    for p in range(c_lo - 2, c_hi + 3):
                        pairs.append(
                            (rec(obj.chunk_relative_pos_to_feature, p), rec(obj.sequence_pos_to_feature, p, True))
                        )
                    for p in range(-1, length + 2):
                        pairs.append((rec(obj.feature_pos_to_sequence, p), rec(obj.feature_pos_to_sequence, p, False)))
                        pairs.append(
                            (rec(obj.feature_pos_to_chunk_relative, p), rec(obj.feature_pos_to_sequence, p, True))
                        )
                    for s in INTERVAL_STRANDS:
                        for a, b in interval_queries(obj.start, obj.end):
                            pairs.append(
                                (
                                    rec(obj.sequence_interval_to_feature, a, b, s),
                                    rec(obj.sequence_interval_to_feature, a, b, s, False),
                                )
                            )
                        for a, b in interval_queries(c_lo, c_hi):
                            pairs.append(
                                (
                                    rec(obj.chunk_relative_interval_to_feature, a, b, s),
                                    rec(obj.sequence_interval_to_feature, a, b, s, chunk_relative=True),
                                )
                            )
                        for a, b in interval_queries(0, length):
                            pairs.append(
                                (
                                    rec(obj.feature_interval_to_sequence, a, b, s),
                                    rec(obj.feature_interval_to_sequence, a, b, s, False),
                                )
                            )
                            pairs.append(
                                (
                                    rec(obj.feature_interval_to_chunk_relative, a, b, s),
                                    rec(obj.feature_interval_to_sequence, a, b, s, chunk_relative=True),
                                )
                            )
                    n += len(pairs)
                    bad += sum(1 for x, y in pairs if x != y)
    print(f"new parameter: {n} paired calls, {bad} mismatches")
    sys.exit(1 if bad else 0)


def main():
    if sys.argv[1] == "newparam":
        check_new_parameter()
    elif sys.argv[1] == "dump":
        res = build_all()
        with open(sys.argv[2], "w") as fh:
            json.dump(res, fh, sort_keys=True)
        n_exc = sum(1 for v in res.values() if v.startswith("EXC"))
        print(f"{len(res)} observations ({n_exc} exceptions); {res['__counts__']}")
    elif sys.argv[1] == "compare":
        a = json.load(open(sys.argv[2]))
        b = json.load(open(sys.argv[3]))
        bad = [k for k in sorted(set(a) | set(b)) if a.get(k) != b.get(k)]
        for k in bad[:40]:
            print("DIFF", k, "\n   ", a.get(k), "\n   ", b.get(k))
        print(f"compared {len(a)} vs {len(b)} observations: {len(bad)} differences")
        sys.exit(1 if bad else 0)


if __name__ == "__main__":
    main()
