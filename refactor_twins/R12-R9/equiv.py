"""
Equivalence harness for the GenBank export / import code (property C12).

Usage (from the worktree root):

    /venv/bin/python _refactor/R2/equiv.py save    /tmp/c12_pristine.json    # on the pristine tree
    git apply _refactor/R2/patch.diff
    /venv/bin/python _refactor/R2/equiv.py compare /tmp/c12_pristine.json    # on the refactored tree

The script re-executes itself with PYTHONHASHSEED=0 so that orders that depend on set iteration are reproducible.

The installed BioPython (1.88) and marshmallow (4.x) are newer than what this library was written for, so the
script installs a few *compatibility shims* (outside the package; identical for the pristine and the refactored
tree): ``SeqFeature(..., strand=)`` / ``SeqFeature.strand`` / ``nofuzzy_start`` / ``nofuzzy_end`` from old BioPython,
``marshmallow.post_dump(pass_many=)`` and a stub ``vcf`` module.

What is recorded:
  * Location.to_biopython() for single / compound / chunk-relative locations on both strands;
  * gene_to_feature / transcripts_to_feature / add_cds_feature / feature_intervals_to_features results (type, location,
    qualifiers) and emitted warnings, for generated gene models (coding, non-coding, multi-exon, both strands,
    mixed-strand genes with force_strand on/off, symbols / locus tags present or absent, chunk parents);
  * the GenBank text written by collection_to_genbank in both flavours, with and without update_translations, with
    seqrecord_annotations / organism / source, and the error cases;
  * the result of parse_genbank on these files in the three parser modes (model dump, AnnotationCollection.to_dict,
    warnings), plus hand written SeqRecords with awkward feature orders (interleaved non-coding features, exon
    features, duplicate locus tags, missing gene features, isolated CDS, duplicated transcripts) driven through the
    grouping helpers and the three parser classes;
  * TranscriptFeature helper methods (find_exon_interval, find_transcript_interval, find_cds_interval,
    construct_frames, get_qualifier_from_tx_or_cds_features, merge_cds_qualifiers_to_transcript);
  * ParsedAnnotationRecord.to_annotation_collection / parsed_annotation_records_to_model / to_fasta.
"""
import os
import sys

if os.environ.get("PYTHONHASHSEED") != "0":
    os.environ["PYTHONHASHSEED"] = "0"
    os.execv(sys.executable, [sys.executable] + sys.argv)

sys.path.insert(0, os.getcwd())

import io  # noqa: E402
import json  # noqa: E402
import random  # noqa: E402
import types  # noqa: E402
import warnings  # noqa: E402
from copy import deepcopy  # noqa: E402

# ---------------------------------------------------------------------------------------------------------------------
# compatibility shims (not part of the library)
# ---------------------------------------------------------------------------------------------------------------------
import marshmallow  # noqa: E402

_orig_post_dump = marshmallow.post_dump


def _post_dump(fn=None, pass_many=False, pass_original=False, **kw):
    return _orig_post_dump(fn, pass_collection=pass_many, pass_original=pass_original, **kw)


marshmallow.post_dump = _post_dump

_vcf = types.ModuleType("vcf")
_vcf.model = types.ModuleType("vcf.model")
_vcf.model._Record = object
sys.modules.setdefault("vcf", _vcf)
sys.modules.setdefault("vcf.model", _vcf.model)

import Bio.SeqFeature as BSF  # noqa: E402

_seqfeature_init = BSF.SeqFeature.__init__


def _compat_init(self, location=None, type="", id="<unknown id>", qualifiers=None, sub_features=None, strand=None):
    _seqfeature_init(self, location, type=type, id=id, qualifiers=qualifiers, sub_features=sub_features)
    if strand is not None:
        self.location.strand = strand


BSF.SeqFeature.__init__ = _compat_init
BSF.SeqFeature.strand = property(
    lambda self: self.location.strand, lambda self, value: setattr(self.location, "strand", value)
)
for _cls in (BSF.SimpleLocation, BSF.CompoundLocation):
    _cls.nofuzzy_start = property(lambda self: int(self.start))
    _cls.nofuzzy_end = property(lambda self: int(self.end))

# ---------------------------------------------------------------------------------------------------------------------
import inscripta.biocantor.location  # noqa: E402,F401
from Bio.Seq import Seq  # noqa: E402
from Bio.SeqFeature import SeqFeature, SimpleLocation, CompoundLocation  # noqa: E402
from Bio.SeqRecord import SeqRecord  # noqa: E402
from inscripta.biocantor.gene import (  # noqa: E402
    AnnotationCollection,
    GeneInterval,
    TranscriptInterval,
    FeatureInterval,
    FeatureIntervalCollection,
    CDSFrame,
    Biotype,
    TranslationTable,
)
from inscripta.biocantor.io.genbank import parser as gbp  # noqa: E402
from inscripta.biocantor.io.genbank import writer as gbw  # noqa: E402
from inscripta.biocantor.io.genbank.constants import GenbankFlavor, GenBankParserType  # noqa: E402
from inscripta.biocantor.io.parser import ParsedAnnotationRecord, seq_to_parent, seq_chunk_to_parent  # noqa: E402
from inscripta.biocantor.location import SingleInterval, CompoundInterval, EmptyLocation, Strand  # noqa: E402
from inscripta.biocantor.parent import Parent  # noqa: E402

RESULTS = {}


def jsonable(obj):
    """Deterministic JSON-friendly rendering."""
    if isinstance(obj, dict):
        return {str(k): jsonable(v) for k, v in obj.items()}
    if isinstance(obj, (list, tuple)):
        return [jsonable(x) for x in obj]
    if isinstance(obj, (set, frozenset)):
        return {"__set__": sorted(jsonable(x) for x in obj)} if all(isinstance(x, str) for x in obj) else repr(obj)
    if isinstance(obj, (str, int, float, bool)) or obj is None:
        return obj
    return repr(obj)


def feature_repr(f):
    return {
        "type": f.type,
        "location": str(f.location),
        "location_cls": type(f.location).__name__,
        "strand": f.location.strand,
        "qualifiers": [[k, list(v) if isinstance(v, (list, tuple)) else repr(v)] for k, v in f.qualifiers.items()],
        "id": f.id,
    }


def record(name, fn):
    """Run fn, record its result or exception together with the warnings it raised (in order)."""
    with warnings.catch_warnings(record=True) as caught:
        warnings.simplefilter("always")
        try:
            result = {"ok": jsonable(fn())}
        except Exception as e:  # noqa
            result = {"exc": type(e).__name__, "msg": str(e)}
    result["warnings"] = [[w.category.__name__, str(w.message)] for w in caught]
    assert name not in RESULTS, name
    RESULTS[name] = result


# ---------------------------------------------------------------------------------------------------------------------
# input generation
# ---------------------------------------------------------------------------------------------------------------------
def random_seq(rng, n):
    return "".join(rng.choice("ACGT") for _ in range(n))


def random_blocks(rng, lo, hi, max_blocks):
    """Sorted, non-adjacent blocks within [lo, hi)."""
    n = rng.randint(1, max_blocks)
    points = sorted(rng.sample(range(lo, hi), 2 * n))
    starts, ends = [], []
    for i in range(0, 2 * n, 2):
        s, e = points[i], points[i + 1]
        if starts and s <= ends[-1]:
            continue
        starts.append(s)
        ends.append(e)
    return starts, ends


def cds_within(rng, starts, ends):
    """Pick a CDS as a sub-range of the exons; returns cds_starts, cds_ends."""
    positions = [p for s, e in zip(starts, ends) for p in range(s, e)]
    if len(positions) < 6:
        return None
    a = rng.randint(0, len(positions) // 3)
    b = rng.randint(len(positions) - len(positions) // 3, len(positions))
    sel = positions[a:b]
    if len(sel) < 3:
        return None
    lo, hi = sel[0], sel[-1] + 1
    cs, ce = [], []
    for s, e in zip(starts, ends):
        s2, e2 = max(s, lo), min(e, hi)
        if s2 < e2:
            cs.append(s2)
            ce.append(e2)
    return cs, ce


def make_transcript(rng, parent, strand, lo, hi, idx, coding, with_ids=True, biotype=None):
    starts, ends = random_blocks(rng, lo, hi, 4)
    kwargs = {}
    if coding:
        cds = cds_within(rng, starts, ends)
        if cds:
            frame = CDSFrame.from_int(rng.randint(0, 2))
            loc = CompoundInterval(cds[0], cds[1], strand)
            from inscripta.biocantor.gene import CDSInterval

            kwargs = dict(
                cds_starts=cds[0],
                cds_ends=cds[1],
                cds_frames=CDSInterval.construct_frames_from_location(loc, frame),
            )
    if biotype is None:
        biotype = Biotype.protein_coding if kwargs else rng.choice([Biotype.tRNA, Biotype.rRNA, Biotype.ncRNA, None])
    quals = {}
    if rng.random() < 0.5:
        quals["note"] = ["n%d" % idx, "zz"]
    if rng.random() < 0.3:
        quals["translation"] = ["MADEUP"]
    return TranscriptInterval(
        starts,
        ends,
        strand,
        qualifiers=quals or None,
        transcript_id=("tx%d" % idx) if with_ids else None,
        transcript_symbol=("txsym%d" % idx) if with_ids and rng.random() < 0.5 else None,
        transcript_type=biotype,
        protein_id=("prot%d" % idx) if kwargs and rng.random() < 0.7 else None,
        product=("product %d" % idx) if rng.random() < 0.4 else None,
        parent_or_seq_chunk_parent=parent,
        **kwargs,
    )


def make_gene(rng, parent, lo, hi, idx, mixed_strand=False, n_tx=None, naming=None):
    strand = rng.choice([Strand.PLUS, Strand.MINUS])
    n_tx = n_tx or rng.randint(1, 3)
    coding = rng.random() < 0.6
    txs = []
    for j in range(n_tx):
        s = strand
        if mixed_strand and j == n_tx - 1:
            s = strand.reverse_complement() if hasattr(strand, "reverse_complement") else (
                Strand.MINUS if strand == Strand.PLUS else Strand.PLUS
            )
        txs.append(make_transcript(rng, parent, s, lo, hi, idx * 10 + j, coding))
    naming = naming if naming is not None else rng.randint(0, 4)
    return GeneInterval(
        txs,
        gene_id=("gid%d" % idx) if naming in (1, 2, 4) else None,
        gene_symbol=("sym%d" % idx) if naming in (2, 3) else None,
        locus_tag=("LT%04d" % idx) if naming in (3, 4) or naming == 2 and rng.random() < 0.5 else None,
        gene_type=Biotype.protein_coding if coding else None,
        qualifiers={"gq": ["v%d" % idx]} if rng.random() < 0.5 else None,
        parent_or_seq_chunk_parent=parent,
    )


def make_feature_collection(rng, parent, lo, hi, idx, mixed_strand=False):
    strand = rng.choice([Strand.PLUS, Strand.MINUS])
    feats = []
    n = rng.randint(1, 3)
    for j in range(n):
        starts, ends = random_blocks(rng, lo, hi, 3)
        s = strand
        if mixed_strand and j == n - 1 and n > 1:
            s = Strand.MINUS if strand == Strand.PLUS else Strand.PLUS
        feats.append(
            FeatureInterval(
                starts,
                ends,
                s,
                qualifiers={"fq": ["f%d" % j]} if rng.random() < 0.5 else None,
                feature_types=["promoter"] if rng.random() < 0.5 else None,
                feature_name=("fname%d_%d" % (idx, j)) if rng.random() < 0.6 else None,
                feature_id=("fid%d_%d" % (idx, j)) if rng.random() < 0.6 else None,
                parent_or_seq_chunk_parent=parent,
            )
        )
    naming = rng.randint(0, 3)
    return FeatureIntervalCollection(
        feats,
        feature_collection_name=("fc%d" % idx) if naming in (1, 3) else None,
        feature_collection_id=("fcid%d" % idx) if naming in (2, 3) else None,
        locus_tag=("FLT%04d" % idx) if rng.random() < 0.5 else None,
        qualifiers={"cq": ["c%d" % idx]} if rng.random() < 0.3 else None,
        parent_or_seq_chunk_parent=parent,
    )


def make_collection(rng, idx, n_genes, n_fcs, mixed=False, chunk=False, unique_sorted=False):
    length = 600
    seq = random_seq(rng, length)
    if chunk:
        c_start, c_end = 100, 500
        parent = seq_chunk_to_parent(seq[c_start:c_end], "chr%d" % idx, c_start, c_end)
        lo_all, hi_all = c_start, c_end
    else:
        parent = seq_to_parent(seq, seq_id="chr%d" % idx)
        lo_all, hi_all = 0, length
    genes, fcs = [], []
    total = n_genes + n_fcs
    width = (hi_all - lo_all) // max(total, 1)
    for g in range(n_genes):
        lo = lo_all + g * width
        genes.append(
            make_gene(
                rng,
                parent,
                lo,
                lo + width,
                idx * 100 + g,
                mixed_strand=mixed and g % 2 == 0,
                naming=(3 if unique_sorted else None),
            )
        )
    for f in range(n_fcs):
        lo = lo_all + (n_genes + f) * width
        fcs.append(make_feature_collection(rng, parent, lo, lo + width, idx * 100 + f, mixed_strand=mixed))
    kwargs = {}
    if chunk:
        kwargs = dict(start=lo_all, end=hi_all)
    return AnnotationCollection(
        fcs,
        genes,
        sequence_name="chr%d" % idx,
        parent_or_seq_chunk_parent=parent,
        **kwargs,
    )


# ---------------------------------------------------------------------------------------------------------------------
# exercised behaviour
# ---------------------------------------------------------------------------------------------------------------------
def loc_repr(loc):
    return [type(loc).__name__, str(loc), getattr(loc, "strand", None)]


def check_to_biopython(rng):
    seq = random_seq(rng, 300)
    parents = {
        "none": None,
        "chrom": seq_to_parent(seq, seq_id="c"),
        "chunk": seq_chunk_to_parent(seq[50:250], "c", 50, 250),
    }
    n = 0
    for pname, parent in parents.items():
        for strand in (Strand.PLUS, Strand.MINUS, Strand.UNSTRANDED):
            for k in range(6):
                lo, hi = (0, 200) if pname == "chunk" else (0, 300)
                starts, ends = random_blocks(rng, lo, hi, 1 + k % 4)
                n += 1
                key = "to_biopython/%s/%s/%d" % (pname, strand.name, k)
                record(key + "/compound", lambda: loc_repr(CompoundInterval(starts, ends, strand, parent).to_biopython()))
                record(
                    key + "/compound_loc",
                    lambda: loc_repr(CompoundInterval(starts, ends, strand, parent).to_compound_location()),
                )
                record(
                    key + "/single", lambda: loc_repr(SingleInterval(starts[0], ends[-1], strand, parent).to_biopython())
                )
                record(
                    key + "/single_loc",
                    lambda: loc_repr(SingleInterval(starts[0], ends[-1], strand, parent).to_feature_location()),
                )
                record(
                    key + "/blocks",
                    lambda: [loc_repr(b.to_biopython()) for b in CompoundInterval(starts, ends, strand, parent).blocks],
                )
    # overlapping / adjacent blocks in a CompoundInterval
    record("to_biopython/overlapping", lambda: loc_repr(CompoundInterval([0, 5, 10], [7, 10, 20], Strand.MINUS).to_biopython()))
    record("to_biopython/empty", lambda: EmptyLocation().to_biopython())


def check_writer_pieces(name, collection):
    for flavor in GenbankFlavor:
        table = TranslationTable.PROKARYOTE if flavor == GenbankFlavor.PROKARYOTIC else TranslationTable.DEFAULT
        for force in (True, False):
            for upd in (False, True):
                for gi, gof in enumerate(collection):
                    record(
                        "gene_to_feature/%s/%s/force%d/upd%d/%d" % (name, flavor.name, force, upd, gi),
                        lambda: [feature_repr(f) for f in gbw.gene_to_feature(gof, flavor, force, table, upd)],
                    )
    for gi, gene in enumerate(collection.genes):
        strands = [t.strand for t in gene.transcripts]
        for strand in (Strand.PLUS, Strand.MINUS):
            for force in (True, False):
                # default trailing arguments
                record(
                    "transcripts_to_feature/default/%s/%d/%s/%d" % (name, gi, strand.name, force),
                    lambda: [
                        feature_repr(f)
                        for f in gbw.transcripts_to_feature(
                            gene.transcripts, strand, GenbankFlavor.EUKARYOTIC, force, TranslationTable.DEFAULT
                        )
                    ],
                )
                record(
                    "transcripts_to_feature/empty_names/%s/%d/%s/%d" % (name, gi, strand.name, force),
                    lambda: [
                        feature_repr(f)
                        for f in gbw.transcripts_to_feature(
                            gene.transcripts, strand, GenbankFlavor.PROKARYOTIC, force, TranslationTable.PROKARYOTE, "", ""
                        )
                    ],
                )
        for ti, tx in enumerate(gene.transcripts):
            if tx.is_coding:
                for upd in (False, True):
                    quals = {"a": ["b"], "translation": ["OLD"]}
                    record(
                        "add_cds_feature/%s/%d/%d/%d" % (name, gi, ti, upd),
                        lambda: [
                            feature_repr(gbw.add_cds_feature(tx, quals, strands[0], TranslationTable.DEFAULT, upd)),
                            quals,
                        ],
                    )
    for fi, fc in enumerate(collection.feature_collections):
        for strand in (Strand.PLUS, Strand.MINUS):
            for force in (True, False):
                record(
                    "feature_intervals_to_features/%s/%d/%s/%d" % (name, fi, strand.name, force),
                    lambda: [
                        feature_repr(f)
                        for f in gbw.feature_intervals_to_features(fc.feature_intervals, strand, force, "nm", "lt")
                    ],
                )
                record(
                    "feature_intervals_to_features/default/%s/%d/%s/%d" % (name, fi, strand.name, force),
                    lambda: [feature_repr(f) for f in gbw.feature_intervals_to_features(fc.feature_intervals, strand, force)],
                )


def write_genbank(collections, flavor, **kwargs):
    fh = io.StringIO()
    gbw.collection_to_genbank(collections, fh, flavor, **kwargs)
    return fh.getvalue()


def parse_all_modes(name, text):
    for mode in GenBankParserType:

        def run():
            out = []
            recs = list(gbp.parse_genbank(io.StringIO(text), gbk_type=mode))
            for rec in recs:
                dumped = type(rec.annotation).Schema().dump(rec.annotation)
                coll = rec.to_annotation_collection()
                out.append({"model": dumped, "collection": coll.to_dict(), "n": len(coll.genes)})
            # also via the convenience function
            colls = list(
                ParsedAnnotationRecord.parsed_annotation_records_to_model(
                    gbp.parse_genbank(io.StringIO(text), gbk_type=mode)
                )
            )
            out.append([c.to_dict() for c in colls])
            fa = io.StringIO()
            for rec in recs:
                rec.to_fasta(fa)
            out.append(fa.getvalue())
            return out

        record("parse/%s/%s" % (name, mode.name), run)


def check_round_trip(name, collections):
    for flavor in GenbankFlavor:
        for upd in (False, True):
            key = "%s/%s/upd%d" % (name, flavor.name, upd)
            holder = {}

            def run():
                holder["text"] = write_genbank(collections, flavor, update_translations=upd)
                return holder["text"]

            record("write/" + key, run)
            if "text" in holder:
                parse_all_modes(key, holder["text"])
    record("write/%s/skip_strand" % name, lambda: write_genbank(collections, GenbankFlavor.EUKARYOTIC, force_strand=False))
    record(
        "write/%s/annotations" % name,
        lambda: write_genbank(
            collections,
            GenbankFlavor.PROKARYOTIC,
            organism="E. coli",
            source="src",
            seqrecord_annotations=[{"molecule_type": "", "topology": "circular", "organism": "x"} for _ in collections],
        ),
    )
    record(
        "write/%s/annotations_mol" % name,
        lambda: write_genbank(
            collections,
            GenbankFlavor.EUKARYOTIC,
            organism="",
            seqrecord_annotations=[{"molecule_type": "RNA", "source": "kept"} for _ in collections],
        ),
    )
    record(
        "write/%s/annotations_wrong_len" % name,
        lambda: write_genbank(collections, GenbankFlavor.EUKARYOTIC, seqrecord_annotations=[{}] * (len(collections) + 1)),
    )
    record("write/%s/flavor_none" % name, lambda: write_genbank(collections, None))


# hand-written SeqRecords -----------------------------------------------------------------------------------------
def loc(blocks, strand):
    parts = [SimpleLocation(s, e, strand) for s, e in blocks]
    if strand == -1:
        parts = parts[::-1]
    return parts[0] if len(parts) == 1 else CompoundLocation(parts)


def feat(ftype, blocks, strand=1, **quals):
    return SeqFeature(loc(blocks, strand), type=ftype, qualifiers={k: list(v) for k, v in quals.items()})


def handmade_records():
    seq = "ATGAAACCCGGGTTTTAA" * 20
    recs = {}

    def rec(name, feats, rid=None):
        r = SeqRecord(Seq(seq), id=rid or name, name=name, description="d")
        r.annotations["molecule_type"] = "DNA"
        r.features = feats
        recs[name] = r

    src = feat("source", [(0, 360)], 1, organism=["x"], mol_type=["genomic DNA"])
    rec(
        "canonical",
        [
            src,
            feat("gene", [(0, 60)], 1, locus_tag=["A1"], gene=["a"]),
            feat("mRNA", [(0, 20), (30, 60)], 1, locus_tag=["A1"], gene=["a"], transcript_id=["t1"]),
            feat("CDS", [(3, 20), (30, 50)], 1, locus_tag=["A1"], gene=["a"], protein_id=["p1"], codon_start=["2"]),
            feat("gene", [(70, 120)], -1, locus_tag=["A2"]),
            feat("tRNA", [(70, 120)], -1, locus_tag=["A2"], product=["tRNA-Ala"]),
            feat("gene", [(130, 190)], -1, locus_tag=["A3"], gene_id=["g3"]),
            feat("CDS", [(130, 160), (170, 190)], -1, locus_tag=["A3"], pseudo=[""]),
            feat("misc_feature", [(200, 210)], 1, locus_tag=["F1"], note=["hello"]),
            feat("misc_feature", [(205, 220), (230, 240)], 1, locus_tag=["F1"], note=["hello"], gene=["fgene"]),
            feat("promoter", [(250, 260)], -1),
            feat("promoter", [(262, 270)], -1, feature_id=["pid"], feature_name=["pname"]),
        ],
    )
    rec(
        "interleaved",
        [
            feat("gene", [(0, 60)], 1, locus_tag=["B1"]),
            feat("tRNA", [(0, 60)], 1, locus_tag=["B1"]),
            feat("CDS", [(0, 60)], 1, locus_tag=["B1"]),
            feat("rRNA", [(70, 90)], 1),
            feat("ncRNA", [(95, 99)], -1),
            feat("CDS", [(100, 130)], -1, gene=["lonely"]),
            feat("mRNA", [(140, 200)], 1, gene=["m_only"]),
            feat("exon", [(140, 160)], 1, gene=["m_only"]),
            feat("gene", [(210, 300)], 1, gene=["two_tx"]),
            feat("mRNA", [(210, 240), (250, 300)], 1),
            feat("CDS", [(213, 240), (250, 270)], 1),
            feat("mRNA", [(210, 230), (260, 300)], 1),
            feat("CDS", [(213, 230), (260, 290)], 1),
            feat("gene", [(310, 350)], -1, gene=["childless"]),
        ],
    )
    rec(
        "duplicate_tags",
        [
            src,
            feat("gene", [(0, 60)], 1, locus_tag=["D1"]),
            feat("CDS", [(0, 60)], 1, locus_tag=["D1"]),
            feat("gene", [(100, 160)], 1, locus_tag=["D1"]),
            feat("CDS", [(100, 160)], 1, locus_tag=["D1"]),
            feat("gene", [(200, 260)], -1, locus_tag=["D2"]),
            feat("mRNA", [(200, 260)], -1, locus_tag=["D2"]),
            feat("CDS", [(190, 270)], -1, locus_tag=["D2"]),
            feat("exon", [(200, 260)], -1, locus_tag=["D2"]),
            feat("gene", [(300, 330)], 1),
            feat("misc_RNA", [(300, 330)], 1),
        ],
    )
    rec(
        "duplicate_transcripts",
        [
            feat("gene", [(0, 60)], 1, locus_tag=["E1"]),
            feat("ncRNA", [(0, 60)], 1, locus_tag=["E1"]),
            feat("ncRNA", [(0, 60)], 1, locus_tag=["E1"]),
            feat("tmRNA", [(5, 50)], 1, locus_tag=["E1"]),
            feat("gene", [(100, 190)], 1, locus_tag=["E2"]),
            feat("mRNA", [(100, 190)], 1, locus_tag=["E2"]),
            feat("mRNA", [(100, 180)], 1, locus_tag=["E2"]),
            feat("CDS", [(100, 160)], 1, locus_tag=["E2"]),
            feat("CDS", [(100, 130), (140, 160)], 1, locus_tag=["E2"]),
            feat("misc_feature", [(200, 210)], 1, locus_tag=["F9"]),
            feat("misc_feature", [(200, 210)], 1, locus_tag=["F9"]),
        ],
    )
    mixed = SeqFeature(
        CompoundLocation([SimpleLocation(0, 10, 1), SimpleLocation(20, 30, -1)]), type="gene", qualifiers={}
    )
    rec(
        "invalid",
        [
            mixed,
            SeqFeature(None, type="gene"),
            feat("gene", [(40, 100)], 1, locus_tag=["G1"]),
            feat("CDS", [(40, 100)], 1, locus_tag=["G1"], codon_start=["3"]),
        ],
    )
    rec("only_features", [src, feat("promoter", [(0, 5)], 1), feat("terminator", [(10, 15)], -1, locus_tag=["T"])])
    rec("empty", [src])
    return recs


def grouped_repr(groups):
    return [
        {
            "gene": None if g.gene_feature is None else feature_repr(g.gene_feature),
            "tx": None if g.transcript_features is None else [feature_repr(f) for f in g.transcript_features],
            "cds": None if g.cds_features is None else [feature_repr(f) for f in g.cds_features],
            "rec": g.seqrecord.id,
        }
        for g in groups
    ]


def check_handmade():
    recs = handmade_records()
    classes = {
        "SORTED": gbp.SortedGenBankParser,
        "LOCUS_TAG": gbp.LocusTagGenBankParser,
        "HYBRID": gbp.HybridGenBankParser,
    }
    for name, rec in recs.items():
        valid = [f for f in rec.features if f.location is not None and f.location.strand]
        genelike = [f for f in valid if f.type in gbp.GENBANK_GENE_FEATURES]
        record(
            "sort/%s" % name,
            lambda: [feature_repr(f) for f in gbp.BaseGenBankParser._sort_features_by_position_and_type(genelike)],
        )
        record(
            "sort_rev/%s" % name,
            lambda: [feature_repr(f) for f in gbp.BaseGenBankParser._sort_features_by_position_and_type(genelike[::-1])],
        )
        for label, feats in (
            ("file_order", valid),
            ("sorted", gbp.BaseGenBankParser._sort_features_by_position_and_type(valid)),
            ("reversed", valid[::-1]),
        ):
            record(
                "group_by_type/%s/%s" % (name, label),
                lambda: [
                    [feature_repr(f) for f in grp] for grp in gbp.BaseGenBankParser._group_sorted_features_by_type(feats)
                ],
            )
        record("validate/%s" % name, lambda: [gbp.BaseGenBankParser.validate_seqfeature(f) for f in rec.features])
        record(
            "construct_gene/%s" % name,
            lambda: [
                None if g is None else repr(g)
                for g in (gbp.BaseGenBankParser._construct_gene_from_feature(deepcopy(f), rec) for f in valid)
            ],
        )
        for cname, cls in classes.items():

            def run_stages():
                p = cls([deepcopy(rec)], None, gbp.GeneFeature.to_gene_model, gbp.FeatureIntervalGenBankCollection.to_feature_model)
                out = {}
                p._extract_seqfeatures_from_seqrecords()
                out["gene_filtered"] = [[feature_repr(f) for f in fs] for fs in p.gene_filtered_features]
                out["feature_features"] = [[feature_repr(f) for f in fs] for fs in p.feature_features]
                out["sources"] = [None if s is None else feature_repr(s) for s in p.sources]
                if cname == "HYBRID":
                    p._identify_locus_tag_collisions()
                    out["good"] = [[feature_repr(f) for f in fs] for fs in p.gene_filtered_features]
                    out["without_tag"] = [
                        [feature_repr(f) for f in fs] for fs in p.gene_filtered_features_without_locus_tag
                    ]
                    p._group_gene_features_by_locus_tag_and_position()
                elif cname == "SORTED":
                    p._group_gene_features_by_position()
                else:
                    p._group_gene_features_by_locus_tag()
                out["grouped"] = [grouped_repr(g) for g in p.grouped_gene_features]
                p._convert_seqfeatures_to_genes()
                out["genes"] = [[repr(g) for g in gs] for gs in p.genes]
                out["num_genes"] = p.num_genes
                p._parse_features()
                out["feature_collections"] = [
                    [[sorted(fc.types), fc.start, [feature_repr(f) for f in fc._seq_features]] for fc in fcs]
                    for fcs in p.feature_collections
                ]
                out["num_feature_collections"] = p.num_feature_collections
                return out

            record("stages/%s/%s" % (name, cname), run_stages)

            def run_parse():
                p = cls([deepcopy(rec)], None, gbp.GeneFeature.to_gene_model, gbp.FeatureIntervalGenBankCollection.to_feature_model)
                out = []
                for r in p.parse():
                    out.append(type(r.annotation).Schema().dump(r.annotation))
                    out.append(r.to_annotation_collection().to_dict())
                return out

            record("parse_handmade/%s/%s" % (name, cname), run_parse)

    # two records at once, duplicate ids
    def two_records(allow):
        fh = io.StringIO()
        a, b = deepcopy(recs["canonical"]), deepcopy(recs["duplicate_tags"])
        from Bio import SeqIO

        for r in (a, b):
            r.features = [f for f in r.features if f.location is not None]
        b.id = a.id if not allow else b.id
        b.name = "second"
        SeqIO.write([a, b], fh, "genbank")
        text = fh.getvalue()
        out = []
        for mode in GenBankParserType:
            rs = list(gbp.parse_genbank(io.StringIO(text), gbk_type=mode, allow_duplicate_sequence_identifiers=allow))
            out.append([type(r.annotation).Schema().dump(r.annotation) for r in rs])
        return out

    record("two_records/distinct", lambda: two_records(True))
    record("two_records/duplicate_id", lambda: two_records(False))

    def dup_allowed():
        fh = io.StringIO()
        from Bio import SeqIO

        a, b = deepcopy(recs["canonical"]), deepcopy(recs["canonical"])
        SeqIO.write([a, b], fh, "genbank")
        rs = list(gbp.parse_genbank(io.StringIO(fh.getvalue()), allow_duplicate_sequence_identifiers=True))
        return [type(r.annotation).Schema().dump(r.annotation) for r in rs]

    record("two_records/duplicate_allowed", dup_allowed)

    def with_variants(extra):
        fh = io.StringIO()
        from Bio import SeqIO

        SeqIO.write([deepcopy(recs["canonical"])], fh, "genbank")
        variants = {"canonical": []}
        variants.update(extra)
        rs = list(gbp.parse_genbank(io.StringIO(fh.getvalue()), parsed_variants=variants))
        return [type(r.annotation).Schema().dump(r.annotation) for r in rs]

    record("variants/ok", lambda: with_variants({}))
    record("variants/unknown_seq", lambda: with_variants({"zzz": [], "yyy": []}))
    record(
        "variants/both",
        lambda: list(gbp.parse_genbank(io.StringIO(""), variant_handle_or_path="x.vcf", parsed_variants={"a": []})),
    )
    record("parse/empty_file", lambda: list(gbp.parse_genbank(io.StringIO(""))))


def check_transcript_feature_helpers():
    rec = SeqRecord(Seq("ACGT" * 100), id="r")
    cases = {
        "plus_multi": (
            feat("mRNA", [(0, 20), (30, 60), (80, 100)], 1, gene=["g"], note=["a", "b"]),
            feat("CDS", [(5, 20), (30, 60), (80, 90)], 1, protein_id=["p"], note=["b", "c"], codon_start=["2"]),
        ),
        "minus_multi": (
            feat("mRNA", [(0, 20), (30, 60), (80, 100)], -1, transcript_id=["t"]),
            feat("CDS", [(5, 20), (30, 60), (80, 90)], -1, transcript_id=["tc"], product=["pr"], codon_start=["3"]),
        ),
        "single": (feat("mRNA", [(10, 70)], 1), feat("CDS", [(10, 70)], 1)),
        "cds_exceeds": (feat("mRNA", [(10, 70)], -1), feat("CDS", [(0, 80)], -1, gene=["cg"])),
        "cds_exceeds_multi": (feat("mRNA", [(10, 30), (40, 70)], 1), feat("CDS", [(0, 30), (40, 90)], 1)),
        "cds_in_intron_span": (feat("mRNA", [(10, 30), (40, 70)], 1), feat("CDS", [(20, 50)], 1)),
        "noncoding": (feat("tRNA", [(10, 30), (40, 70)], -1, product=["x"]), None),
    }
    for name, (txf, cdsf) in cases.items():
        def run():
            tx = gbp.TranscriptFeature(txf, rec, cds_feature=cdsf)
            out = {}
            out["str"] = str(tx)
            out["exon"] = repr(tx.find_exon_interval())
            out["exon_again_is_cached"] = tx.find_exon_interval() is tx.find_exon_interval()
            out["exon_starts_type"] = [type(tx.find_exon_interval()._starts).__name__, list(tx.find_exon_interval()._starts)]
            out["tx_interval"] = repr(tx.find_transcript_interval())
            cds = tx.find_cds_interval()
            out["cds"] = [type(cds).__name__, repr(cds)]
            out["cds_again"] = repr(tx.find_cds_interval())
            if not cds.is_empty:
                out["frames"] = tx.construct_frames(cds)
            for q in ("gene", "protein_id", "transcript_id", "product", "note", "missing"):
                out["q_" + q] = tx.get_qualifier_from_tx_or_cds_features(q)
            out["merged"] = tx.merge_cds_qualifiers_to_transcript()
            out["type"] = tx.type
            out["strand"] = repr(tx.strand)
            out["start"] = tx.start
            return out

        record("tx_helpers/%s" % name, run)

    def gene_model(gene_f, children):
        g = gbp.GeneFeature(gene_f, rec)
        for c in children:
            g.add_child(*c)
        return [repr(g), str(g), g.has_children, g.type, gbp.GeneFeature.to_gene_model(g)]

    record(
        "gene_model/dup_tx",
        lambda: gene_model(
            feat("gene", [(0, 100)], 1, locus_tag=["L"], gene=["G"], gene_id=["GI"]),
            [(cases["plus_multi"][0], cases["plus_multi"][1]), (cases["plus_multi"][0], cases["plus_multi"][1])],
        ),
    )
    record(
        "gene_model/mixed_biotypes",
        lambda: gene_model(
            feat("gene", [(0, 100)], -1),
            [(cases["noncoding"][0],), (feat("rRNA", [(0, 10)], -1),), (feat("rRNA", [(0, 12)], -1, pseudo=[""]),)],
        ),
    )
    record("gene_model/cds_child", lambda: gene_model(feat("gene", [(0, 100)], 1), [(cases["single"][1],)]))
    record("gene_model/no_children", lambda: gene_model(feat("gene", [(0, 100)], 1), []))
    record("gene_model/bad_child", lambda: gene_model(feat("gene", [(0, 100)], 1), [(feat("promoter", [(0, 5)], 1),)]))

    def inferred():
        g = gbp.GeneFeature(feat("gene", [(0, 100)], 1, gene=["i"]), rec)
        g.infer_child()
        return [repr(g), gbp.GeneFeature.to_gene_model(g)]

    record("gene_model/inferred", inferred)
    record(
        "gene_model/from_cds",
        lambda: gbp.GeneFeature.to_gene_model(
            gbp.GeneFeature.from_transcript_or_cds_feature(deepcopy(cases["minus_multi"][1]), rec)
        ),
    )
    record(
        "feature_model/basic",
        lambda: gbp.FeatureIntervalGenBankCollection.to_feature_model(
            gbp.FeatureIntervalGenBankCollection(
                [
                    feat("misc_feature", [(20, 30), (0, 10)], 1, locus_tag=["F"], feature_name=["n1"]),
                    feat("misc_feature", [(0, 10), (20, 30)], 1, locus_tag=["F"], feature_name=["n1"]),
                    feat("promoter", [(40, 50)], 1, feature_id=["i2"], feature_name=["n2"], note=["x"]),
                    feat("promoter", [(60, 70)], 1, feature_name=["n2"], note=["y"]),
                ],
                rec,
            )
        ),
    )
    record(
        "feature_model/unnamed",
        lambda: gbp.FeatureIntervalGenBankCollection.to_feature_model(
            gbp.FeatureIntervalGenBankCollection([feat("promoter", [(40, 50)], -1, locus_tag=["only_tag"])], rec)
        ),
    )


def check_parsed_annotation_record(rng):
    from inscripta.biocantor.io.models import AnnotationCollectionModel

    coll = make_collection(rng, 77, 2, 1)
    model = AnnotationCollectionModel.Schema().load(coll.to_dict())
    rec = SeqRecord(Seq(str(coll.sequence)), id="chr77")
    record("par/with_seq", lambda: ParsedAnnotationRecord(model, rec).to_annotation_collection().to_dict())
    record(
        "par/with_seq_has_sequence",
        lambda: str(ParsedAnnotationRecord(model, rec).to_annotation_collection().genes[0].get_reference_sequence()),
    )
    record("par/no_seq", lambda: ParsedAnnotationRecord(model).to_annotation_collection().to_dict())
    record(
        "par/many",
        lambda: [
            c.to_dict()
            for c in ParsedAnnotationRecord.parsed_annotation_records_to_model(
                iter([ParsedAnnotationRecord(model, rec), ParsedAnnotationRecord(model)])
            )
        ],
    )
    record("par/fasta_none", lambda: ParsedAnnotationRecord(model).to_fasta(io.StringIO()))

    def fasta():
        fh = io.StringIO()
        ParsedAnnotationRecord(model, rec).to_fasta(fh)
        return fh.getvalue()

    record("par/fasta", fasta)
    record("seq_to_parent", lambda: repr(seq_to_parent("ACGTN", seq_id="s")))
    record("seq_chunk_to_parent", lambda: repr(seq_chunk_to_parent("ACGTN", "s", 10, 15, Strand.MINUS)))


def main():
    rng = random.Random(20261003)
    check_to_biopython(rng)
    scenarios = []
    for i in range(12):
        scenarios.append(("gen%d" % i, [make_collection(rng, i, rng.randint(1, 4), rng.randint(0, 2))]))
    for i in range(12, 18):
        scenarios.append(("mixed%d" % i, [make_collection(rng, i, rng.randint(1, 3), rng.randint(1, 2), mixed=True)]))
    for i in range(18, 24):
        scenarios.append(("sorted_unique%d" % i, [make_collection(rng, i, rng.randint(2, 5), 0, unique_sorted=True)]))
    for i in range(24, 28):
        scenarios.append(("chunk%d" % i, [make_collection(rng, i, rng.randint(1, 3), rng.randint(0, 1), chunk=True)]))
    scenarios.append(("multi", [make_collection(rng, 30, 2, 1), make_collection(rng, 31, 3, 0)]))
    for name, collections in scenarios:
        for ci, coll in enumerate(collections):
            check_writer_pieces("%s.%d" % (name, ci), coll)
        check_round_trip(name, collections)
    # collection without sequence
    nosq = AnnotationCollection(
        None, [GeneInterval([TranscriptInterval([0], [10], Strand.PLUS)], gene_symbol="g")], sequence_name="chr"
    )
    record("write/no_sequence", lambda: write_genbank([nosq], GenbankFlavor.PROKARYOTIC))
    check_handmade()
    check_transcript_feature_helpers()
    check_parsed_annotation_record(rng)


if __name__ == "__main__":
    mode, path = sys.argv[1], sys.argv[2]
    main()
    blob = json.dumps(RESULTS, indent=0, sort_keys=True)
    n_exc = sum(1 for v in RESULTS.values() if "exc" in v)
    n_warn = sum(len(v["warnings"]) for v in RESULTS.values())
    print("%d recorded observations (%d raised, %d warnings captured)" % (len(RESULTS), n_exc, n_warn))
    if mode == "save":
        with open(path, "w") as fh:
            fh.write(blob)
        print("saved to", path)
    else:
        with open(path) as fh:
            old = json.load(fh)
        new = json.loads(blob)
        bad = [k for k in sorted(set(old) | set(new)) if old.get(k) != new.get(k)]
        for k in bad[:20]:
            print("DIFF", k)
            print("   old:", json.dumps(old.get(k))[:600])
            print("   new:", json.dumps(new.get(k))[:600])
        print("EQUIVALENT" if not bad else "%d DIFFERENCES" % len(bad))
        sys.exit(1 if bad else 0)
