"""
Equivalence script for the C16 refactorings (UCSC bins / bin attribute on intervals / bin pre-filter in range queries).

Usage (from the worktree root):

    /venv/bin/python _refactor/R2/equiv.py dump /tmp/pristine.json      # on the pristine tree
    git apply _refactor/R2/patch.diff
    /venv/bin/python _refactor/R2/equiv.py dump /tmp/patched.json       # on the refactored tree
    /venv/bin/python _refactor/R2/equiv.py compare /tmp/pristine.json /tmp/patched.json
"""
import json
import os
import random
import sys
import types
from uuid import UUID

if os.environ.get("PYTHONHASHSEED") != "0":
    # str() of the intervals prints sets of strings; pin the string hash so that two runs are comparable
    os.environ["PYTHONHASHSEED"] = "0"
    os.execv(sys.executable, [sys.executable] + sys.argv)

sys.path.insert(0, os.getcwd())  # run from the worktree root

import inscripta.biocantor.location  # noqa: F401  (must be first: circular import otherwise)
from inscripta.biocantor.gene.biotype import Biotype
from inscripta.biocantor.gene.cds_frame import CDSFrame
from inscripta.biocantor.gene.collections import AnnotationCollection
from inscripta.biocantor.gene.feature import FeatureInterval, FeatureIntervalCollection
from inscripta.biocantor.gene.gene import GeneInterval
from inscripta.biocantor.gene.transcript import TranscriptInterval
from inscripta.biocantor.gene.variants import VariantInterval, VariantIntervalCollection
from inscripta.biocantor.location import SingleInterval, Strand
from inscripta.biocantor.parent import Parent, SequenceType
from inscripta.biocantor.sequence import Alphabet, Sequence
from inscripta.biocantor.util import bins as bins_module
from inscripta.biocantor.util.bins import bins


def seq_to_parent(seq, alphabet=Alphabet.NT_EXTENDED_GAPPED, seq_id=None, seq_type=SequenceType.CHROMOSOME):
    """copy of inscripta.biocantor.io.parser.seq_to_parent (that module cannot be imported here)"""
    return Parent(
        sequence=Sequence(seq, alphabet, type=seq_type, id=seq_id), location=SingleInterval(0, len(seq), Strand.PLUS)
    )


def seq_chunk_to_parent(seq, sequence_name, start, end, strand=Strand.PLUS, alphabet=Alphabet.NT_EXTENDED_GAPPED):
    """copy of inscripta.biocantor.io.parser.seq_chunk_to_parent"""
    chunk_id = f"{sequence_name}:{start}-{end}"
    return Parent(
        id=chunk_id,
        sequence=Sequence(
            seq,
            alphabet,
            id=chunk_id,
            type=SequenceType.SEQUENCE_CHUNK,
            parent=Parent(
                location=SingleInterval(
                    start, end, strand, parent=Parent(id=sequence_name, sequence_type=SequenceType.CHROMOSOME)
                )
            ),
        ),
    )


# inscripta.biocantor.io.parser imports io.models, which cannot be imported in this environment; the library imports
# the two functions above lazily from it, so register a stand-in module that provides them.
_parser_stub = types.ModuleType("inscripta.biocantor.io.parser")
_parser_stub.seq_to_parent = seq_to_parent
_parser_stub.seq_chunk_to_parent = seq_chunk_to_parent
sys.modules["inscripta.biocantor.io.parser"] = _parser_stub


def norm(x):
    """JSON friendly canonical form"""
    if isinstance(x, (set, frozenset)):
        return {"__set__": [norm(v) for v in sorted(x, key=lambda v: (type(v).__name__, v))]}
    if isinstance(x, dict):
        return {str(k): norm(v) for k, v in sorted(x.items(), key=lambda kv: str(kv[0]))}
    if isinstance(x, (list, tuple)):
        return [norm(v) for v in x]
    if isinstance(x, bool) or x is None or isinstance(x, (int, float, str)):
        return {"__t__": type(x).__name__, "v": x}
    if isinstance(x, UUID):
        return str(x)
    return {"__repr__": repr(x), "__t__": type(x).__name__}


def attempt(fn):
    try:
        return {"ok": norm(fn())}
    except Exception as e:  # noqa
        return {"exc": type(e).__name__, "msg": str(e)}


# ---------------------------------------------------------------------------------------------------------------
# 1. bins() itself
# ---------------------------------------------------------------------------------------------------------------
def bins_cases():
    rnd = random.Random(16)
    coords = {-(2**17) - 1, -2, -1, 0, 1, 2, 5, 100}
    for level in range(17, 31):
        for mult in (1, 2, 3, 7, 8, 9, 63, 64, 65):
            base = mult * 2**level
            for d in (-2, -1, 0, 1, 2):
                coords.add(base + d)
    coords = sorted(c for c in coords if c <= 2**30 + 2)
    pairs = set()
    for _ in range(6000):
        a, b = rnd.choice(coords), rnd.choice(coords)
        pairs.add((a, b))
    for c in coords:
        for d in (0, 1, 2, 2**17 - 1, 2**17, 2**17 + 1, 2**20, 2**23 + 5, 2**26, 2**29 - 1):
            pairs.add((c, c + d))
            pairs.add((c - d, c))
    for _ in range(3000):
        a = rnd.randrange(0, 2**30)
        b = a + rnd.choice([1, 10, 1000, 2**17, 2**20, rnd.randrange(1, 2**29)])
        pairs.add((a, b))
    return sorted(pairs)


def check_bins(out):
    res = {}
    pairs = bins_cases()
    for (a, b) in pairs:
        for fmt in ("gff", "bed"):
            for one in (True, False):
                res[f"{a},{b},{fmt},{one}"] = attempt(lambda: bins(a, b, fmt=fmt, one=one))
    # defaults / positional calling conventions / truthy-but-not-bool flags / bad arguments
    for (a, b) in pairs[:: max(1, len(pairs) // 300)]:
        res[f"default:{a},{b}"] = attempt(lambda: bins(a, b))
        res[f"positional:{a},{b}"] = attempt(lambda: bins(a, b, "bed", False))
        res[f"one=0:{a},{b}"] = attempt(lambda: bins(a, b, "bed", 0))
        res[f"one=None:{a},{b}"] = attempt(lambda: bins(a, b, "gff", None))
        res[f"one='x':{a},{b}"] = attempt(lambda: bins(a, b, "gff", "x"))
        res[f"badfmt:{a},{b}"] = attempt(lambda: bins(a, b, fmt="sam"))
        res[f"badfmt-set:{a},{b}"] = attempt(lambda: bins(a, b, fmt="sam", one=False))
    for args in [(None, 5), (5, None), ("a", 5), (5, "a"), (1.5, 7), (7, 2.5), (2.0**29, 5), (5, 2.0**30), (-1.0, 3)]:
        for one in (True, False):
            res[f"badtype:{args!r},{one}"] = attempt(lambda: bins(*args, fmt="bed", one=one))
    # every returned set must be a fresh object
    s1 = bins(2**29, 2**29 + 5, one=False)
    s1.add(999)
    res["fresh-set-1"] = norm(bins(2**29, 2**29 + 5, one=False))
    s2 = bins(-5, 5, one=False)
    s2.add(999)
    res["fresh-set-2"] = norm(bins(-5, 5, one=False))
    s3 = bins(5, -5, one=False)
    s3.add(999)
    res["fresh-set-3"] = norm(bins(5, -5, one=False))
    res["constants"] = norm(
        dict(
            NEXT_SHIFT=bins_module.NEXT_SHIFT,
            FIRST_SHIFT=bins_module.FIRST_SHIFT,
            OFFSETS=bins_module.OFFSETS,
            COORD_OFFSETS=bins_module.COORD_OFFSETS,
            MAX_CHROM_SIZE=bins_module.MAX_CHROM_SIZE,
        )
    )
    out["bins"] = res


# ---------------------------------------------------------------------------------------------------------------
# 2. bin attribute set by the constructors
# ---------------------------------------------------------------------------------------------------------------
def block_layouts():
    """(starts, ends) block layouts, relative to zero"""
    return [
        ([0], [30]),
        ([0, 40], [30, 90]),
        ([0, 40, 131000], [30, 90, 131200]),
        ([0, 2**17 - 10, 2**20 + 3], [12, 2**17 + 10, 2**20 + 300]),
        ([5, 2**23], [8, 2**23 + 9]),
    ]


def anchors():
    a = [0, 1, 1000, 2**17 - 40, 2**17 - 1, 2**17, 2**20 - 15, 2**20, 2**23 - 1, 2**26 - 20, 2**26 + 1]
    a += [2**29 - 2**24, 2**29 - 31, 2**29, 2**29 + 17, 2**30]
    return a


def make_tx(base, layout, strand, coding, parent=None, **kw):
    starts = [base + s for s in layout[0]]
    ends = [base + e for e in layout[1]]
    if coding:
        return TranscriptInterval(
            starts,
            ends,
            strand,
            cds_starts=starts,
            cds_ends=ends,
            cds_frames=[CDSFrame.ZERO] * len(starts),
            parent_or_seq_chunk_parent=parent,
            **kw,
        )
    return TranscriptInterval(starts, ends, strand, parent_or_seq_chunk_parent=parent, **kw)


def make_feat(base, layout, strand, parent=None, **kw):
    starts = [base + s for s in layout[0]]
    ends = [base + e for e in layout[1]]
    return FeatureInterval(starts, ends, strand, parent_or_seq_chunk_parent=parent, **kw)


def describe(obj):
    d = dict(
        cls=type(obj).__name__,
        bin=obj.bin,
        bin_type=type(obj.bin).__name__,
        start=obj.start,
        end=obj.end,
        s=str(obj),
        guid=str(obj.guid),
    )
    if hasattr(obj, "to_dict"):
        d["dict"] = obj.to_dict()
    return d


def check_constructors(out):
    res = {}
    for base in anchors():
        for li, layout in enumerate(block_layouts()):
            for strand in (Strand.PLUS, Strand.MINUS):
                key = f"{base}/{li}/{strand.name}"

                def build_tx():
                    tx = make_tx(base, layout, strand, coding=(li % 2 == 0), transcript_id=f"tx{li}")
                    tx2 = make_tx(base + 7, block_layouts()[0], strand, coding=False, transcript_id="short")
                    gene = GeneInterval([tx, tx2], gene_id="g", gene_type=Biotype.protein_coding)
                    return [describe(tx), describe(tx2), describe(gene)] + (
                        [describe(tx.cds) | {"cls": "CDS"}] if tx.cds is not None and hasattr(tx.cds, "bin") else []
                    )

                def build_feat():
                    f1 = make_feat(base, layout, strand, feature_types=["a"], feature_name=f"f{li}")
                    f2 = make_feat(base + 3, block_layouts()[1], strand, feature_types=["b"])
                    fc = FeatureIntervalCollection([f1, f2], feature_collection_id="fc")
                    return [describe(f1), describe(f2), describe(fc)]

                def build_var():
                    v1 = VariantInterval(base + layout[0][-1], base + layout[1][-1], "ACGT", "mnv", variant_name="v")
                    v2 = VariantInterval(base + layout[1][-1] + 5, base + layout[1][-1] + 6, "T", "snv", variant_name="w")
                    vc = VariantIntervalCollection([v1, v2], variant_collection_id="vc")
                    r = [describe(v1), describe(v2)]
                    r.append(
                        dict(
                            cls="VC",
                            bin=getattr(vc, "bin", "<none>"),
                            start=vc.start,
                            end=vc.end,
                            s=str(vc),
                            guid=str(vc.guid),
                        )
                    )
                    return r

                def build_coll():
                    tx = make_tx(base, layout, strand, coding=False)
                    gene = GeneInterval([tx])
                    f1 = make_feat(base + 11, block_layouts()[1], strand)
                    fc = FeatureIntervalCollection([f1])
                    c1 = AnnotationCollection(feature_collections=[fc], genes=[gene])
                    c2 = AnnotationCollection(feature_collections=[fc], genes=[gene], start=0, end=base + 2**24)
                    c3 = AnnotationCollection(start=base, end=base + 5)
                    c4 = AnnotationCollection()
                    return [
                        dict(bin=getattr(c, "bin", "<none>"), start=getattr(c, "start", None), guid=str(c.guid))
                        for c in (c1, c2, c3, c4)
                    ]

                res[key + "/tx"] = attempt(build_tx)
                res[key + "/feat"] = attempt(build_feat)
                res[key + "/var"] = attempt(build_var)
                res[key + "/coll"] = attempt(build_coll)
    # start / end validation of the collection constructor
    res["coll/start-only"] = attempt(lambda: AnnotationCollection(start=5))
    res["coll/end-only"] = attempt(lambda: AnnotationCollection(end=5))
    res["coll/start-only-0"] = attempt(lambda: AnnotationCollection(start=0))
    res["coll/end-only-0"] = attempt(lambda: AnnotationCollection(end=0))
    res["coll/zero-zero"] = attempt(lambda: str(AnnotationCollection(start=0, end=0).guid))
    res["coll/reversed"] = attempt(lambda: str(AnnotationCollection(start=10, end=5).guid))
    out["constructors"] = res


# ---------------------------------------------------------------------------------------------------------------
# 3. range queries (bin pre-filter) and identifier queries on large, sequence-less collections
# ---------------------------------------------------------------------------------------------------------------
def big_collection(with_variants=True):
    rnd = random.Random(1616)
    genes, fcs, vcs = [], [], []
    positions = []
    for level in (17, 18, 20, 23, 26):
        for mult in (1, 2, 3, 5):
            positions.append(mult * 2**level)
    positions = sorted(set(positions))
    layouts = block_layouts()
    for i, p in enumerate(positions):
        for j, delta in enumerate((-400, -31, -1, 0, 1, 29)):
            base = p + delta
            if base < 0:
                continue
            strand = Strand.PLUS if (i + j) % 2 == 0 else Strand.MINUS
            layout = layouts[(i + j) % 3]
            if (i + j) % 3 == 0:
                txs = [make_tx(base, layout, strand, coding=(j % 2 == 0), transcript_id=f"t{i}_{j}")]
                if j % 3 == 0:
                    txs.append(make_tx(base + 2, layouts[0], strand, coding=False, transcript_id=f"t{i}_{j}b"))
                genes.append(GeneInterval(txs, gene_id=f"gene{i}_{j}", gene_symbol=f"sym{i}", locus_tag=f"lt{i}_{j}"))
            elif (i + j) % 3 == 1:
                fs = [make_feat(base, layout, strand, feature_name=f"feat{i}_{j}", feature_types=["x"])]
                if j % 2 == 0:
                    fs.append(make_feat(base + 1, layouts[1], strand, feature_id=f"fid{i}_{j}", feature_types=["y"]))
                fcs.append(
                    FeatureIntervalCollection(fs, feature_collection_id=f"fc{i}_{j}", locus_tag=f"flt{i}_{j}")
                )
            elif with_variants:
                v = [VariantInterval(base, base + 4, "ACGT", "mnv", variant_name=f"v{i}_{j}")]
                if j % 2 == 1:
                    v.append(VariantInterval(base + 10, base + 11, "G", "snv", variant_name=f"v{i}_{j}b"))
                vcs.append(VariantIntervalCollection(v, variant_collection_id=f"vc{i}_{j}"))
    rnd.shuffle(genes)
    return genes, fcs, vcs


def summarize_collection(c):
    d = dict(
        s=str(c),
        repr=repr(c),
        n=len(c),
        empty=c.is_empty,
        guid=str(c.guid),
        cw=c.completely_within,
        start=getattr(c, "start", None),
        end=getattr(c, "end", None),
        bin=getattr(c, "bin", "<none>"),
        children=[(type(x).__name__, x.start, x.end, getattr(x, "bin", "<none>"), str(x.guid)) for x in c.iter_children()],
        grandchildren=[(type(y).__name__, y.start, y.end, y.bin, str(y.guid)) for x in c.iter_children() for y in x],
        order_genes=[g.gene_id for g in c.genes],
        order_fcs=[f.feature_collection_id for f in c.feature_collections],
        order_vcs=[v.variant_collection_id for v in c.variant_collections],
    )
    d["dict"] = c.to_dict()
    return d


def query_windows(lo, hi):
    rnd = random.Random(99)
    w = [(None, None), (lo, hi), (0, None), (None, hi), (0, 10), (lo, lo + 1)]
    for level in (17, 18, 20, 23, 26):
        for mult in (1, 2, 3, 5):
            p = mult * 2**level
            for a, b in ((-500, 200), (-1, 1), (0, 131300), (-32, 2**17 + 5), (1, 91), (-401, 2**20 + 400), (40, 41)):
                w.append((p + a, p + b))
    for _ in range(40):
        a = rnd.randrange(lo, hi)
        b = min(hi, a + rnd.choice([1, 50, 2**17, 2**20, 2**24, 2**27]))
        w.append((a, b))
    # invalid ones
    w += [(-5, 10), (10, 5), (7, 7), (hi, hi + 10), (0, hi + 1), (lo - 1 if lo else 3, 3)]
    return w


def check_queries(out):
    res = {}
    genes, fcs, vcs = big_collection()
    colls = {
        "inferred": AnnotationCollection(feature_collections=fcs, genes=genes, variant_collections=vcs),
        "explicit": AnnotationCollection(
            feature_collections=fcs, genes=genes, variant_collections=vcs, start=0, end=2**29 + 1000
        ),
        "novariants": AnnotationCollection(feature_collections=fcs, genes=genes, start=2**16, end=2**29 - 1),
    }
    for cname, coll in colls.items():
        res[f"{cname}/self"] = attempt(lambda: summarize_collection(coll))
        for (a, b) in query_windows(coll.start, coll.end):
            for cw in (True, False):
                for coding_only in (False, True):
                    for expand in (False, True):
                        key = f"{cname}/{a}-{b}/cw={cw}/co={coding_only}/ex={expand}"
                        res[key] = attempt(
                            lambda: summarize_collection(
                                coll.query_by_position(
                                    a,
                                    b,
                                    coding_only=coding_only,
                                    completely_within=cw,
                                    expand_location_to_children=expand,
                                )
                            )
                        )
        # private helpers directly
        for (a, b) in [(2**17 - 500, 2**17 + 500), (1, 2**20), (0, 2**20), (2**23 - 1, 2**23 + 131300), (5, 6)]:
            for cw in (True, False, 1, 0, None):
                for co in (True, False):
                    key = f"{cname}/_qbp/{a}-{b}/{cw!r}/{co}"
                    res[key] = attempt(
                        lambda: [[str(x.guid) for x in part] for part in coll._query_by_position(a, b, cw, co)]
                    )
        res[f"{cname}/_opt"] = attempt(lambda: coll._optimized_query_by_position(1, 2**20, True, False))

        # identifier queries go through _return_collection_for_id_queries
        some_guids = [g.guid for g in genes[:3]] + [f.guid for f in fcs[-2:]] + [v.guid for v in vcs[:1]]
        res[f"{cname}/guids"] = attempt(lambda: summarize_collection(coll.query_by_guids(some_guids)))
        res[f"{cname}/guid1"] = attempt(lambda: summarize_collection(coll.query_by_guids(genes[5].guid)))
        res[f"{cname}/guid-none"] = attempt(
            lambda: summarize_collection(coll.query_by_guids(UUID("00000000-0000-0000-0000-000000000000")))
        )
        res[f"{cname}/ids"] = attempt(
            lambda: summarize_collection(
                coll.query_by_feature_identifiers(["gene0_0", "sym3", "flt2_2", "feat1_0", "nothing", "fid4_0"])
            )
        )
        tx_guids = [tx.guid for g in genes[2:6] for tx in g.transcripts]
        f_guids = [f.guid for fc in fcs[1:4] for f in fc.feature_intervals]
        res[f"{cname}/iguids"] = attempt(
            lambda: summarize_collection(coll.query_by_interval_guids(tx_guids + f_guids))
        )
        res[f"{cname}/txguids"] = attempt(
            lambda: summarize_collection(coll.query_by_transcript_interval_guids(tx_guids))
        )
        res[f"{cname}/fguids"] = attempt(lambda: summarize_collection(coll.query_by_feature_interval_guids(f_guids)))
        # chained: query of a query (completely_within carried over)
        res[f"{cname}/chained"] = attempt(
            lambda: summarize_collection(
                coll.query_by_position(2**17 - 1000, 2**21, completely_within=False).query_by_guids(some_guids)
            )
        )
        res[f"{cname}/chained2"] = attempt(
            lambda: summarize_collection(
                coll.query_by_position(2**17 - 1000, 2**24, completely_within=True).query_by_position(
                    2**18 - 500, 2**20 + 500, completely_within=True
                )
            )
        )
    # an empty collection
    empty = AnnotationCollection(start=10, end=2**20)
    for (a, b) in [(None, None), (10, 20), (2**17, 2**18), (0, 5)]:
        for cw in (True, False):
            res[f"empty/{a}-{b}/{cw}"] = attempt(
                lambda: summarize_collection(empty.query_by_position(a, b, completely_within=cw))
            )
    out["queries"] = res


# ---------------------------------------------------------------------------------------------------------------
# 4. small collections with sequence: full chromosome parents and chunk parents, both strands
# ---------------------------------------------------------------------------------------------------------------
def small_children(parent):
    tx1 = TranscriptInterval(
        [12],
        [28],
        Strand.PLUS,
        cds_starts=[15],
        cds_ends=[19],
        cds_frames=[CDSFrame.ZERO],
        transcript_id="tx1",
        parent_or_seq_chunk_parent=parent,
    )
    tx2 = TranscriptInterval(
        [12, 17, 22],
        [16, 20, 25],
        Strand.PLUS,
        cds_starts=[14, 17, 22],
        cds_ends=[16, 20, 23],
        cds_frames=[CDSFrame.ZERO, CDSFrame.TWO, CDSFrame.TWO],
        transcript_id="tx2",
        parent_or_seq_chunk_parent=parent,
    )
    txm = TranscriptInterval(
        [30, 36], [34, 40], Strand.MINUS, transcript_id="txm", parent_or_seq_chunk_parent=parent
    )
    f1 = FeatureInterval([12], [15], Strand.PLUS, feature_name="f1", parent_or_seq_chunk_parent=parent)
    f2 = FeatureInterval(
        [12, 17, 22], [16, 20, 25], Strand.MINUS, feature_name="f2", parent_or_seq_chunk_parent=parent
    )
    f3 = FeatureInterval([35], [40], Strand.MINUS, feature_name="f3", parent_or_seq_chunk_parent=parent)
    g1 = GeneInterval([tx1, tx2], gene_id="gene1", parent_or_seq_chunk_parent=parent)
    g2 = GeneInterval([txm], gene_id="gene2", parent_or_seq_chunk_parent=parent)
    fc1 = FeatureIntervalCollection([f1, f2], feature_collection_id="fc1", parent_or_seq_chunk_parent=parent)
    fc2 = FeatureIntervalCollection([f3], feature_collection_id="fc2", parent_or_seq_chunk_parent=parent)
    v1 = VariantInterval(18, 19, "T", "snv", variant_name="v1", parent_or_seq_chunk_parent=parent)
    v2 = VariantInterval(31, 33, "GGG", "insertion", variant_name="v2", parent_or_seq_chunk_parent=parent)
    vc = VariantIntervalCollection([v1, v2], variant_collection_id="vc", parent_or_seq_chunk_parent=parent)
    return [g1, g2], [fc1, fc2], [vc]


def check_small(out):
    res = {}
    genome = "ACGTTGCAAGCTTAGCCATGGATCCGTTAACCGGTTAGCATGCAATCGGATTACA"  # 55 bp
    parents = {
        "none": None,
        "chrom": seq_to_parent(genome, seq_id="chr1"),
        "chunk_5_50": seq_chunk_to_parent(genome[5:50], "chr1", 5, 50),
        "chunk_10_42": seq_chunk_to_parent(genome[10:42], "chr1", 10, 42),
    }
    for pname, parent in parents.items():

        def build(with_variants):
            genes, fcs, vcs = small_children(parent)
            return AnnotationCollection(
                feature_collections=fcs,
                genes=genes,
                variant_collections=vcs if with_variants else None,
                parent_or_seq_chunk_parent=parent,
            )

        for wv in (False, True):
            try:
                coll = build(wv)
            except Exception as e:  # noqa
                res[f"{pname}/{wv}/build"] = {"exc": type(e).__name__, "msg": str(e)}
                continue
            res[f"{pname}/{wv}/self"] = attempt(lambda: summarize_collection(coll))
            windows = [(None, None), (21, 22), (28, 35), (28, 36), (27, 36), (24, 36), (12, 29), (11, 41), (0, 55)]
            windows += [(5, 50), (10, 42), (12, 16), (30, 40), (1, 20), (13, 13), (20, 10)]
            for (a, b) in windows:
                for cw in (True, False):
                    for co in (False, True):
                        for ex in (False, True):
                            key = f"{pname}/{wv}/{a}-{b}/cw={cw}/co={co}/ex={ex}"

                            def run():
                                q = coll.query_by_position(
                                    a, b, coding_only=co, completely_within=cw, expand_location_to_children=ex
                                )
                                d = summarize_collection(q)
                                d["loc"] = str(q.chunk_relative_location)
                                d["chrom_loc"] = str(q.chromosome_location)
                                d["tx_seqs"] = [
                                    attempt(lambda: str(tx.get_spliced_sequence()))
                                    for g in q.genes
                                    for tx in g.transcripts
                                ]
                                d["f_locs"] = [
                                    (str(f.chunk_relative_location), str(f.chromosome_location))
                                    for fc in q.feature_collections
                                    for f in fc.feature_intervals
                                ]
                                return d

                            res[key] = attempt(run)
            res[f"{pname}/{wv}/ids"] = attempt(
                lambda: summarize_collection(coll.query_by_feature_identifiers(["gene2", "fc1"]))
            )

            # a collection whose own bounds are narrower than its children: expanding a query to the children
            # walks off the collection (an error when there is sequence)
            def build_narrow():
                genes, fcs, vcs = small_children(parent)
                return AnnotationCollection(
                    feature_collections=fcs,
                    genes=genes,
                    variant_collections=vcs if wv else None,
                    start=14,
                    end=38,
                    parent_or_seq_chunk_parent=parent,
                )

            try:
                narrow = build_narrow()
            except Exception as e:  # noqa
                res[f"{pname}/{wv}/narrow/build"] = {"exc": type(e).__name__, "msg": str(e)}
            else:
                for (a, b) in [(None, None), (14, 38), (20, 30), (14, 20), (33, 38), (26, 29), (13, 20), (20, 39)]:
                    for cw in (True, False):
                        for ex in (True, False):
                            res[f"{pname}/{wv}/narrow/{a}-{b}/{cw}/{ex}"] = attempt(
                                lambda: summarize_collection(
                                    narrow.query_by_position(
                                        a, b, completely_within=cw, expand_location_to_children=ex
                                    )
                                )
                            )
                res[f"{pname}/{wv}/narrow/ids"] = attempt(
                    lambda: summarize_collection(narrow.query_by_feature_identifiers(["gene1", "fc2"]))
                )
            res[f"{pname}/{wv}/guids"] = attempt(
                lambda: summarize_collection(coll.query_by_guids([coll.genes[0].guid, coll.feature_collections[1].guid]))
            )
    out["small"] = res


# ---------------------------------------------------------------------------------------------------------------
# 5. the cgranges code path, with a naive stand-in for the (not installed) cgranges extension
# ---------------------------------------------------------------------------------------------------------------
class _FakeCgranges:
    """same interface as cgranges.cgranges for what the library uses: add / index / overlap"""

    def __init__(self):
        self._rows = []

    def add(self, contig, start, end, label):
        self._rows.append((contig, start, end, label))

    def index(self):
        self._rows.sort(key=lambda r: (r[0], r[1], r[2]))

    def overlap(self, contig, start, end):
        for c, s, e, label in self._rows:
            if c == contig and s < end and e > start:
                yield s, e, label


def check_optimized(out):
    import inscripta.biocantor.gene.collections as collections_module

    res = {}
    genes, fcs, vcs = big_collection()
    coll = AnnotationCollection(feature_collections=fcs, genes=genes, variant_collections=vcs, start=0, end=2**29 + 1000)
    collections_module.cgranges = types.SimpleNamespace(cgranges=_FakeCgranges)
    collections_module.HAS_CGRANGES = True
    try:
        for (a, b) in query_windows(coll.start, coll.end)[:70]:
            for cw in (True, False):
                for co in (True, False):
                    res[f"_opt/{a}-{b}/{cw}/{co}"] = attempt(
                        lambda: [
                            [str(x.guid) for x in part] for part in coll._optimized_query_by_position(a, b, cw, co)
                        ]
                    )
                    res[f"qbp/{a}-{b}/{cw}/{co}"] = attempt(
                        lambda: summarize_collection(
                            coll.query_by_position(a, b, coding_only=co, completely_within=cw)
                        )
                    )
    finally:
        collections_module.HAS_CGRANGES = False
        del collections_module.cgranges
    out["optimized"] = res


def dump(path):
    out = {}
    check_bins(out)
    check_constructors(out)
    check_queries(out)
    check_small(out)
    check_optimized(out)
    with open(path, "w") as fh:
        json.dump(out, fh, sort_keys=True)
    for k, v in out.items():
        n_exc = sum(1 for x in v.values() if isinstance(x, dict) and "exc" in x)
        print(f"{k}: {len(v)} cases ({n_exc} raising)")


def compare(p1, p2):
    with open(p1) as fh:
        a = json.load(fh)
    with open(p2) as fh:
        b = json.load(fh)
    bad = 0
    total = 0
    for section in sorted(set(a) | set(b)):
        sa, sb = a.get(section, {}), b.get(section, {})
        for key in sorted(set(sa) | set(sb)):
            total += 1
            if sa.get(key) != sb.get(key):
                bad += 1
                if bad <= 20:
                    print(f"DIFF {section} {key}\n   A: {json.dumps(sa.get(key))[:400]}\n   B: {json.dumps(sb.get(key))[:400]}")
    print(f"compared {total} cases, {bad} differences")
    return 1 if bad else 0


if __name__ == "__main__":
    if sys.argv[1] == "dump":
        dump(sys.argv[2])
    elif sys.argv[1] == "compare":
        sys.exit(compare(sys.argv[2], sys.argv[3]))
    else:
        sys.exit(__doc__)
