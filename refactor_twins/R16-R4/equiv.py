"""
Equivalence harness for property C16 (UCSC bin assignment / bin pre-filter in range queries).

Usage (from the worktree root):
    /venv/bin/python _refactor/R4/equiv.py dump _refactor/tmp/pristine.json     # on pristine code
    git apply _refactor/R4/patch.diff
    /venv/bin/python _refactor/R4/equiv.py dump _refactor/tmp/patched.json      # on refactored code
    /venv/bin/python _refactor/R4/equiv.py compare _refactor/tmp/pristine.json _refactor/tmp/patched.json

Three sections are recorded:
  A. bins(start, stop, fmt, one) on boundary bands for every level, random pairs up to 2**30, out-of-range,
     negative, reversed, and ill-typed inputs (exception type + message recorded);
  B. the `.bin` (plus start/end/repr/to_dict) of every interval type at construction: FeatureInterval,
     TranscriptInterval, VariantInterval, FeatureIntervalCollection, GeneInterval, AnnotationCollection,
     with no parent, a chromosome parent and a sequence-chunk parent, both strands, multi-block;
  C. AnnotationCollection.query_by_position / _query_by_position on collections whose members straddle
     128kb bin boundaries, for a grid of (start, end, completely_within, coding_only, expand) values.
"""
import hashlib
import json
import os
import random
import sys
import types

sys.path.insert(0, os.getcwd())  # run from the worktree root: the checkout under test must be the one imported

import inscripta.biocantor.location  # noqa: F401,E402  (must be first: circular import otherwise)
from inscripta.biocantor.gene.cds_frame import CDSFrame
from inscripta.biocantor.gene.collections import AnnotationCollection
from inscripta.biocantor.gene.feature import FeatureInterval, FeatureIntervalCollection
from inscripta.biocantor.gene.gene import GeneInterval
from inscripta.biocantor.gene.transcript import TranscriptInterval
from inscripta.biocantor.gene.variants import VariantInterval, VariantIntervalCollection
from inscripta.biocantor.location.location_impl import SingleInterval
from inscripta.biocantor.location.strand import Strand
from inscripta.biocantor.parent import Parent, SequenceType
from inscripta.biocantor.sequence.alphabet import Alphabet
from inscripta.biocantor.sequence.sequence import Sequence
from inscripta.biocantor.util.bins import bins

assert os.path.realpath(inscripta.biocantor.location.__file__).startswith(os.path.realpath(os.getcwd())), "wrong checkout"


# --------------------------------------------------------------------------------------------------
# helpers
# --------------------------------------------------------------------------------------------------
def _parser_seq_to_parent(seq, alphabet=Alphabet.NT_EXTENDED_GAPPED, seq_id=None, seq_type=SequenceType.CHROMOSOME):
    """Verbatim copy of inscripta.biocantor.io.parser.seq_to_parent (that module cannot be imported here)."""
    return Parent(
        sequence=Sequence(seq, alphabet, type=seq_type, id=seq_id), location=SingleInterval(0, len(seq), Strand.PLUS)
    )


def seq_chunk_to_parent(seq, sequence_name, start, end, strand=Strand.PLUS, alphabet=Alphabet.NT_EXTENDED_GAPPED):
    """Verbatim copy of inscripta.biocantor.io.parser.seq_chunk_to_parent."""
    chunk_id = f"{sequence_name}:{start}-{end}"
    return Parent(
        id=chunk_id,
        sequence=Sequence(
            seq,
            alphabet,
            id=chunk_id,
            type=SequenceType.SEQUENCE_CHUNK,
            parent=Parent(
                location=SingleInterval(
                    start, end, strand, parent=Parent(id=sequence_name, sequence_type=SequenceType.CHROMOSOME)
                )
            ),
        ),
    )


# The library imports these two helpers lazily from io.parser, which cannot be imported in this environment
# (io/models.py fails on the installed marshmallow).  Provide a stand-in module holding the verbatim copies so that
# sequence-bearing collections can be built and queried.  The stand-in is identical for pristine and patched runs.
_stub = types.ModuleType("inscripta.biocantor.io.parser")
_stub.seq_to_parent = _parser_seq_to_parent
_stub.seq_chunk_to_parent = seq_chunk_to_parent
sys.modules["inscripta.biocantor.io.parser"] = _stub


def seq_to_parent(seq, seq_id="chr1"):
    return _parser_seq_to_parent(seq, seq_id=seq_id)


def enc(value):
    """Stable, compact encoding of a result."""
    if isinstance(value, (set, frozenset)):
        lst = sorted(value)
        return ["set", len(lst), hashlib.md5(repr(lst).encode()).hexdigest(), lst[:6], lst[-3:]]
    if isinstance(value, bool) or value is None or isinstance(value, (int, str)):
        return [type(value).__name__, value]
    return [type(value).__name__, repr(value)]


def attempt(fn, *args, **kwargs):
    try:
        return enc(fn(*args, **kwargs))
    except Exception as e:  # noqa
        return ["EXC", type(e).__name__, str(e)]


def jdigest(obj):
    s = json.dumps(obj, sort_keys=True, default=str)
    return hashlib.md5(s.encode()).hexdigest()


# --------------------------------------------------------------------------------------------------
# A. bins()
# --------------------------------------------------------------------------------------------------
def section_bins():
    out = {}
    pairs = set()
    band = range(-3, 4)
    for level in (17, 20, 23, 26, 29):
        size = 2**level
        for k in (0, 1, 2, 3, 7, 8, 9, 15, 16, 63, 64, 65, 511, 512, 513, 4095, 4096):
            m = k * size
            if m > 2**30:
                continue
            ends = {m, m + size, m + 2**17, m + 8 * size, m + 2 * size}
            for ds in band:
                s = m + ds
                for e0 in ends:
                    for de in band:
                        pairs.add((s, e0 + de))
                # tiny intervals
                pairs.add((s, s))
                pairs.add((s, s + 1))
                pairs.add((s + 1, s))  # reversed
    rnd = random.Random(160016)
    for _ in range(6000):
        s = rnd.randrange(0, 2**30)
        pairs.add((s, s + rnd.randrange(0, 2 ** rnd.randrange(1, 30))))
    for _ in range(3000):
        a = rnd.randrange(0, 2**30)
        b = rnd.randrange(0, 2**30)
        pairs.add((a, b))  # includes reversed pairs
    for _ in range(3000):
        s = rnd.randrange(0, 2**22)
        pairs.add((s, s + rnd.randrange(0, 5000)))
    for s, e in [(-1, 5), (5, -1), (-1, -1), (0, 0), (0, 1), (0, 2**17), (0, 2**29 - 1), (0, 2**29), (2**29, 0),
                 (2**29 - 1, 2**29 - 1), (2**29 - 1, 2**29), (2**31, 2**40), (-(2**40), 3), (1, 1), (1, 2**17)]:
        pairs.add((s, e))

    for s, e in sorted(pairs):
        for fmt in ("bed", "gff"):
            out[f"{s},{e},{fmt},1"] = attempt(bins, s, e, fmt=fmt, one=True)
            out[f"{s},{e},{fmt},0"] = attempt(bins, s, e, fmt=fmt, one=False)
    # defaults and positional use
    for s, e in [(1, 10), (131072, 131073), (131073, 131074), (0, 10), (2**20, 2**20 + 5), (2**29, 5)]:
        out[f"{s},{e},default"] = attempt(bins, s, e)
        out[f"{s},{e},positional-bed-False"] = attempt(bins, s, e, "bed", False)
        out[f"{s},{e},kw"] = attempt(bins, start=s, stop=e, fmt="bed", one=True)
        out[f"{s},{e},truthy-one"] = attempt(bins, s, e, "bed", 1)
        out[f"{s},{e},falsy-one"] = attempt(bins, s, e, "bed", 0)
        out[f"{s},{e},none-one"] = attempt(bins, s, e, "bed", None)
        out[f"{s},{e},badfmt"] = attempt(bins, s, e, fmt="sam")
        out[f"{s},{e},badfmt-all"] = attempt(bins, s, e, fmt="sam", one=False)
        out[f"{s},{e},nonefmt"] = attempt(bins, s, e, fmt=None)
    # ill-typed input: only the exception type/message or value matters
    weird = [(None, 5), (5, None), (1.5, 5), (5, 7.5), (2.0**30, 5), (5, 2.0**30), (-1.0, 5), (5, -2.5), ("a", 5),
             (5, "a"), (True, 5), (True, True), (False, False), (3.0, 3.0)]
    for s, e in weird:
        for fmt in ("bed", "gff", "sam"):
            for one in (True, False):
                out[f"weird:{s!r},{e!r},{fmt},{one}"] = attempt(bins, s, e, fmt=fmt, one=one)
    return out


# --------------------------------------------------------------------------------------------------
# B. bins stored at construction
# --------------------------------------------------------------------------------------------------
CHROM_LEN = 800_000
_rnd = random.Random(7)
CHROM_SEQ = "".join(_rnd.choice("ACGT") for _ in range(4096)) * (CHROM_LEN // 4096 + 1)
CHROM_SEQ = CHROM_SEQ[:CHROM_LEN]

B17 = 2**17


def parents():
    """(label, factory) - factories because Parent objects get mutated/linked."""
    return [
        ("none", lambda: None),
        ("chrom", lambda: seq_to_parent(CHROM_SEQ)),
        ("chunk", lambda: seq_chunk_to_parent(CHROM_SEQ[100_000:700_000], "chr1", 100_000, 700_000)),
        ("chunk-tight", lambda: seq_chunk_to_parent(CHROM_SEQ[B17 - 50 : 3 * B17 + 50], "chr1", B17 - 50, 3 * B17 + 50)),
    ]


# block layouts: list of (starts, ends)
LAYOUTS = [
    ([B17 - 30], [B17 - 3]),
    ([B17 - 30], [B17]),
    ([B17 - 30], [B17 + 1]),
    ([B17], [B17 + 30]),
    ([B17 - 1], [B17 + 30]),
    ([B17 - 40, B17 - 10, B17 + 20], [B17 - 25, B17 + 5, B17 + 50]),
    ([2 * B17 - 40, 2 * B17 + 300], [2 * B17 - 4, 2 * B17 + 360]),
    ([B17 + 5, 2 * B17 + 5], [B17 + 65, 2 * B17 + 65]),
    ([B17 + 5, 3 * B17 - 20], [B17 + 65, 3 * B17 + 10]),
    ([150_000, 150_100, 150_300], [150_060, 150_220, 150_390]),
    ([4 * B17 - 12], [4 * B17]),
    ([4 * B17], [4 * B17 + 12]),
    ([4 * B17 - 12, 4 * B17 + 30], [4 * B17 + 6, 4 * B17 + 48]),
]
# big coordinate layouts only valid without sequence
BIG_LAYOUTS = [
    ([2**20 - 10], [2**20 + 10]),
    ([2**23 - 10, 2**23 + 100], [2**23 - 1, 2**23 + 200]),
    ([2**26 - 10], [2**26]),
    ([2**29 - 100], [2**29 - 1]),
    ([2**29 - 100], [2**29]),
    ([2**29 - 100, 2**29 + 100], [2**29 - 10, 2**29 + 200]),
    ([2**29 + 5], [2**29 + 50]),
    ([0], [10]),
    ([0, 2**17], [10, 2**17 + 10]),
]


def describe(obj):
    d = {
        "type": type(obj).__name__,
        "bin": enc(getattr(obj, "bin", "<no bin attr>")),
        "start": getattr(obj, "start", None),
        "end": getattr(obj, "end", None),
        "genomic_start": getattr(obj, "genomic_start", None),
        "genomic_end": getattr(obj, "genomic_end", None),
        "repr": repr(obj),
        "str": str(obj),
        "guid": str(getattr(obj, "guid", None)),
    }
    try:
        d["to_dict"] = jdigest(obj.to_dict())
        d["to_dict_full"] = json.loads(json.dumps(obj.to_dict(), default=str, sort_keys=True))
    except Exception as e:  # noqa
        d["to_dict"] = ["EXC", type(e).__name__, str(e)]
    # attribute order in __dict__ is observable through vars(); record the set of attributes only
    d["attrs"] = sorted(vars(obj))
    return d


def try_build(fn):
    try:
        return describe(fn())
    except Exception as e:  # noqa
        return ["EXC", type(e).__name__, str(e)]


def make_tx(starts, ends, strand, parent, coding, **kw):
    if coding:
        # CDS = whole exon span trimmed by 3 on each side of the first / last block when possible
        cds_starts = list(starts)
        cds_ends = list(ends)
        if cds_ends[0] - cds_starts[0] > 6:
            cds_starts[0] += 3
        if cds_ends[-1] - cds_starts[-1] > 6:
            cds_ends[-1] -= 3
        frames = [CDSFrame.ZERO] * len(starts)
        return TranscriptInterval(
            starts, ends, strand, cds_starts=cds_starts, cds_ends=cds_ends, cds_frames=frames,
            parent_or_seq_chunk_parent=parent, **kw
        )
    return TranscriptInterval(starts, ends, strand, parent_or_seq_chunk_parent=parent, **kw)


def section_construct():
    out = {}
    for plabel, pf in parents():
        layouts = LAYOUTS + (BIG_LAYOUTS if plabel == "none" else [])
        for li, (starts, ends) in enumerate(layouts):
            for strand in (Strand.PLUS, Strand.MINUS):
                key = f"{plabel}|{li}|{strand.name}"
                out[f"feat|{key}"] = try_build(
                    lambda: FeatureInterval(
                        starts, ends, strand, feature_types=["a", "b"], feature_name=f"f{li}",
                        qualifiers={"q": ["1"]}, parent_or_seq_chunk_parent=pf(),
                    )
                )
                for coding in (False, True):
                    out[f"tx|{key}|{coding}"] = try_build(
                        lambda: make_tx(starts, ends, strand, pf(), coding, transcript_id=f"t{li}",
                                        qualifiers={"q": ["x"]})
                    )

                def mk_gene():
                    p = pf()
                    txs = [
                        make_tx(starts, ends, strand, p, True, transcript_id="t1"),
                        make_tx([starts[0]], [ends[0]], strand, p, False, transcript_id="t2"),
                    ]
                    return GeneInterval(txs, gene_id=f"g{li}", qualifiers={"z": ["1"]}, parent_or_seq_chunk_parent=p)

                out[f"gene|{key}"] = try_build(mk_gene)

                def mk_fc():
                    p = pf()
                    fs = [
                        FeatureInterval(starts, ends, strand, feature_name="a", parent_or_seq_chunk_parent=p),
                        FeatureInterval([starts[-1]], [ends[-1]], strand, feature_name="b",
                                        parent_or_seq_chunk_parent=p),
                    ]
                    return FeatureIntervalCollection(fs, feature_collection_name=f"fc{li}",
                                                     parent_or_seq_chunk_parent=p)

                out[f"fc|{key}"] = try_build(mk_fc)
            # variants are always plus
            s, e = starts[0], ends[0]
            out[f"var|{plabel}|{li}"] = try_build(
                lambda: VariantInterval(s, e, "ACGTT", "mnv", variant_name=f"v{li}", qualifiers={"k": ["v"]},
                                        parent_or_seq_chunk_parent=pf())
            )
            out[f"var1|{plabel}|{li}"] = try_build(
                lambda: VariantInterval(ends[-1] - 1, ends[-1], "G", "snv", parent_or_seq_chunk_parent=pf())
            )
    out["var-empty"] = try_build(lambda: VariantInterval(5, 5, "G", "snv"))
    out["gene-empty"] = try_build(lambda: GeneInterval([]))
    out["fc-empty"] = try_build(lambda: FeatureIntervalCollection([]))

    # annotation collections: explicit bounds, inferred from parent, inferred from children, empty
    for plabel, pf in parents():
        for bounds in (None, (B17 - 100, 3 * B17 + 20), (0, 2**17), (0, 2**17 + 1), (B17, 2 * B17)):
            def mk_ac():
                p = pf()
                g = GeneInterval([make_tx([B17 + 5, 2 * B17 + 5], [B17 + 65, 2 * B17 + 65], Strand.MINUS, p, True)],
                                 gene_id="g", parent_or_seq_chunk_parent=p)
                fc = FeatureIntervalCollection(
                    [FeatureInterval([B17 - 30], [B17 + 1], Strand.PLUS, parent_or_seq_chunk_parent=p)],
                    parent_or_seq_chunk_parent=p,
                )
                kw = {}
                if bounds:
                    kw = dict(start=bounds[0], end=bounds[1])
                return AnnotationCollection(feature_collections=[fc], genes=[g], name="ac",
                                            parent_or_seq_chunk_parent=p, **kw)

            out[f"ac|{plabel}|{bounds}"] = try_build(mk_ac)
        out[f"ac-empty|{plabel}"] = try_build(lambda: AnnotationCollection(parent_or_seq_chunk_parent=pf()))
        out[f"ac-empty-bounds|{plabel}"] = try_build(
            lambda: AnnotationCollection(start=B17 - 1, end=B17 + 1, parent_or_seq_chunk_parent=pf())
        )
    out["ac-big-none"] = try_build(
        lambda: AnnotationCollection(
            genes=[GeneInterval([make_tx([2**29 - 100], [2**29 + 5], Strand.PLUS, None, False)])]
        )
    )
    out["ac-start-only"] = try_build(lambda: AnnotationCollection(start=5))
    out["ac-end-only"] = try_build(lambda: AnnotationCollection(end=5))
    return out


# --------------------------------------------------------------------------------------------------
# C. range queries with the bin pre-filter
# --------------------------------------------------------------------------------------------------
def build_collection(pf, big=False, with_variants=True):
    p = pf()
    scale = 2**23 // B17 if big else 1  # big: same layout but around multiples of 2**23 (no sequence)
    U = B17 * scale

    def g(starts, ends, strand, coding, gid):
        txs = [make_tx(starts, ends, strand, p, coding, transcript_id=gid + "-1")]
        if len(starts) > 1:
            txs.append(make_tx([starts[0]], [ends[0]], strand, p, False, transcript_id=gid + "-2"))
        return GeneInterval(txs, gene_id=gid, parent_or_seq_chunk_parent=p)

    def fc(starts, ends, strand, name):
        fs = [FeatureInterval(starts, ends, strand, feature_name=name + "a", parent_or_seq_chunk_parent=p)]
        if len(starts) > 1:
            fs.append(FeatureInterval([starts[-1]], [ends[-1]], strand, feature_name=name + "b",
                                      parent_or_seq_chunk_parent=p))
        return FeatureIntervalCollection(fs, feature_collection_name=name, parent_or_seq_chunk_parent=p)

    genes = [
        g([U - 40], [U - 4], Strand.PLUS, True, "g_before"),
        g([U - 40], [U], Strand.MINUS, True, "g_touch"),
        g([U - 40, U + 10], [U - 20, U + 50], Strand.PLUS, True, "g_span"),
        g([U], [U + 36], Strand.MINUS, False, "g_at"),
        g([U + 500, 2 * U + 5], [U + 560, 2 * U + 65], Strand.PLUS, True, "g_two_bins"),
        g([2 * U - 60, 2 * U - 30], [2 * U - 40, 2 * U - 1], Strand.MINUS, False, "g_nc"),
        g([3 * U + 100], [3 * U + 190], Strand.PLUS, True, "g_far"),
    ]
    fcs = [
        fc([U - 10], [U + 10], Strand.PLUS, "fc_span"),
        fc([U + 1000, U + 2000], [U + 1100, U + 2100], Strand.MINUS, "fc_in"),
        fc([2 * U - 5, 2 * U + 50], [2 * U, 2 * U + 80], Strand.PLUS, "fc_edge"),
        fc([4 * U - 12], [4 * U], Strand.MINUS, "fc_end"),
    ]
    vcs = None
    if with_variants:
        vcs = [
            VariantIntervalCollection(
                [
                    VariantInterval(U - 2, U + 1, "ACG", "mnv", parent_or_seq_chunk_parent=p),
                    VariantInterval(U + 20, U + 21, "T", "snv", parent_or_seq_chunk_parent=p),
                ],
                variant_collection_name="vc1",
                parent_or_seq_chunk_parent=p,
            ),
            VariantIntervalCollection(
                [VariantInterval(2 * U + 6, 2 * U + 7, "T", "snv", parent_or_seq_chunk_parent=p)],
                variant_collection_name="vc2",
                parent_or_seq_chunk_parent=p,
            ),
        ]
    return AnnotationCollection(feature_collections=fcs, genes=genes, variant_collections=vcs, name="coll",
                                parent_or_seq_chunk_parent=p), U


def summarize_collection(ac):
    return {
        "repr": repr(ac),
        "start": getattr(ac, "start", None),
        "end": getattr(ac, "end", None),
        "bin": enc(getattr(ac, "bin", "<no bin attr>")),
        "genes": [x.gene_id for x in ac.genes],
        "fcs": [x.feature_collection_name for x in ac.feature_collections],
        "vcs": [x.variant_collection_name for x in ac.variant_collections],
        "child_bins": [[enc(getattr(gc, "bin", None)) for gc in c] for c in ac.iter_children()],
        "to_dict": jdigest(ac.to_dict()),
    }


def section_queries():
    out = {}
    configs = [
        ("none", parents()[0][1], False, True),
        ("none-novar", parents()[0][1], False, False),
        ("chrom", parents()[1][1], False, True),
        ("chunk", parents()[2][1], False, False),
        ("big", parents()[0][1], True, False),
    ]
    for label, pf, big, with_var in configs:
        try:
            ac, U = build_collection(pf, big=big, with_variants=with_var)
        except Exception as e:  # noqa
            out[f"{label}|build"] = ["EXC", type(e).__name__, str(e)]
            continue
        out[f"{label}|build"] = summarize_collection(ac)
        points = sorted(
            {
                None, 0, 1, ac.start, ac.end, ac.start + 1, ac.end - 1,
                U - 41, U - 40, U - 39, U - 20, U - 10, U - 4, U - 3, U - 2, U - 1, U, U + 1, U + 10, U + 11, U + 21,
                U + 36, U + 37, U + 50, U + 51, U + 560, U + 2100, 2 * U - 60, 2 * U - 1, 2 * U, 2 * U + 1, 2 * U + 7,
                2 * U + 65, 2 * U + 66, 2 * U + 80, 3 * U, 3 * U + 100, 3 * U + 190, 3 * U + 191, 4 * U - 12,
                4 * U - 1, 4 * U, 4 * U + 1, 5 * U,
            },
            key=lambda x: (-1 if x is None else x),
        )
        n = 0
        for s in points:
            for e in points:
                if s is not None and e is not None and e < s - 1:
                    continue
                for cw in (True, False):
                    for co in (True, False):
                        # public API
                        key = f"{label}|q|{s}|{e}|{cw}|{co}"
                        try:
                            r = ac.query_by_position(s, e, coding_only=co, completely_within=cw)
                            out[key] = summarize_collection(r)
                        except Exception as ex:  # noqa
                            out[key] = ["EXC", type(ex).__name__, str(ex)]
                        n += 1
                        # private implementation (no validation in front of it)
                        if s is not None and e is not None:
                            key = f"{label}|_q|{s}|{e}|{cw}|{co}"
                            try:
                                a, b, c = ac._query_by_position(s, e, cw, co)
                                out[key] = [
                                    [type(a).__name__, type(b).__name__, type(c).__name__],
                                    [x.gene_id for x in a],
                                    [x.feature_collection_name for x in b],
                                    [x.variant_collection_name for x in c],
                                ]
                            except Exception as ex:  # noqa
                                out[key] = ["EXC", type(ex).__name__, str(ex)]
        # a few with expand_location_to_children both ways
        for s, e in [(U - 30, U + 5), (U + 520, 2 * U + 10), (2 * U - 3, 2 * U + 60), (ac.start, ac.end)]:
            for exp in (True, False):
                for cw in (True, False):
                    key = f"{label}|qx|{s}|{e}|{cw}|{exp}"
                    try:
                        r = ac.query_by_position(s, e, completely_within=cw, expand_location_to_children=exp)
                        out[key] = summarize_collection(r)
                    except Exception as ex:  # noqa
                        out[key] = ["EXC", type(ex).__name__, str(ex)]
        # defaults (positional)
        for args in [(), (U - 41,), (U - 41, U + 60), (None, U + 60)]:
            key = f"{label}|qdefault|{args}"
            try:
                out[key] = summarize_collection(ac.query_by_position(*args))
            except Exception as ex:  # noqa
                out[key] = ["EXC", type(ex).__name__, str(ex)]
    # empty collection
    for key, fn in [
        ("empty|q", lambda: AnnotationCollection(start=B17 - 10, end=B17 + 10).query_by_position(B17 - 5, B17 + 5)),
        ("empty|_q", lambda: AnnotationCollection(start=B17 - 10, end=B17 + 10)._query_by_position(
            B17 - 5, B17 + 5, True, False)),
    ]:
        try:
            r = fn()
            out[key] = summarize_collection(r) if isinstance(r, AnnotationCollection) else repr(r)
        except Exception as ex:  # noqa
            out[key] = ["EXC", type(ex).__name__, str(ex)]
    return out


def dump(path):
    res = {"A_bins": section_bins(), "B_construct": section_construct(), "C_queries": section_queries()}
    with open(path, "w") as fh:
        json.dump(res, fh, sort_keys=True, default=str)
    for k, v in res.items():
        nexc = sum(1 for x in v.values() if isinstance(x, list) and x and x[0] == "EXC")
        print(f"{k}: {len(v)} cases ({nexc} raising)")


def compare(a, b):
    with open(a) as fh:
        ra = json.load(fh)
    with open(b) as fh:
        rb = json.load(fh)
    bad = 0
    for sec in sorted(set(ra) | set(rb)):
        da, db = ra.get(sec, {}), rb.get(sec, {})
        keys = sorted(set(da) | set(db))
        diffs = [k for k in keys if da.get(k, "<missing>") != db.get(k, "<missing>")]
        print(f"{sec}: {len(keys)} cases, {len(diffs)} differences")
        for k in diffs[:10]:
            print("   ", k, "\n      A:", str(da.get(k))[:300], "\n      B:", str(db.get(k))[:300])
        bad += len(diffs)
    print("EQUIVALENT" if bad == 0 else f"NOT EQUIVALENT ({bad} differences)")
    return 1 if bad else 0


if __name__ == "__main__":
    if sys.argv[1] == "dump":
        dump(sys.argv[2])
    elif sys.argv[1] == "compare":
        sys.exit(compare(sys.argv[2], sys.argv[3]))
    else:
        sys.exit("usage: equiv.py dump OUT.json | compare A.json B.json")
