"""
Equivalence script for the C08 refactorings (serialised forms / identifiers).

Usage (from the worktree root):

    /venv/bin/python _refactor/R1/equiv.py dump /tmp/pristine.json      # on the pristine tree
    git apply _refactor/R1/patch.diff
    /venv/bin/python _refactor/R1/equiv.py dump /tmp/patched.json       # on the refactored tree
    /venv/bin/python _refactor/R1/equiv.py compare /tmp/pristine.json /tmp/patched.json

The hash seed is pinned to 0 unless PYTHONHASHSEED is set by the caller (use the same value for both dumps).

Every observation is stored as ``repr`` (so tuples vs lists, key order of dictionaries and exception
type / message all take part in the comparison).
"""
import os
import sys
import types
import json
import pickle
import random
import itertools
import collections
from uuid import UUID

if "PYTHONHASHSEED" not in os.environ:
    # str(set) takes part in some reprs (identifiers=...), so pin the hash seed unless the caller chose one
    os.environ["PYTHONHASHSEED"] = "0"
    os.execv(sys.executable, [sys.executable] + sys.argv)

sys.path.insert(0, os.getcwd())  # run from the worktree root

import inscripta.biocantor.location  # noqa: F401  (must be first: circular import otherwise)
from inscripta.biocantor.location.location_impl import SingleInterval
from inscripta.biocantor.location.strand import Strand
from inscripta.biocantor.parent.parent import Parent, SequenceType
from inscripta.biocantor.sequence.alphabet import Alphabet
from inscripta.biocantor.sequence.sequence import Sequence


# --------------------------------------------------------------------------------------------------------------
# inscripta.biocantor.io.parser cannot be imported here (marshmallow version); AnnotationCollection.from_dict
# imports seq_to_parent / seq_chunk_to_parent lazily from it, so provide a stand-in module with verbatim copies.
# --------------------------------------------------------------------------------------------------------------
def seq_to_parent(seq, alphabet=Alphabet.NT_EXTENDED_GAPPED, seq_id=None, seq_type=SequenceType.CHROMOSOME):
    return Parent(
        sequence=Sequence(seq, alphabet, type=seq_type, id=seq_id), location=SingleInterval(0, len(seq), Strand.PLUS)
    )


def seq_chunk_to_parent(seq, sequence_name, start, end, strand=Strand.PLUS, alphabet=Alphabet.NT_EXTENDED_GAPPED):
    chunk_id = f"{sequence_name}:{start}-{end}"
    return Parent(
        id=chunk_id,
        sequence=Sequence(
            seq,
            alphabet,
            id=chunk_id,
            type=SequenceType.SEQUENCE_CHUNK,
            parent=Parent(
                location=SingleInterval(
                    start,
                    end,
                    strand,
                    parent=Parent(id=sequence_name, sequence_type=SequenceType.CHROMOSOME),
                )
            ),
        ),
    )


_fake = types.ModuleType("inscripta.biocantor.io.parser")
_fake.seq_to_parent = seq_to_parent
_fake.seq_chunk_to_parent = seq_chunk_to_parent
sys.modules["inscripta.biocantor.io.parser"] = _fake

from inscripta.biocantor.gene.biotype import Biotype  # noqa: E402
from inscripta.biocantor.gene.cds import CDSInterval  # noqa: E402
from inscripta.biocantor.gene.cds_frame import CDSFrame, CDSPhase  # noqa: E402
from inscripta.biocantor.gene.collections import AnnotationCollection  # noqa: E402
from inscripta.biocantor.gene.feature import FeatureInterval, FeatureIntervalCollection  # noqa: E402
from inscripta.biocantor.gene.gene import GeneInterval  # noqa: E402
from inscripta.biocantor.gene.transcript import TranscriptInterval  # noqa: E402
from inscripta.biocantor.gene.variants import VariantInterval, VariantIntervalCollection  # noqa: E402
from inscripta.biocantor.util import hashing  # noqa: E402
from inscripta.biocantor.util.hashing import digest_object  # noqa: E402

RESULTS = {}


def observe(label, fn):
    """Store repr(result) or the exception type + message."""
    try:
        val = fn()
        if isinstance(val, types.GeneratorType):
            val = list(val)
        out = "OK " + repr(val)
    except Exception as e:  # noqa
        out = "EXC %s: %s" % (type(e).__name__, e)
    assert label not in RESULTS, label
    RESULTS[label] = out


# --------------------------------------------------------------------------------------------------------------
# parents
# --------------------------------------------------------------------------------------------------------------
rng = random.Random(20261003)
GENOME = "".join(rng.choice("ACGT") for _ in range(600))


def make_parents():
    return {
        "none": None,
        "chrom_seq": Parent(
            id="chr1", sequence=Sequence(GENOME, Alphabet.NT_STRICT), sequence_type=SequenceType.CHROMOSOME
        ),
        "chrom_seq_loc": Parent(
            id="chr1",
            sequence=Sequence(GENOME, Alphabet.NT_STRICT),
            sequence_type=SequenceType.CHROMOSOME,
            location=SingleInterval(0, len(GENOME), Strand.PLUS),
        ),
        "via_seq_to_parent": seq_to_parent(GENOME, seq_id="chr1"),
        "chrom_noseq": Parent(sequence_type=SequenceType.CHROMOSOME, id="chr1"),
        "other_type": Parent(sequence_type="SomeOtherType", id="chr1"),
        "other_type_seq": Parent(
            sequence=Sequence(GENOME, Alphabet.NT_STRICT), sequence_type="SomeOtherType", id="chr1"
        ),
        "chunk_50_500": seq_chunk_to_parent(GENOME[50:500], "chr1", 50, 500),
        "chunk_120_330": seq_chunk_to_parent(GENOME[120:330], "chr1", 120, 330),
        "chunk_0_600": seq_chunk_to_parent(GENOME, "chr1", 0, 600),
        "chunk_400_600": seq_chunk_to_parent(GENOME[400:600], "chr1", 400, 600),
    }


PARENT_KEYS = list(make_parents())

QUALIFIER_SETS = [
    None,
    {},
    {"note": ["b", "a", "c"], "db_xref": ["X:1"]},
    {"db_xref": ["X:1"], "note": ["c", "a", "b", "a"]},  # permutation of the one above
    {"k": [1, 2, 10], "flag": [True], "7": [3.5, "x"]},
    {"flag": [True], "7": ["x", 3.5], "k": [10, 2, 1]},  # permutation of the one above
    {"empty": []},
]

# (exon starts, exon ends, cds starts, cds ends)
TX_SHAPES = [
    ([100], [200], None, None),
    ([100], [200], [103], [196]),
    ([60, 150, 300], [120, 250, 420], None, None),
    ([60, 150, 300], [120, 250, 420], [70, 150, 300], [120, 250, 390]),
    ([60, 150, 300], [120, 250, 420], [160], [241]),
    ([10, 130, 200, 340, 520], [40, 180, 320, 350, 590], [30, 130, 200, 340, 520], [40, 180, 320, 350, 560]),
    ([125, 260], [200, 325], [130, 260], [200, 320]),
    ([0], [600], [0], [600]),
]


def frames_for(starts, ends, strand):
    from inscripta.biocantor.location.location_impl import CompoundInterval

    if len(starts) == 1:
        loc = SingleInterval(starts[0], ends[0], strand)
    else:
        loc = CompoundInterval(starts, ends, strand)
    return CDSInterval.construct_frames_from_location(loc)


def build_tx(shape, strand, quals, parent, **kw):
    es, ee, cs, ce = shape
    frames = frames_for(cs, ce, strand) if cs else None
    return TranscriptInterval(
        exon_starts=list(es),
        exon_ends=list(ee),
        strand=strand,
        cds_starts=list(cs) if cs else None,
        cds_ends=list(ce) if ce else None,
        cds_frames=frames,
        qualifiers=quals,
        parent_or_seq_chunk_parent=parent,
        **kw,
    )


def describe_interval(label, obj, cls, parent):
    observe(label + "/to_dict", lambda: obj.to_dict())
    observe(label + "/to_dict_chunk", lambda: obj.to_dict(chromosome_relative_coordinates=False))
    observe(label + "/to_dict_positional", lambda: obj.to_dict(False))
    observe(label + "/guid", lambda: obj.guid)
    observe(label + "/str", lambda: (str(obj), repr(obj)))
    observe(label + "/parent_to_dict", lambda: obj._parent_to_dict())
    observe(label + "/parent_to_dict_chunk", lambda: obj._parent_to_dict(False))
    observe(label + "/export_qualifiers_list", lambda: obj._export_qualifiers_to_list())
    observe(label + "/qualifiers_sorted", lambda: sorted((str(k), sorted(v)) for k, v in obj.qualifiers.items()))
    observe(label + "/identifiers", lambda: (sorted(map(str, obj.identifiers)), obj.identifiers_dict))

    def roundtrip():
        d = obj.to_dict()
        new = cls.from_dict(d, parent)
        return new.to_dict(), new.guid, new == obj, new.to_dict() == d, str(new)

    observe(label + "/roundtrip", roundtrip)

    def roundtrip_noparent():
        d = obj.to_dict()
        new = cls.from_dict(d)
        return new.to_dict(), new.guid, str(new)

    observe(label + "/roundtrip_noparent", roundtrip_noparent)

    def roundtrip_chunk():
        d = obj.to_dict(chromosome_relative_coordinates=False)
        new = cls.from_dict(d)
        return new.to_dict(), new.guid, str(new)

    observe(label + "/roundtrip_chunk", roundtrip_chunk)


def hashing_cases():
    od = collections.OrderedDict([("z", {1, 2}), ("a", {"x": {3, 1, 2}, "b": [1, 2]})])
    dd = collections.defaultdict(set)
    dd["q"].update({"b", "a"})
    dd["p"].add("z")

    class MySet(set):
        pass

    class MyDict(dict):
        pass

    uuid = UUID("12345678123456781234567812345678")
    cases = [
        ((), {}),
        ((1,), {}),
        (("1",), {}),
        ((1, 2, 3), {}),
        (([1, 2, 3],), {}),
        (((1, 2, 3),), {}),
        (({3, 1, 2},), {}),
        (({"b", "a", "c"}, {"c", "a", "b"}), {}),
        ((frozenset([1]),), {}),
        ((MySet({10, 9, 100}),), {}),
        ((MyDict(b={2, 1}, a=1),), {}),
        (({"b": {2, 1}, "a": 1},), {}),
        (({"a": 1, "b": {1, 2}},), {}),
        (({"a": {"c": {"z", "y"}, "b": {"e": {5, 4}, "d": None}}, "A": []},), {}),
        ((od,), {}),
        ((dd,), {}),
        ((None, True, 1.5, Strand.PLUS, CDSFrame.ONE, Biotype.protein_coding, uuid), {}),
        ((), {"x": 1}),
        ((), {"b": {2, 1}, "a": {"k": {9, 8}}}),
        ((1, {2, 3}), {"z": {"b", "a"}, "y": [1, 2], "x": {"n": {"m": {1, 0}}}}),
        (({},), {}),
        ((set(),), {}),
        (({"a": {}},), {}),
        (({"a": set()},), {}),
        (({1: "a", "b": 2},), {}),  # unsortable keys -> TypeError
        (({2: "a", 1: {3, 2}},), {}),
        (({(1, 2): {"x"}, (0, 5): {"y": {2, 1}}},), {}),
        (([{2, 1}],), {}),  # sets inside lists are not reordered
        (({"a": [{"b": 1}]},), {}),
        ((SingleInterval(1, 5, Strand.MINUS), Sequence("ACGT", Alphabet.NT_STRICT)), {}),
        (("é", "日本"), {"k": "ü"}),
        (("\ud800",), {}),  # not utf-8 encodable -> UnicodeEncodeError
    ]
    for i, (args, kwargs) in enumerate(cases):
        observe(f"hash/{i}/digest", lambda: digest_object(*args, **kwargs))
        observe(f"hash/{i}/encoded", lambda: list(hashing._encode_object_for_digest(*args, **kwargs)))
    observe("hash/order_set", lambda: hashing._order_set({10, 9, "a", None}))
    observe("hash/order_dict", lambda: list(hashing._order_dict_of_possible_sets({"b": {2, 1}, "a": {"c": {1}}})))
    observe("hash/order_dict_is_lazy", lambda: type(hashing._order_dict_of_possible_sets({})).__name__)
    observe("hash/encode_is_lazy", lambda: type(hashing._encode_object_for_digest(1)).__name__)

    # partial consumption before a failure deep in the structure
    def partial():
        out = []
        try:
            for x in hashing._encode_object_for_digest({"a": 1, "b": {1: 2, "x": 3}}, 5):
                out.append(x)
        except TypeError as e:
            out.append("TypeError:" + str(e))
        return out

    observe("hash/partial", partial)


def qualifier_cases():
    class Holder(FeatureInterval):
        def __init__(self):  # noqa
            pass

    bad = [
        [("a", ["b"])],
        "string",
        {"a": "notalist"},
        {"a": ("t",)},
        {"a": ["x"], "b": {"s"}},
        {"a": ["x"], "b": None},
        0,
        [],
        (),
        {"a": [None, 1, 1.0, True, "True"]},
    ]
    for i, q in enumerate(QUALIFIER_SETS + bad):
        h = Holder()

        def run():
            h._import_qualifiers_from_list(q)
            return (
                sorted((str(k), sorted(v)) for k, v in h.qualifiers.items()),
                list(h.qualifiers),
                h._export_qualifiers_to_list(),
            )

        observe(f"qual/{i}", run)
        observe(f"qual/{i}/after", lambda: sorted((str(k), sorted(v)) for k, v in h.qualifiers.items()))


def interval_cases():
    n = 0
    for shape_i, shape in enumerate(TX_SHAPES):
        for strand in (Strand.PLUS, Strand.MINUS):
            for pk in PARENT_KEYS:
                quals = QUALIFIER_SETS[n % len(QUALIFIER_SETS)]
                n += 1
                label = f"tx/{shape_i}/{strand.name}/{pk}"
                kw = dict(
                    transcript_id=f"tx{n}" if n % 3 else None,
                    transcript_symbol=f"sym{n}" if n % 2 else None,
                    transcript_type=[Biotype.protein_coding, None, Biotype.lncRNA][n % 3],
                    sequence_name="chr1" if n % 4 else None,
                    sequence_guid=UUID(int=n) if n % 5 == 0 else None,
                    protein_id=f"prot{n}" if n % 2 == 0 else None,
                    product=f"product {n}" if n % 3 == 0 else None,
                    is_primary_tx=[None, True, False][n % 3],
                    transcript_guid=UUID(int=1000 + n) if n % 7 == 0 else None,
                    guid=UUID(int=5000 + n) if n % 11 == 0 else None,
                )
                parent = make_parents()[pk]
                try:
                    tx = build_tx(shape, strand, quals, parent, **kw)
                except Exception as e:  # noqa
                    RESULTS[label + "/construct"] = "EXC %s: %s" % (type(e).__name__, e)
                    continue
                describe_interval(label, tx, TranscriptInterval, make_parents()[pk])
                if tx.cds is not None:
                    describe_interval(label + "/cds", tx.cds, CDSInterval, make_parents()[pk])
                    observe(label + "/cds/chunk_frames", lambda: tx.cds.chunk_relative_frames)

                # same shape as feature
                try:
                    feat = FeatureInterval(
                        interval_starts=list(shape[0]),
                        interval_ends=list(shape[1]),
                        strand=strand,
                        qualifiers=quals,
                        sequence_guid=kw["sequence_guid"],
                        sequence_name=kw["sequence_name"],
                        feature_types=[None, ["b", "a"], ["a", "b"], []][n % 4],
                        feature_name=kw["transcript_symbol"],
                        feature_id=kw["transcript_id"],
                        guid=kw["guid"],
                        feature_guid=kw["transcript_guid"],
                        is_primary_feature=kw["is_primary_tx"],
                        parent_or_seq_chunk_parent=make_parents()[pk],
                    )
                except Exception as e:  # noqa
                    RESULTS[label + "/feat/construct"] = "EXC %s: %s" % (type(e).__name__, e)
                    continue
                describe_interval(label + "/feat", feat, FeatureInterval, make_parents()[pk])

    # CDS built with phases, mixed, mismatch
    for strand in (Strand.PLUS, Strand.MINUS):
        for pk in ("none", "chrom_seq", "chunk_50_500"):
            parent = make_parents()[pk]
            label = f"cdsphase/{strand.name}/{pk}"
            try:
                cds = CDSInterval(
                    [70, 150, 300],
                    [120, 250, 390],
                    strand,
                    [CDSPhase.ZERO, CDSPhase.ONE, CDSPhase.TWO],
                    qualifiers={"a": ["b"]},
                    protein_id="p",
                    product="q",
                    sequence_name="chr1",
                    parent_or_seq_chunk_parent=parent,
                )
            except Exception as e:  # noqa
                RESULTS[label + "/construct"] = "EXC %s: %s" % (type(e).__name__, e)
                continue
            describe_interval(label, cds, CDSInterval, make_parents()[pk])
    observe(
        "cds/mixed",
        lambda: CDSInterval([1, 10], [5, 20], Strand.PLUS, [CDSFrame.ZERO, CDSPhase.ONE]),
    )
    observe(
        "cds/mixed2",
        lambda: CDSInterval([1, 10], [5, 20], Strand.PLUS, [CDSPhase.ZERO, CDSFrame.ONE]),
    )
    observe("cds/mismatch", lambda: CDSInterval([1, 10], [5, 20], Strand.PLUS, [CDSFrame.ZERO]))
    observe(
        "cds/from_dict_missing_key",
        lambda: CDSInterval.from_dict({"cds_starts": [1], "cds_ends": [4], "strand": "PLUS"}),
    )
    observe("tx/from_dict_missing_key", lambda: TranscriptInterval.from_dict({"exon_starts": [1]}))
    observe("feat/from_dict_missing_key", lambda: FeatureInterval.from_dict({"interval_starts": [1]}))
    observe("gene/from_dict_missing_key", lambda: GeneInterval.from_dict({"transcripts": []}))
    observe("fc/from_dict_missing_key", lambda: FeatureIntervalCollection.from_dict({"feature_intervals": []}))
    observe("var/from_dict_missing_key", lambda: VariantInterval.from_dict({"start": 1}))
    observe("vc/from_dict_missing_key", lambda: VariantIntervalCollection.from_dict({"variant_intervals": []}))
    observe("ac/from_dict_missing_key", lambda: AnnotationCollection.from_dict({"genes": []}))
    observe(
        "tx/from_dict_empty_cds_lists",
        lambda: TranscriptInterval.from_dict(
            dict(
                exon_starts=[1],
                exon_ends=[10],
                strand="MINUS",
                cds_starts=[],
                cds_ends=[],
                cds_frames=[],
                qualifiers=None,
                is_primary_tx=None,
                transcript_id=None,
                transcript_symbol=None,
                transcript_type="",
                sequence_name=None,
                sequence_guid=None,
                protein_id=None,
                product=None,
                transcript_guid=None,
                transcript_interval_guid=None,
                extra_key_is_ignored=1,
            )
        ).to_dict(),
    )


def variant_cases():
    n = 0
    for pk in PARENT_KEYS:
        for (start, end, seq, vtype) in [(130, 131, "T", "SNV"), (150, 153, "A", "deletion"), (170, 171, "GTT", "ins")]:
            n += 1
            label = f"var/{pk}/{start}"
            try:
                var = VariantInterval(
                    start,
                    end,
                    seq,
                    vtype,
                    phase_block=n % 3 if n % 2 else None,
                    guid=UUID(int=n) if n % 4 == 0 else None,
                    variant_guid=UUID(int=77 + n) if n % 3 == 0 else None,
                    variant_name=f"v{n}",
                    variant_id=f"id{n}" if n % 2 else None,
                    qualifiers=QUALIFIER_SETS[n % len(QUALIFIER_SETS)],
                    parent_or_seq_chunk_parent=make_parents()[pk],
                )
            except Exception as e:  # noqa
                RESULTS[label + "/construct"] = "EXC %s: %s" % (type(e).__name__, e)
                continue
            describe_interval(label, var, VariantInterval, make_parents()[pk])
    observe("var/empty", lambda: VariantInterval(5, 5, "A", "x"))
    # mixed-type qualifier keys cannot be ordered for the digest
    observe("var/mixed_keys", lambda: VariantInterval(5, 6, "A", "x", qualifiers={"k": [1], 7: ["x"]}))
    observe("feat/mixed_keys", lambda: FeatureInterval([5], [6], Strand.PLUS, qualifiers={"k": [1], 7: ["x"]}))
    observe("feat/int_keys", lambda: FeatureInterval([5], [6], Strand.PLUS, qualifiers={10: [1], 7: ["x"]}).to_dict())


def make_collection_parts(pk, quals_offset=0):
    """Genes / feature collections / variant collections on a given parent."""
    P = make_parents
    q = lambda i: QUALIFIER_SETS[(i + quals_offset) % len(QUALIFIER_SETS)]  # noqa
    tx1 = build_tx(TX_SHAPES[3], Strand.PLUS, q(2), P()[pk], transcript_id="t1", transcript_symbol="T1")
    tx2 = build_tx(
        TX_SHAPES[2], Strand.PLUS, q(3), P()[pk], transcript_id="t2", transcript_type=Biotype.lncRNA, is_primary_tx=True
    )
    tx3 = build_tx(TX_SHAPES[6], Strand.MINUS, q(4), P()[pk], transcript_id="t3", protein_id="p3", product="prod")
    tx4 = build_tx(TX_SHAPES[1], Strand.MINUS, q(0), P()[pk], transcript_symbol="T4")
    gene1 = GeneInterval(
        [tx1, tx2],
        gene_id="g1",
        gene_symbol="G1",
        gene_type=Biotype.protein_coding,
        locus_tag="L1",
        qualifiers=q(2),
        sequence_name="chr1",
        parent_or_seq_chunk_parent=P()[pk],
    )
    gene2 = GeneInterval(
        [tx3, tx4],
        gene_id="g2",
        qualifiers=q(5),
        sequence_guid=UUID(int=99),
        guid=UUID(int=4242) if quals_offset else None,
        parent_or_seq_chunk_parent=P()[pk],
    )
    f1 = FeatureInterval([130, 180], [150, 220], Strand.PLUS, qualifiers=q(4), feature_types=["x", "a"],
                         feature_name="f1", feature_id="fid1", is_primary_feature=True,
                         parent_or_seq_chunk_parent=P()[pk])
    f2 = FeatureInterval([140], [300], Strand.PLUS, qualifiers=q(1), feature_name="f2",
                         parent_or_seq_chunk_parent=P()[pk])
    f3 = FeatureInterval([200, 280], [250, 320], Strand.MINUS, qualifiers=q(5), feature_types=["z"],
                         sequence_name="chr1", parent_or_seq_chunk_parent=P()[pk])
    fc1 = FeatureIntervalCollection(
        [f1, f2],
        feature_collection_name="FC1",
        feature_collection_id="fc1",
        feature_collection_type="promoterish",
        locus_tag="LT",
        qualifiers=q(3),
        sequence_name="chr1",
        parent_or_seq_chunk_parent=P()[pk],
    )
    fc2 = FeatureIntervalCollection([f3], qualifiers=q(6), sequence_guid=UUID(int=3), parent_or_seq_chunk_parent=P()[pk])
    v1 = VariantInterval(135, 136, "G", "SNV", variant_name="v1", qualifiers=q(2), parent_or_seq_chunk_parent=P()[pk])
    v2 = VariantInterval(210, 213, "A", "deletion", phase_block=1, variant_id="v2", parent_or_seq_chunk_parent=P()[pk])
    v3 = VariantInterval(305, 306, "TTC", "insertion", parent_or_seq_chunk_parent=P()[pk])
    vc1 = VariantIntervalCollection(
        [v1, v2],
        variant_collection_name="VC1",
        variant_collection_id="vc1",
        qualifiers=q(4),
        sequence_name="chr1",
        parent_or_seq_chunk_parent=P()[pk],
    )
    vc2 = VariantIntervalCollection([v3], sequence_guid=UUID(int=8), parent_or_seq_chunk_parent=P()[pk])
    return [gene1, gene2], [fc1, fc2], [vc1, vc2]


def collection_cases():
    cls_by_prefix = {"gene": GeneInterval, "fc": FeatureIntervalCollection, "vc": VariantIntervalCollection}
    for pk in PARENT_KEYS:
        try:
            genes, fcs, vcs = make_collection_parts(pk)
        except Exception as e:  # noqa
            RESULTS[f"coll/{pk}/construct"] = "EXC %s: %s" % (type(e).__name__, e)
            continue
        for prefix, objs in (("gene", genes), ("fc", fcs), ("vc", vcs)):
            for i, obj in enumerate(objs):
                label = f"coll/{pk}/{prefix}{i}"
                describe_interval(label, obj, cls_by_prefix[prefix], make_parents()[pk])
                observe(label + "/children_guids", lambda: sorted(obj.children_guids))
                observe(label + "/guid_map", lambda: [(k, str(v)) for k, v in obj.guid_map.items()])
                observe(label + "/export_qualifiers", lambda: sorted(
                    (str(k), sorted(map(str, v))) for k, v in obj.export_qualifiers().items()
                ) if hasattr(obj, "export_qualifiers") else None)
                observe(
                    label + "/query_by_guids",
                    lambda: obj.query_by_guids(sorted(obj.children_guids)[:1]).to_dict(),
                )
                observe(label + "/query_by_guids_single", lambda: obj.query_by_guids(sorted(obj.children_guids)[-1]).guid)
                observe(label + "/query_by_guids_none", lambda: obj.query_by_guids([UUID(int=1)]))
                if prefix == "gene":
                    observe(label + "/merged_tx", lambda: obj.get_merged_transcript().to_dict())
                    observe(label + "/merged_feature", lambda: obj.get_merged_feature().to_dict())
                    observe(label + "/merged_cds", lambda: obj.get_merged_cds().to_dict())
                    observe(label + "/primary", lambda: str(obj.get_primary_transcript()))
                if prefix == "fc":
                    observe(label + "/merged_feature", lambda: obj.get_merged_feature().to_dict())
                    observe(label + "/primary", lambda: str(obj.get_primary_feature()))

        combos = [
            ("all", dict(genes=genes, feature_collections=fcs, variant_collections=vcs)),
            ("genes", dict(genes=genes)),
            ("fcs", dict(feature_collections=fcs)),
            ("novar", dict(genes=genes, feature_collections=fcs)),
            ("empty", dict()),
            ("bounded", dict(genes=genes, feature_collections=fcs, start=20, end=590, completely_within=True)),
        ]
        for ci, (cname, kwargs) in enumerate(combos):
            label = f"ac/{pk}/{cname}"
            try:
                if cname != "all":
                    g2, f2, v2 = make_collection_parts(pk)
                    kwargs = {
                        k: (dict(genes=g2, feature_collections=f2, variant_collections=v2)[k] if k in
                            ("genes", "feature_collections", "variant_collections") else v)
                        for k, v in kwargs.items()
                    }
                ac = AnnotationCollection(
                    name=f"ac{ci}" if ci % 2 else None,
                    id=f"id{ci}" if ci % 3 else None,
                    sequence_name="chr1" if ci % 2 == 0 else None,
                    sequence_guid=UUID(int=31337) if ci == 1 else None,
                    sequence_path="/some/path.fa" if ci == 2 else None,
                    qualifiers=QUALIFIER_SETS[(ci + 2) % len(QUALIFIER_SETS)],
                    parent_or_seq_chunk_parent=make_parents()[pk],
                    **kwargs,
                )
            except Exception as e:  # noqa
                RESULTS[label + "/construct"] = "EXC %s: %s" % (type(e).__name__, e)
                continue
            observe(label + "/to_dict", lambda: ac.to_dict())
            observe(label + "/to_dict_chunk", lambda: ac.to_dict(chromosome_relative_coordinates=False))
            observe(label + "/to_dict_parent", lambda: ac.to_dict(export_parent=True))
            observe(label + "/to_dict_chunk_parent", lambda: ac.to_dict(False, True))
            observe(label + "/guid", lambda: ac.guid)
            observe(label + "/repr", lambda: repr(ac))
            observe(label + "/children_guids", lambda: sorted(ac.children_guids))
            observe(label + "/hier_guids", lambda: [(k, sorted(v)) for k, v in ac.hierarchical_children_guids.items()])
            observe(label + "/guid_map", lambda: [(k, str(v.guid)) for k, v in ac.guid_map.items()])
            observe(label + "/getstate", lambda: ac.__getstate__())
            observe(
                label + "/alt_haplotypes",
                lambda: None
                if ac.alternative_haplotype_mapping is None
                else [(k, [x.to_dict() for x in v]) for k, v in ac.alternative_haplotype_mapping.items()],
            )

            def rt(export_parent, with_parent):
                d = ac.to_dict(export_parent=export_parent)
                new = AnnotationCollection.from_dict(d, make_parents()[pk] if with_parent else None)
                return (
                    new.to_dict(export_parent=True),
                    new.guid,
                    new.guid == ac.guid,
                    new == ac,
                    repr(new.chunk_relative_location),
                    str(new.sequence),
                    new.start if hasattr(new, "start") else None,
                )

            for ep, wp in itertools.product((False, True), (False, True)):
                observe(label + f"/roundtrip_ep{int(ep)}_wp{int(wp)}", lambda: rt(ep, wp))

            def rt_json():
                d = json.loads(json.dumps(ac.to_dict(export_parent=True), default=str))
                new = AnnotationCollection.from_dict(d)
                return new.to_dict(export_parent=True), new.guid

            observe(label + "/roundtrip_json", rt_json)

            def pick():
                for proto in (2, pickle.HIGHEST_PROTOCOL):
                    new = pickle.loads(pickle.dumps(ac, protocol=proto))
                    yield (
                        new.to_dict(export_parent=True),
                        new.guid,
                        new == ac,
                        new.guid == ac.guid,
                        repr(new.chunk_relative_location),
                        str(new.sequence),
                        [str(x) for x in new.iter_children()],
                        sorted(new.children_guids),
                        new.completely_within,
                        new.name,
                        new.id,
                        new.sequence_path,
                        sorted((str(k), sorted(v)) for k, v in new.qualifiers.items()),
                    )

            observe(label + "/pickle", pick)

    # parent dictionaries with odd content fed straight to from_dict
    observe("ac/empty/to_dict", lambda: AnnotationCollection().to_dict())
    bases = [AnnotationCollection(start=0, end=8).to_dict(), AnnotationCollection(start=12, end=16, name="n").to_dict()]
    base = bases[0]
    parent_dicts = [
        None,
        {},
        {"seq": None, "sequence_name": None, "type": None},
        {"sequence_name": "chrZ"},
        {"type": "CHROMOSOME"},
        {"type": "chromosome", "sequence_name": "chrZ"},
        {"type": "sequence_chunk", "sequence_name": "chrZ"},
        {"type": "weird", "sequence_name": "chrZ"},
        {"seq": "ACGTACGT", "sequence_name": "chrZ", "alphabet": "NT_STRICT", "type": "CHROMOSOME",
         "start": 0, "end": 8, "strand": "PLUS"},
        {"seq": "ACGTACGT", "sequence_name": "chrZ", "alphabet": "NT_STRICT", "type": "SEQUENCE_CHUNK",
         "start": 10, "end": 18, "strand": "PLUS"},
        {"seq": "ACGTACGT", "sequence_name": "chrZ", "alphabet": "NT_STRICT", "type": "SEQUENCE_CHUNK",
         "start": 10, "end": 18, "strand": "MINUS"},
        {"seq": "ACGTACGT", "sequence_name": "chrZ"},
        {"seq": "ACGTACGT"},
        {"seq": "ACGTACGT", "sequence_name": "chrZ", "type": "other"},
        {"seq": "ACGTACGT", "sequence_name": "chrZ", "alphabet": "NOPE"},
        {"seq": "", "sequence_name": "chrZ", "alphabet": "NT_STRICT"},
        {"seq": "ACGT", "sequence_name": "chrZ", "bogus": 1},
    ]
    for i, pd in enumerate(parent_dicts):
        def run(b):
            d = dict(b)
            d["parent_or_seq_chunk_parent"] = pd
            snapshot = repr(pd)
            new = AnnotationCollection.from_dict(d)
            return (
                new.to_dict(export_parent=True),
                new.guid,
                repr(new.chunk_relative_location),
                str(new.sequence),
                repr(pd) == snapshot,  # input not mutated
            )

        for bi, b in enumerate(bases):
            observe(f"ac/parent_dict/{i}/{bi}", lambda: run(b))

    def no_parent_key():
        d = dict(base)
        del d["parent_or_seq_chunk_parent"]
        return AnnotationCollection.from_dict(d).to_dict(export_parent=True)

    observe("ac/parent_dict/missing_key", no_parent_key)
    observe("ac/start_only", lambda: AnnotationCollection(start=5))
    observe("ac/end_only", lambda: AnnotationCollection(end=5))

    # duplicate children
    def dup_gene():
        tx = build_tx(TX_SHAPES[0], Strand.PLUS, None, None)
        tx_b = build_tx(TX_SHAPES[0], Strand.PLUS, None, None)
        return GeneInterval([tx, tx_b])

    observe("dup/gene", dup_gene)

    def dup_gene_two_pairs():
        a = build_tx(TX_SHAPES[0], Strand.PLUS, None, None)
        b = build_tx(TX_SHAPES[2], Strand.PLUS, None, None)
        b2 = build_tx(TX_SHAPES[2], Strand.PLUS, None, None)
        a2 = build_tx(TX_SHAPES[0], Strand.PLUS, None, None)
        return GeneInterval([a, b, b2, a2])

    observe("dup/gene_two_pairs", dup_gene_two_pairs)
    observe("dup/gene_same_object", lambda: (lambda t: GeneInterval([t, t]))(build_tx(TX_SHAPES[0], Strand.PLUS, None, None)))
    observe(
        "dup/fc",
        lambda: FeatureIntervalCollection(
            [FeatureInterval([1], [5], Strand.PLUS), FeatureInterval([10], [15], Strand.PLUS),
             FeatureInterval([1], [5], Strand.PLUS)]
        ),
    )
    observe(
        "dup/vc",
        lambda: VariantIntervalCollection(
            [VariantInterval(1, 2, "A", "SNV", guid=UUID(int=5)), VariantInterval(8, 9, "A", "SNV", guid=UUID(int=5))]
        ),
    )
    observe("gene/empty", lambda: GeneInterval([]))
    observe("fc/empty", lambda: FeatureIntervalCollection([]))
    observe("vc/empty", lambda: VariantIntervalCollection([]))


def guid_permutation_cases():
    """Identifier independence from qualifier insertion order, dependence on coordinates / strand / frame."""
    quals = {"b": ["2", "1"], "a": ["x"], "c": ["z", "y", "w"]}
    seen = []
    for perm in itertools.permutations(list(quals)):
        for rev in (False, True):
            q = {k: (list(reversed(quals[k])) if rev else list(quals[k])) for k in perm}
            tx = build_tx(TX_SHAPES[3], Strand.PLUS, q, None)
            ft = FeatureInterval([1, 10], [5, 20], Strand.MINUS, qualifiers=q, feature_types=list(perm))
            gene = GeneInterval([tx], qualifiers=q)
            fc = FeatureIntervalCollection([ft], qualifiers=q)
            var = VariantInterval(1, 2, "A", "SNV", qualifiers=q)
            vc = VariantIntervalCollection([var], qualifiers=q)
            ac = AnnotationCollection(genes=[gene], feature_collections=[fc], variant_collections=[vc], qualifiers=q)
            seen.append((tx.guid, tx.cds.guid, ft.guid, gene.guid, fc.guid, var.guid, vc.guid, ac.guid))
    observe("perm/all_equal", lambda: (len(set(seen)), seen[0]))

    base = build_tx(TX_SHAPES[3], Strand.PLUS, None, None)
    moved = build_tx(([60, 150, 300], [120, 250, 421], [70, 150, 300], [120, 250, 390]), Strand.PLUS, None, None)
    flipped = build_tx(TX_SHAPES[3], Strand.MINUS, None, None)
    frames = list(base.cds.frames)
    frames[1] = CDSFrame.ZERO if frames[1] != CDSFrame.ZERO else CDSFrame.ONE
    reframed = TranscriptInterval(
        list(TX_SHAPES[3][0]), list(TX_SHAPES[3][1]), Strand.PLUS, list(TX_SHAPES[3][2]), list(TX_SHAPES[3][3]), frames
    )
    observe("perm/changes", lambda: [x.guid for x in (base, moved, flipped, reframed)])
    observe("perm/changes_cds", lambda: [x.cds.guid for x in (base, moved, flipped, reframed)])


def main_dump(path):
    hashing_cases()
    qualifier_cases()
    interval_cases()
    variant_cases()
    collection_cases()
    guid_permutation_cases()
    with open(path, "w") as fh:
        json.dump(RESULTS, fh, indent=0, sort_keys=True)
    n_exc = sum(v.startswith("EXC") for v in RESULTS.values())
    print(f"{len(RESULTS)} observations written to {path} ({n_exc} of them are exceptions)")


def main_compare(a, b):
    with open(a) as fh:
        ra = json.load(fh)
    with open(b) as fh:
        rb = json.load(fh)
    bad = [k for k in sorted(set(ra) | set(rb)) if ra.get(k) != rb.get(k)]
    for k in bad[:40]:
        print("DIFF", k)
        print("   A:", (ra.get(k) or "<missing>")[:400])
        print("   B:", (rb.get(k) or "<missing>")[:400])
    print(f"{len(ra)} vs {len(rb)} observations; {len(bad)} differences")
    return 1 if bad else 0


if __name__ == "__main__":
    if sys.argv[1] == "dump":
        main_dump(sys.argv[2])
    elif sys.argv[1] == "compare":
        sys.exit(main_compare(sys.argv[2], sys.argv[3]))
    else:
        raise SystemExit(__doc__)
