"""Equivalence script for R4 (gene/cds.py, gene/transcript.py, gene/collections.py).

Usage (from the worktree root):
    /venv/bin/python _refactor/R4/equiv.py dump /tmp/r4_pristine.json      # on the pristine checkout
    git apply _refactor/R4/patch.diff
    /venv/bin/python _refactor/R4/equiv.py dump /tmp/r4_patched.json
    /venv/bin/python _refactor/R4/equiv.py compare /tmp/r4_pristine.json /tmp/r4_patched.json
"""
import copy
import json
import os
import sys

if os.environ.get("PYTHONHASHSEED") != "0":
    os.environ["PYTHONHASHSEED"] = "0"
    os.execv(sys.executable, [sys.executable] + sys.argv)

sys.path.insert(0, os.getcwd())

import inscripta.biocantor.location  # noqa: E402,F401  (must be first: circular import otherwise)
from inscripta.biocantor.gene.cds import CDSInterval  # noqa: E402
from inscripta.biocantor.gene.cds_frame import CDSFrame, CDSPhase  # noqa: E402
from inscripta.biocantor.gene.codon import TranslationTable  # noqa: E402
from inscripta.biocantor.gene.collections import AnnotationCollection  # noqa: E402
from inscripta.biocantor.gene.feature import FeatureInterval, FeatureIntervalCollection  # noqa: E402
from inscripta.biocantor.gene.gene import GeneInterval  # noqa: E402
from inscripta.biocantor.gene.interval import AbstractFeatureIntervalCollection  # noqa: E402
from inscripta.biocantor.gene.transcript import TranscriptInterval  # noqa: E402
from inscripta.biocantor.location.location_impl import SingleInterval, CompoundInterval  # noqa: E402
from inscripta.biocantor.location.strand import Strand  # noqa: E402
from inscripta.biocantor.parent import Parent, SequenceType  # noqa: E402
from inscripta.biocantor.sequence.alphabet import Alphabet  # noqa: E402
from inscripta.biocantor.sequence.sequence import Sequence  # noqa: E402

GENOME = (
    "ACGTTGCAAGGCTTAACCGGATATCGCGTATGAGCCATGGTACCTTGAAACCCGGGTTTACGTAGCTAGCTAGGATCCAA"
    "TTGACCATGGCATTAGCGGCTAAGCTTGGATCCGTACGATCGATTAGCAT"
)  # 130 nt


def attempt(fn):
    try:
        val = fn()
    except Exception as e:  # noqa
        return {"exc": type(e).__name__, "msg": str(e)}
    return {"type": type(val).__name__, "repr": repr(val), "str": str(val)}


def seq_to_parent(seq, alphabet=Alphabet.NT_EXTENDED_GAPPED, seq_id=None, seq_type=SequenceType.CHROMOSOME):
    return Parent(
        sequence=Sequence(seq, alphabet, type=seq_type, id=seq_id), location=SingleInterval(0, len(seq), Strand.PLUS)
    )


def seq_chunk_to_parent(seq, sequence_name, start, end, strand=Strand.PLUS, alphabet=Alphabet.NT_EXTENDED_GAPPED):
    chunk_id = f"{sequence_name}:{start}-{end}"
    return Parent(
        id=chunk_id,
        sequence=Sequence(
            seq,
            alphabet,
            id=chunk_id,
            type=SequenceType.SEQUENCE_CHUNK,
            parent=Parent(
                location=SingleInterval(
                    start, end, strand, parent=Parent(id=sequence_name, sequence_type=SequenceType.CHROMOSOME)
                )
            ),
        ),
    )


PARENTS = {
    "none": lambda: None,
    "chrom": lambda: seq_to_parent(GENOME, seq_id="chr1"),
    "chrom_noseq": lambda: Parent(id="chr1", sequence_type=SequenceType.CHROMOSOME),
    "unknown_type": lambda: Parent(id="chr1", sequence=Sequence(GENOME, Alphabet.NT_EXTENDED_GAPPED)),
    "chunk_all": lambda: seq_chunk_to_parent(GENOME[5:125], "chr1", 5, 125),
    "chunk_mid": lambda: seq_chunk_to_parent(GENOME[30:66], "chr1", 30, 66),
    "chunk_left": lambda: seq_chunk_to_parent(GENOME[0:35], "chr1", 0, 35),
    "chunk_off": lambda: seq_chunk_to_parent(GENOME[100:130], "chr1", 100, 130),
}

# name: exon starts, exon ends, strand, cds starts, cds ends, starting frame, primary flag
TRANSCRIPTS = {
    "t_plus3": ([12, 28, 52], [20, 40, 70], Strand.PLUS, [14, 28, 52], [20, 40, 61], CDSFrame.ZERO, None),
    "t_minus3": ([12, 28, 52], [20, 40, 70], Strand.MINUS, [14, 28, 52], [20, 40, 61], CDSFrame.ZERO, None),
    "t_single": ([15], [60], Strand.PLUS, [18], [57], CDSFrame.ZERO, None),
    "t_single_minus": ([15], [60], Strand.MINUS, [18], [57], CDSFrame.ONE, True),
    "t_noncoding": ([10, 44], [33, 90], Strand.PLUS, None, None, None, None),
    "t_noncoding_minus": ([10, 44], [33, 90], Strand.MINUS, None, None, None, False),
    "t_full_cds": ([20, 50], [35, 80], Strand.MINUS, [20, 50], [35, 80], CDSFrame.TWO, None),
    "t_adjacent": ([10, 20, 45], [20, 40, 66], Strand.PLUS, [12, 20, 45], [20, 40, 60], CDSFrame.ONE, True),
}

FEATURES = {
    "f_plus": ([11, 30, 77], [22, 41, 95], Strand.PLUS, None),
    "f_minus": ([25], [58], Strand.MINUS, True),
    "f_minus2": ([2, 40], [9, 64], Strand.MINUS, None),
    "f_unstranded": ([33, 50], [44, 71], Strand.UNSTRANDED, None),
    "f_plus_same_len": ([3, 41], [10, 65], Strand.PLUS, None),
}

QUALS = {"note": ["a", "b"], "gene": ["g1"], "num": [1, 2]}
PARENT_QUALS = {"note": {"b", "zz"}, "extra": {"e"}, "gene": {"g1"}}


def make_transcript(name, parent):
    es, ee, strand, cs, ce, frame, primary = TRANSCRIPTS[name]
    frames = None
    if cs is not None:
        loc = CompoundInterval(cs, ce, strand)
        frames = CDSInterval.construct_frames_from_location(loc, frame)
    return TranscriptInterval(
        list(es),
        list(ee),
        strand,
        cds_starts=list(cs) if cs else None,
        cds_ends=list(ce) if ce else None,
        cds_frames=frames,
        qualifiers=copy.deepcopy(QUALS),
        is_primary_tx=primary,
        transcript_id=name,
        transcript_symbol=name.upper(),
        protein_id="prot_" + name,
        product="product of " + name,
        sequence_name="chr1",
        parent_or_seq_chunk_parent=parent,
    )


def make_feature(name, parent):
    s, e, strand, primary = FEATURES[name]
    return FeatureInterval(
        list(s),
        list(e),
        strand,
        qualifiers=copy.deepcopy(QUALS),
        feature_types=["ftype", name],
        feature_name=name,
        feature_id="id_" + name,
        is_primary_feature=primary,
        sequence_name="chr1",
        parent_or_seq_chunk_parent=parent,
    )


def make_gene(names, parent, **kw):
    return GeneInterval(
        [make_transcript(n, parent) for n in names],
        gene_id="gene_" + "_".join(names),
        gene_symbol="SYM",
        locus_tag="LT1",
        qualifiers={"gq": ["x"], "note": ["genenote"]},
        sequence_name="chr1",
        parent_or_seq_chunk_parent=parent,
        **kw,
    )


def make_fc(names, parent):
    return FeatureIntervalCollection(
        [make_feature(n, parent) for n in names],
        feature_collection_name="fc_" + "_".join(names),
        feature_collection_id="fcid",
        locus_tag="LT2",
        qualifiers={"fq": ["y"]},
        sequence_name="chr1",
        parent_or_seq_chunk_parent=parent,
    )


# exon starts, exon ends, strand, explicit frames: annotations whose frames disagree with the exon lengths
FRAMESHIFTED = {
    "fs_plus": ([12, 28, 52], [20, 40, 70], Strand.PLUS, [CDSFrame.ZERO, CDSFrame.ONE, CDSFrame.ONE]),
    "fs_minus": ([12, 28, 52], [20, 40, 70], Strand.MINUS, [CDSFrame.TWO, CDSFrame.ZERO, CDSFrame.ONE]),
    "fs_tiny": ([10, 14, 30], [12, 16, 47], Strand.PLUS, [CDSFrame.ZERO, CDSFrame.ONE, CDSFrame.TWO]),
    "fs_phase": ([12, 28, 52], [20, 40, 70], Strand.MINUS, [CDSPhase.ONE, CDSPhase.ZERO, CDSPhase.TWO]),
    "one_codon": ([40], [44], Strand.PLUS, [CDSFrame.ONE]),
    "too_short": ([40], [42], Strand.MINUS, [CDSFrame.ZERO]),
}


def make_cds(name, parent):
    s, e, strand, frames = FRAMESHIFTED[name]
    return CDSInterval(
        list(s),
        list(e),
        strand,
        list(frames),
        sequence_name="chr1",
        protein_id="p_" + name,
        product="prod",
        qualifiers=copy.deepcopy(QUALS),
        parent_or_seq_chunk_parent=parent,
    )


def cache_infos(cds):
    out = []
    for name in (
        "_prepare_single_exon_window_for_scan_codon_locations",
        "_prepare_multi_exon_window_for_scan_codon_locations",
        "translate",
        "extract_sequence",
    ):
        ci = getattr(cds, name).cache_info()
        out.append([name, ci.hits, ci.misses, ci.currsize])
    return out


WINDOWS = [(None, None), (None, 45), (30, None), (16, 58), (29, 38), (0, 200), (33, 33), (61, 62)]


def cds_accessors(cds):
    acc = [
        ("extract_sequence", lambda: cds.extract_sequence()),
        ("extract_sequence_type", lambda: type(cds.extract_sequence()).__name__),
        ("extract_same_object", lambda: cds.extract_sequence() is cds.extract_sequence()),
        ("flag", lambda: cds._chunk_relative_codon_locations_cached),
        ("chunk_codon_locations", lambda: cds.chunk_relative_codon_locations),
        ("chunk_codon_locations_type", lambda: type(cds.chunk_relative_codon_locations).__name__),
        ("chromosome_codon_locations", lambda: cds.chromosome_codon_locations),
        ("num_codons", lambda: cds.num_codons),
        ("num_chunk_relative_codons", lambda: cds.num_chunk_relative_codons),
        ("scan_codons", lambda: [str(c) for c in cds.scan_codons()]),
        ("scan_codons_trunc", lambda: [str(c) for c in cds.scan_codons(truncate_at_in_frame_stop=True)]),
        ("translate", lambda: cds.translate()),
        ("translate_trunc", lambda: cds.translate(truncate_at_in_frame_stop=True)),
        ("translate_lenient", lambda: cds.translate(strict=False)),
        ("translate_table", lambda: cds.translate(False, TranslationTable.PROKARYOTE)),
        ("translate_table_kw", lambda: cds.translate(translation_table=TranslationTable.PROKARYOTE, strict=False)),
        ("translate_alphabet", lambda: [repr(cds.translate().alphabet), repr(cds.translate(strict=False).alphabet)]),
        ("has_in_frame_stop", lambda: cds.has_in_frame_stop),
        ("exon_iter_chunk", lambda: list(cds._exon_iter(True))),
        ("exon_iter_chrom", lambda: list(cds._exon_iter(False))),
        ("to_dict", lambda: cds.to_dict()),
        ("guid", lambda: cds.guid),
        ("frames", lambda: cds.frames),
        ("chunk_frames", lambda: list(cds.chunk_relative_frames) if hasattr(cds, "chunk_relative_frames") else None),
        ("cache_infos", lambda: cache_infos(cds)),
    ]
    for a, b in WINDOWS:
        for expand in (False, True):
            acc.append(
                (
                    f"scan_chunk[{a},{b},{expand}]",
                    lambda a=a, b=b, expand=expand: list(cds.scan_chunk_relative_codon_locations(a, b, expand)),
                )
            )
            acc.append(
                (
                    f"scan_chrom[{a},{b},{expand}]",
                    lambda a=a, b=b, expand=expand: list(cds.scan_chromosome_codon_locations(a, b, expand)),
                )
            )
    return acc


def tx_accessors(tx):
    return [
        ("get_cds_sequence", lambda: tx.get_cds_sequence()),
        ("get_cds_sequence_same", lambda: tx.get_cds_sequence() is tx.get_cds_sequence()),
        ("get_protein_sequence", lambda: tx.get_protein_sequence()),
        ("get_protein_sequence_trunc", lambda: tx.get_protein_sequence(truncate_at_in_frame_stop=True)),
        ("get_protein_sequence_table", lambda: tx.get_protein_sequence(False, TranslationTable.PROKARYOTE)),
        ("get_transcript_sequence", lambda: tx.get_transcript_sequence()),
        ("cds_size", lambda: tx.cds_size),
        ("tx_to_dict", lambda: tx.to_dict()),
        (
            "tx_cache_infos",
            lambda: [
                list(tx.get_cds_sequence.cache_info()),
                list(tx.get_protein_sequence.cache_info()),
                cache_infos(tx.cds) if tx.is_coding else None,
            ],
        ),
    ]


def orderings(acc):
    """Four histories: as listed, reversed, and two fixed pseudo-random permutations"""
    n = len(acc)
    yield "fwd", list(acc)
    yield "rev", list(acc)[::-1]
    for label, mult in (("perm7", 7), ("perm11", 11)):
        step = mult
        while n and __import__("math").gcd(step, n) != 1:
            step += 1
        yield label, [acc[(3 + i * step) % n] for i in range(n)]


def observe(make, get_accessors):
    out = {}
    try:
        probe = make()
    except Exception as e:  # noqa
        return {"ctor": {"exc": type(e).__name__, "msg": str(e)}}
    for label, acc in orderings(get_accessors(probe)):
        obj = make()
        acc = [(name, fn) for name, fn in get_accessors(obj)]
        lookup = dict(acc)
        names = [name for name, _ in dict(orderings(get_accessors(probe)))[label]]
        rec = {}
        for name in names:
            rec[name] = attempt(lookup[name])
        for name in names:
            rec[name + "#2"] = attempt(lookup[name])
        out[label] = rec
    return out


def collection_record(ac):
    rec = {}
    rec["children"] = attempt(lambda: [repr(c) for c in ac.children])
    rec["children_same"] = attempt(lambda: ac.children is ac.children)
    rec["non_variant_children"] = attempt(lambda: [repr(c) for c in ac.non_variant_children])
    rec["iter_children"] = attempt(lambda: [c.guid for c in ac.iter_children()])
    rec["hierarchical"] = attempt(
        lambda: [[repr(k), sorted(map(repr, v))] for k, v in ac.hierarchical_children_guids.items()]
    )
    rec["guids_to_collections"] = attempt(
        lambda: [[repr(k), repr(v)] for k, v in ac.interval_guids_to_collections.items()]
    )
    rec["guid_map"] = attempt(
        lambda: [[repr(k), repr(v[0]), repr(v[1])] for k, v in ac._child_interval_guid_map.items()]
    )
    rec["guid_map_type"] = attempt(lambda: type(ac._child_interval_guid_map).__name__)

    def by_interval_guids():
        guids = list(ac._child_interval_guid_map)[::2]
        sub = ac.query_by_interval_guids(guids)
        return [sub.to_dict(), [repr(c) for c in sub.children]]

    rec["query_by_interval_guids"] = attempt(by_interval_guids)
    rec["query_by_guids"] = attempt(lambda: ac.query_by_guids([c.guid for c in ac.children][:2]).to_dict())
    for start, end, within in ((10, 60, False), (10, 60, True), (28, 45, False), (40, 41, False)):
        rec[f"query_pos[{start},{end},{within}]"] = attempt(
            lambda: [
                repr(c) for c in ac.query_by_position(start, end, completely_within=within).children
            ]
        )
    rec["tree"] = attempt(lambda: type(ac._build_position_interval_tree()).__name__)
    rec["to_dict"] = attempt(lambda: ac.to_dict())
    return rec


def main_dump(path):
    results = {}
    n = 0
    for pname, pfac in PARENTS.items():
        for tname, spec in TRANSCRIPTS.items():
            results[f"tx/{tname}/{pname}"] = observe(lambda: make_transcript(tname, pfac()), tx_accessors)
            n += 1
            if spec[3] is not None:
                results[f"txcds/{tname}/{pname}"] = observe(lambda: make_transcript(tname, pfac()).cds, cds_accessors)
                n += 1
        for cname in FRAMESHIFTED:
            results[f"cds/{cname}/{pname}"] = observe(lambda: make_cds(cname, pfac()), cds_accessors)
            n += 1

        def make_ac(dup=False):
            p = pfac()
            genes = [
                make_gene(["t_plus3", "t_single", "t_noncoding"], p),
                make_gene(["t_minus3", "t_single_minus", "t_full_cds"], p),
                make_gene(["t_adjacent"], p),
            ]
            if dup:
                genes.append(make_gene(["t_adjacent"], p))
            return AnnotationCollection(
                feature_collections=[
                    make_fc(["f_plus", "f_minus2", "f_unstranded"], p),
                    make_fc(["f_plus_same_len", "f_minus"], p),
                ],
                genes=genes,
                name="ac",
                sequence_name="chr1",
                parent_or_seq_chunk_parent=p,
            )

        results[f"ac/{pname}"] = attempt(lambda: collection_record(make_ac()))
        results[f"ac_dup/{pname}"] = attempt(lambda: collection_record(make_ac(dup=True)))
        results[f"ac_empty/{pname}"] = attempt(
            lambda: collection_record(AnnotationCollection(parent_or_seq_chunk_parent=pfac()))
        )

    with open(path, "w") as fh:
        json.dump({"results": results, "n_obj": n}, fh, indent=1, sort_keys=True, default=repr)
    print(f"dumped {len(results)} records ({n} CDS/transcript fixtures, each observed in 4 accessor orders)")


def main_compare(a, b):
    with open(a) as fh:
        ja = json.load(fh)
    with open(b) as fh:
        jb = json.load(fh)
    if ja == jb:
        print(f"IDENTICAL ({len(ja['results'])} records)")
        return 0
    for key in ja["results"]:
        x, y = ja["results"][key], jb["results"].get(key)
        if x != y:
            print("DIFFERENCE in", key)
            print(json.dumps(x)[:1500])
            print(json.dumps(y)[:1500])
            break
    return 1


if __name__ == "__main__":
    if sys.argv[1] == "dump":
        main_dump(sys.argv[2])
    else:
        sys.exit(main_compare(sys.argv[2], sys.argv[3]))
