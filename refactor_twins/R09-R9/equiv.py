"""
Equivalence harness for the C09 refactorings (collection queries).

Usage (from the worktree root):

    /venv/bin/python _refactor/R2/equiv.py record /tmp/c09_pristine.json     # on the pristine tree
    git apply _refactor/R2/patch.diff
    /venv/bin/python _refactor/R2/equiv.py check /tmp/c09_pristine.json      # on the patched tree

``record`` dumps a JSON document with one entry per probe; ``check`` recomputes all probes and compares them entry by
entry with the recorded document (exit status 1 on any difference).

The probes cover

* ``bins()`` on a grid of coordinates (negative, 0, 128 kb / 1 Mb / 8 Mb / 64 Mb / 512 Mb boundaries, beyond the
  scheme), both formats, both ``one`` values;
* ``AnnotationCollection.query_by_position`` for every flag combination on a grid of ranges, for collections on a
  whole chromosome (with sequence), on a sequence chunk, without any parent, with a sequence-less parent, for a
  collection whose members straddle 128 kb bin boundaries, with and without variant collections, with the pure python
  path and with the ``cgranges`` path (a small pure python stand-in for ``cgranges`` is installed for that);
* re-querying the result of a query (collection already on a chunk);
* ``_subset_parent`` directly;
* ``query_by_guids`` / ``query_by_interval_guids`` / ``query_by_transcript_interval_guids`` /
  ``query_by_feature_interval_guids`` / ``query_by_feature_identifiers`` for many subsets of identifiers (single
  values, lists, unknown ids, duplicates, one-shot iterators);
* ``GeneInterval.query_by_guids`` / ``FeatureIntervalCollection.query_by_guids`` /
  ``VariantIntervalCollection.query_by_guids``;
* ``get_children_by_type``, ``children``, ``iter_children``, ``hierarchical_children_guids``,
  ``interval_guids_to_collections``, ``to_dict`` / ``from_dict`` round trips, pickling state.

Every probe records either a digest of the result (to_dict, bounds, guids, str of members, sequences of members) or
the exception type and message.
"""
import itertools
import json
import os
import random
import sys
import types
from uuid import UUID

sys.path.insert(0, os.getcwd())  # run from the worktree root

if os.environ.get("PYTHONHASHSEED") != "0":
    # str(GeneInterval) prints a set of identifiers: fix the string hash seed so that two runs are comparable
    os.environ["PYTHONHASHSEED"] = "0"
    os.execv(sys.executable, [sys.executable] + sys.argv)

import inscripta.biocantor.location  # noqa: F401  (must be first: circular import otherwise)
from inscripta.biocantor.location import SingleInterval, Strand
from inscripta.biocantor.parent import Parent, SequenceType
from inscripta.biocantor.sequence import Alphabet, Sequence

# --------------------------------------------------------------------------------------------------------------------
# inscripta.biocantor.io.parser cannot be imported in this environment (io/models.py fails); the library imports it
# lazily for seq_to_parent / seq_chunk_to_parent only, so install a stand-in module with verbatim copies.
# --------------------------------------------------------------------------------------------------------------------


def seq_to_parent(seq, alphabet=Alphabet.NT_EXTENDED_GAPPED, seq_id=None, seq_type=SequenceType.CHROMOSOME):
    return Parent(
        sequence=Sequence(seq, alphabet, type=seq_type, id=seq_id), location=SingleInterval(0, len(seq), Strand.PLUS)
    )


def seq_chunk_to_parent(seq, sequence_name, start, end, strand=Strand.PLUS, alphabet=Alphabet.NT_EXTENDED_GAPPED):
    chunk_id = f"{sequence_name}:{start}-{end}"
    return Parent(
        id=chunk_id,
        sequence=Sequence(
            seq,
            alphabet,
            id=chunk_id,
            type=SequenceType.SEQUENCE_CHUNK,
            parent=Parent(
                location=SingleInterval(
                    start, end, strand, parent=Parent(id=sequence_name, sequence_type=SequenceType.CHROMOSOME)
                )
            ),
        ),
    )


_parser = types.ModuleType("inscripta.biocantor.io.parser")
_parser.seq_to_parent = seq_to_parent
_parser.seq_chunk_to_parent = seq_chunk_to_parent
sys.modules["inscripta.biocantor.io.parser"] = _parser
import inscripta.biocantor.io as _io  # noqa: E402

_io.parser = _parser

from inscripta.biocantor.gene import collections as collections_module  # noqa: E402
from inscripta.biocantor.gene.biotype import Biotype  # noqa: E402
from inscripta.biocantor.gene.cds_frame import CDSFrame  # noqa: E402
from inscripta.biocantor.gene.collections import AnnotationCollection  # noqa: E402
from inscripta.biocantor.gene.feature import FeatureInterval, FeatureIntervalCollection  # noqa: E402
from inscripta.biocantor.gene.gene import GeneInterval  # noqa: E402
from inscripta.biocantor.gene.transcript import TranscriptInterval  # noqa: E402
from inscripta.biocantor.gene.variants import VariantInterval, VariantIntervalCollection  # noqa: E402
from inscripta.biocantor.util.bins import bins  # noqa: E402


class _FakeCgranges:
    """Pure python stand-in for cgranges.cgranges (add / index / overlap; results sorted by start like cgranges)."""

    def __init__(self):
        self._rows = []
        self._indexed = False

    def add(self, name, start, end, label):
        self._rows.append((name, start, end, label))

    def index(self):
        self._rows.sort(key=lambda r: (r[0], r[1]))
        self._indexed = True

    def overlap(self, name, start, end):
        assert self._indexed
        for n, s, e, label in self._rows:
            if n == name and s < end and e > start:
                yield s, e, label


_fake_cgranges_module = types.ModuleType("cgranges")
_fake_cgranges_module.cgranges = _FakeCgranges


def set_cgranges(enabled):
    collections_module.HAS_CGRANGES = enabled
    if enabled:
        collections_module.cgranges = _fake_cgranges_module
    elif hasattr(collections_module, "cgranges"):
        del collections_module.cgranges


# --------------------------------------------------------------------------------------------------------------------
# fixtures
# --------------------------------------------------------------------------------------------------------------------

rng = random.Random(909)
GENOME_SMALL = "".join(rng.choice("ACGT") for _ in range(2000))
GENOME_LARGE = "".join(rng.choice("ACGT") for _ in range(300000))


def tx(starts, ends, strand, cds=None, **kw):
    if cds:
        cds_starts, cds_ends = cds
        frames = []
        # frames are not validated against the sequence: compute them in transcription order
        order = range(len(cds_starts)) if strand == Strand.PLUS else reversed(range(len(cds_starts)))
        offset = 0
        tmp = {}
        for i in order:
            tmp[i] = CDSFrame.from_int(offset % 3)
            offset += cds_ends[i] - cds_starts[i]
        frames = [tmp[i] for i in range(len(cds_starts))]
        return TranscriptInterval(
            starts, ends, strand, cds_starts=cds_starts, cds_ends=cds_ends, cds_frames=frames, **kw
        )
    return TranscriptInterval(starts, ends, strand, **kw)


def small_members(sequence_name="chrS"):
    """Genes / feature collections on a 2 kb chromosome, both strands, multi block."""
    g1 = GeneInterval(
        [
            tx([120], [280], Strand.PLUS, cds=([150], [210]), transcript_symbol="g1t1", transcript_id="G1T1"),
            tx(
                [120, 170, 220],
                [160, 200, 250],
                Strand.PLUS,
                cds=([140, 170, 220], [160, 200, 230]),
                transcript_symbol="g1t2",
                transcript_type=Biotype.protein_coding,
            ),
        ],
        gene_id="gene1",
        gene_symbol="G1",
        gene_type=Biotype.protein_coding,
        locus_tag="LT1",
        qualifiers={"note": ["a", "b"]},
        sequence_name=sequence_name,
    )
    g2 = GeneInterval(
        [
            tx([300, 420], [380, 500], Strand.MINUS, transcript_symbol="g2t1"),
            tx([310], [360], Strand.MINUS, transcript_symbol="g2t2"),
            tx([330, 450, 520], [400, 480, 560], Strand.MINUS, transcript_symbol="g2t3", is_primary_tx=True),
        ],
        gene_id="gene2",
        gene_symbol="G2",
        gene_type=Biotype.lncRNA,
        sequence_name=sequence_name,
    )
    g3 = GeneInterval(
        [
            tx(
                [600, 700, 820],
                [650, 790, 900],
                Strand.MINUS,
                cds=([610, 700, 820], [650, 790, 880]),
                transcript_symbol="g3t1",
                protein_id="P3",
                product="prod3",
            )
        ],
        gene_id="gene3",
        gene_symbol="G3",
        gene_type=Biotype.protein_coding,
        locus_tag="LT3",
        sequence_name=sequence_name,
    )
    # a gene starting at 0 and a gene ending at the end of the chromosome
    g4 = GeneInterval(
        [tx([0, 40], [30, 90], Strand.PLUS, transcript_symbol="g4t1")],
        gene_id="gene4",
        gene_symbol="G4",
        sequence_name=sequence_name,
    )
    g5 = GeneInterval(
        [
            tx([1900], [2000], Strand.PLUS, cds=([1903], [1993]), transcript_symbol="g5t1"),
            tx([1850, 1950], [1920, 2000], Strand.PLUS, transcript_symbol="g5t2"),
        ],
        gene_id="gene5",
        gene_symbol="G1",  # shares a symbol with gene1 on purpose (ambiguous identifier)
        sequence_name=sequence_name,
    )
    # same start as gene1: order of ties in the sorted children
    g6 = GeneInterval(
        [tx([120], [130], Strand.MINUS, transcript_symbol="g6t1")],
        gene_id="gene6",
        gene_symbol="G6",
        sequence_name=sequence_name,
    )
    fc1 = FeatureIntervalCollection(
        [
            FeatureInterval([120], [150], Strand.PLUS, feature_name="f1a", feature_types=["promoter"]),
            FeatureInterval(
                [120, 170, 220], [160, 200, 250], Strand.PLUS, feature_name="f1b", feature_id="F1B", feature_types=["x"]
            ),
            FeatureInterval([350], [400], Strand.MINUS, feature_name="f1c", qualifiers={"q": ["1"]}),
        ],
        feature_collection_name="fc1",
        feature_collection_id="FC1",
        feature_collection_type="region",
        locus_tag="LTF1",
        sequence_name=sequence_name,
        qualifiers={"k": ["v"]},
    )
    fc2 = FeatureIntervalCollection(
        [
            FeatureInterval([1000, 1100], [1050, 1200], Strand.MINUS, feature_name="f2a", is_primary_feature=True),
            FeatureInterval([1020], [1300], Strand.PLUS, feature_name="f2b"),
        ],
        feature_collection_name="fc2",
        feature_collection_id="G1",  # collides with the gene symbol G1 on purpose
        sequence_name=sequence_name,
    )
    fc3 = FeatureIntervalCollection(
        [FeatureInterval([300], [305], Strand.PLUS, feature_name="f3a")],
        feature_collection_name="fc3",
        sequence_name=sequence_name,
    )
    return [g1, g2, g3, g4, g5, g6], [fc1, fc2, fc3]


def small_variants(parent, sequence_name="chrS"):
    v1 = VariantIntervalCollection(
        [
            VariantInterval(155, 156, "T", "SNV", variant_name="v1a", parent_or_seq_chunk_parent=parent),
            VariantInterval(230, 233, "G", "deletion", variant_name="v1b", parent_or_seq_chunk_parent=parent),
        ],
        variant_collection_name="vc1",
        variant_collection_id="VC1",
        sequence_name=sequence_name,
        parent_or_seq_chunk_parent=parent,
    )
    v2 = VariantIntervalCollection(
        [VariantInterval(1010, 1011, "ACC", "insertion", variant_name="v2a", parent_or_seq_chunk_parent=parent)],
        variant_collection_name="vc2",
        variant_collection_id="VC2",
        sequence_name=sequence_name,
        parent_or_seq_chunk_parent=parent,
    )
    return [v1, v2]


def large_members(sequence_name="chrL"):
    """Members around the 128 kb (131072) and 256 kb (262144) bin boundaries."""
    b = 131072
    genes = [
        GeneInterval(
            [tx([b - 500, b - 100], [b - 200, b - 1], Strand.PLUS, cds=([b - 450], [b - 300]), transcript_symbol="La")],
            gene_id="La",
            gene_type=Biotype.protein_coding,
            sequence_name=sequence_name,
        ),
        GeneInterval(
            [
                tx([b - 50], [b + 70], Strand.MINUS, transcript_symbol="Lb1"),
                tx([b - 50, b + 10], [b - 5, b + 40], Strand.MINUS, transcript_symbol="Lb2"),
            ],
            gene_id="Lb",
            sequence_name=sequence_name,
        ),
        GeneInterval(
            [tx([b], [b + 300], Strand.PLUS, cds=([b + 3], [b + 93]), transcript_symbol="Lc")],
            gene_id="Lc",
            gene_type=Biotype.protein_coding,
            sequence_name=sequence_name,
        ),
        GeneInterval(
            [tx([b + 1000, 2 * b - 10], [b + 2000, 2 * b + 10], Strand.PLUS, transcript_symbol="Ld")],
            gene_id="Ld",
            sequence_name=sequence_name,
        ),
        GeneInterval(
            [tx([2 * b, 2 * b + 500], [2 * b + 100, 2 * b + 900], Strand.MINUS, transcript_symbol="Le")],
            gene_id="Le",
            sequence_name=sequence_name,
        ),
        GeneInterval(
            [tx([10], [200], Strand.PLUS, cds=([20], [80]), transcript_symbol="Lf")],
            gene_id="Lf",
            gene_type=Biotype.protein_coding,
            sequence_name=sequence_name,
        ),
    ]
    fcs = [
        FeatureIntervalCollection(
            [
                FeatureInterval([b - 10], [b], Strand.PLUS, feature_name="Lfa"),
                FeatureInterval([b - 3000, b + 3000], [b - 2000, b + 4000], Strand.MINUS, feature_name="Lfb"),
            ],
            feature_collection_name="Lfc1",
            sequence_name=sequence_name,
        ),
        FeatureIntervalCollection(
            [FeatureInterval([2 * b - 1], [2 * b + 1], Strand.PLUS, feature_name="Lfc")],
            feature_collection_name="Lfc2",
            sequence_name=sequence_name,
        ),
    ]
    return genes, fcs


def build_collections():
    out = {}
    genes, fcs = small_members()
    whole = seq_to_parent(GENOME_SMALL, seq_id="chrS")
    out["small_chrom"] = AnnotationCollection(
        feature_collections=[x.liftover_to_parent_or_seq_chunk_parent(whole) for x in fcs],
        genes=[x.liftover_to_parent_or_seq_chunk_parent(whole) for x in genes],
        name="small",
        id="S1",
        sequence_name="chrS",
        qualifiers={"source": ["equiv"]},
        parent_or_seq_chunk_parent=whole,
    )
    out["small_chrom_variants"] = AnnotationCollection(
        feature_collections=[x.liftover_to_parent_or_seq_chunk_parent(whole) for x in fcs],
        genes=[x.liftover_to_parent_or_seq_chunk_parent(whole) for x in genes],
        variant_collections=small_variants(whole),
        name="small_v",
        sequence_name="chrS",
        parent_or_seq_chunk_parent=whole,
    )
    out["small_noparent"] = AnnotationCollection(feature_collections=fcs, genes=genes, name="np")
    out["small_noparent_bounds"] = AnnotationCollection(
        feature_collections=fcs, genes=genes, name="npb", start=0, end=2500, completely_within=False
    )
    noseq = Parent(id="chrS", sequence_type=SequenceType.CHROMOSOME)
    out["small_noseq"] = AnnotationCollection(
        feature_collections=[x.liftover_to_parent_or_seq_chunk_parent(noseq) for x in fcs],
        genes=[x.liftover_to_parent_or_seq_chunk_parent(noseq) for x in genes],
        name="ns",
        sequence_name="chrS",
        start=0,
        end=2000,
        parent_or_seq_chunk_parent=noseq,
    )
    chunk = seq_chunk_to_parent(GENOME_SMALL[100:1500], "chrS", 100, 1500)
    out["small_chunk"] = AnnotationCollection(
        feature_collections=[x.liftover_to_parent_or_seq_chunk_parent(chunk) for x in fcs],
        genes=[x.liftover_to_parent_or_seq_chunk_parent(chunk) for x in genes],
        name="chunk",
        sequence_name="chrS",
        parent_or_seq_chunk_parent=chunk,
    )
    chunk2 = seq_chunk_to_parent(GENOME_SMALL[0:1000], "chrS", 0, 1000)
    out["small_chunk0"] = AnnotationCollection(
        feature_collections=[x.liftover_to_parent_or_seq_chunk_parent(chunk2) for x in fcs[:1]],
        genes=[x.liftover_to_parent_or_seq_chunk_parent(chunk2) for x in genes[:4]],
        name="chunk0",
        sequence_name="chrS",
        parent_or_seq_chunk_parent=chunk2,
    )
    out["empty_bounds"] = AnnotationCollection(name="empty", start=0, end=2000, parent_or_seq_chunk_parent=whole)
    out["empty"] = AnnotationCollection(name="empty2")
    lgenes, lfcs = large_members()
    lwhole = seq_to_parent(GENOME_LARGE, seq_id="chrL")
    out["large_chrom"] = AnnotationCollection(
        feature_collections=[x.liftover_to_parent_or_seq_chunk_parent(lwhole) for x in lfcs],
        genes=[x.liftover_to_parent_or_seq_chunk_parent(lwhole) for x in lgenes],
        name="large",
        sequence_name="chrL",
        parent_or_seq_chunk_parent=lwhole,
    )
    out["large_noparent"] = AnnotationCollection(feature_collections=lfcs, genes=lgenes, name="largenp")
    lchunk = seq_chunk_to_parent(GENOME_LARGE[120000:280000], "chrL", 120000, 280000)
    out["large_chunk"] = AnnotationCollection(
        feature_collections=[x.liftover_to_parent_or_seq_chunk_parent(lchunk) for x in lfcs],
        genes=[x.liftover_to_parent_or_seq_chunk_parent(lchunk) for x in lgenes],
        name="largechunk",
        sequence_name="chrL",
        parent_or_seq_chunk_parent=lchunk,
    )
    return out


# --------------------------------------------------------------------------------------------------------------------
# digests
# --------------------------------------------------------------------------------------------------------------------


def jsonable(x):
    return json.loads(json.dumps(x, default=str, sort_keys=False))


def attempt(fn):
    try:
        return fn()
    except Exception as e:  # noqa: BLE001
        return f"EXC {type(e).__name__}: {e}"


def seq_or_exc(fn):
    return attempt(lambda: str(fn()))


def digest_child(child):
    d = {
        "cls": type(child).__name__,
        "str": str(child),
        "repr": repr(child),
        "guid": str(child.guid),
        "start": child.start,
        "end": child.end,
        "chunk_loc": str(child.chunk_relative_location),
        "chrom_loc": str(child.chromosome_location),
        "bin": getattr(child, "bin", "<unset>"),
        "to_dict": attempt(lambda: jsonable(child.to_dict())),
        "to_dict_chunk": attempt(lambda: jsonable(child.to_dict(chromosome_relative_coordinates=False))),
        "identifiers": sorted(str(i) for i in child.identifiers),
        "refseq": seq_or_exc(child.get_reference_sequence),
        "grandchildren": [],
    }
    for gc in child.iter_children():
        d["grandchildren"].append(
            {
                "str": str(gc),
                "guid": str(gc.guid),
                "chunk_loc": str(gc.chunk_relative_location),
                "chrom_loc": str(gc.chromosome_location),
                "bin": gc.bin,
                "spliced": seq_or_exc(gc.get_spliced_sequence),
                "genomic": seq_or_exc(gc.get_genomic_sequence),
                "cds": seq_or_exc(gc.get_cds_sequence) if hasattr(gc, "get_cds_sequence") else None,
            }
        )
    return d


def digest_collection(ac):
    if ac is None:
        return None
    parent = ac.chunk_relative_location.parent
    d = {
        "repr": repr(ac),
        "len": len(ac),
        "is_empty": ac.is_empty,
        "start": getattr(ac, "start", "<unset>"),
        "end": getattr(ac, "end", "<unset>"),
        "bin": getattr(ac, "bin", "<unset>"),
        "guid": str(ac.guid),
        "completely_within": ac.completely_within,
        "name": ac.name,
        "id": ac.id,
        "sequence_name": ac.sequence_name,
        "qualifiers": jsonable(ac._export_qualifiers_to_list()),
        "chunk_loc": str(ac.chunk_relative_location),
        "chrom_loc": attempt(lambda: str(ac.chromosome_location)),
        "parent": repr(parent),
        "parent_seq": str(parent.sequence) if parent and parent.sequence else None,
        "sequence": str(ac.sequence) if ac.sequence else None,
        "genes": [str(g.guid) for g in ac.genes],
        "feature_collections": [str(g.guid) for g in ac.feature_collections],
        "variant_collections": [str(g.guid) for g in ac.variant_collections],
        "children_order": [str(c.guid) for c in ac.iter_children()],
        "children_prop": [str(c.guid) for c in ac.children],
        "non_variant_children": [str(c.guid) for c in ac.iter_non_variant_children()],
        "children_guids": sorted(str(g) for g in ac.children_guids),
        "guid_map": [str(k) for k in ac.guid_map],
        "hier": attempt(lambda: {str(k): sorted(map(str, v)) for k, v in ac.hierarchical_children_guids.items()}),
        "i2c": attempt(lambda: {str(k): str(v.guid) for k, v in ac.interval_guids_to_collections.items()}),
        "cigm": attempt(
            lambda: {str(k): [str(v[0].guid), str(v[1].guid)] for k, v in ac._child_interval_guid_map.items()}
        ),
        "to_dict": attempt(lambda: jsonable(ac.to_dict())),
        "to_dict_parent": attempt(lambda: jsonable(ac.to_dict(export_parent=True))),
        "to_dict_chunk": attempt(lambda: jsonable(ac.to_dict(chromosome_relative_coordinates=False))),
        "alt_hap": attempt(
            lambda: None
            if ac.alternative_haplotype_mapping is None
            else {str(k): [str(x) for x in v] for k, v in ac.alternative_haplotype_mapping.items()}
        ),
        "children": [digest_child(c) for c in ac.iter_children()],
    }
    return d


def light_digest(ac):
    """Smaller digest for the big grids."""
    if ac is None:
        return None
    parent = ac.chunk_relative_location.parent
    return {
        "start": ac.start,
        "end": ac.end,
        "guid": str(ac.guid),
        "completely_within": ac.completely_within,
        "chunk_loc": str(ac.chunk_relative_location),
        "parent": repr(parent),
        "parent_seq_len": len(parent.sequence) if parent and parent.sequence else None,
        "parent_seq_head": str(parent.sequence)[:40] if parent and parent.sequence else None,
        "genes": [str(g.guid) for g in ac.genes],
        "feature_collections": [str(g.guid) for g in ac.feature_collections],
        "variant_collections": [str(g.guid) for g in ac.variant_collections],
        "children_order": [str(c) for c in ac.iter_children()],
        "to_dict": attempt(lambda: jsonable(ac.to_dict())),
        "children": [
            {
                "chunk_loc": str(c.chunk_relative_location),
                "refseq": attempt(lambda c=c: (lambda s: [len(s), s[:30], s[-30:]])(str(c.get_reference_sequence()))),
                "gc": [
                    [
                        str(gc.chunk_relative_location),
                        attempt(lambda gc=gc: (lambda s: [len(s), s[:30], s[-30:]])(str(gc.get_spliced_sequence()))),
                    ]
                    for gc in c.iter_children()
                ],
            }
            for c in ac.iter_children()
        ],
    }


# --------------------------------------------------------------------------------------------------------------------
# probes
# --------------------------------------------------------------------------------------------------------------------


def probe_bins(results):
    b17 = 1 << 17
    coords = sorted(
        {
            -5,
            -1,
            0,
            1,
            2,
            100,
            b17 - 1,
            b17,
            b17 + 1,
            2 * b17 - 1,
            2 * b17,
            3 * b17 + 7,
            (1 << 20) - 1,
            1 << 20,
            (1 << 20) + 1,
            (1 << 23) - 1,
            1 << 23,
            (1 << 23) + 5,
            (1 << 26) - 1,
            1 << 26,
            (1 << 26) + 1,
            (1 << 29) - 2,
            (1 << 29) - 1,
            1 << 29,
            (1 << 29) + 1,
            1 << 31,
        }
    )
    for start, stop in itertools.product(coords, coords):
        for fmt in ("bed", "gff"):
            for one in (True, False, 1, 0, None):
                key = f"bins|{start}|{stop}|{fmt}|{one!r}"

                def run():
                    r = bins(start, stop, fmt=fmt, one=one)
                    return [type(r).__name__, sorted(r) if isinstance(r, set) else r]

                results[key] = attempt(run)
    results["bins|default"] = attempt(lambda: bins(1, 1000))
    results["bins|positional"] = attempt(lambda: sorted(bins(5, 300000, "bed", False)))
    results["bins|badfmt"] = attempt(lambda: bins(5, 300000, "sam"))
    rng2 = random.Random(17)
    for _ in range(400):
        a = rng2.randrange(0, 1 << 30)
        b = a + rng2.randrange(0, 1 << rng2.randrange(1, 29))
        for fmt in ("bed", "gff"):
            results[f"bins|rand|{a}|{b}|{fmt}|one"] = attempt(lambda: bins(a, b, fmt=fmt))
            results[f"bins|rand|{a}|{b}|{fmt}|all"] = attempt(lambda: sorted(bins(a, b, fmt=fmt, one=False)))


SMALL_POINTS = [None, -1, 0, 1, 100, 119, 120, 121, 130, 160, 250, 280, 281, 299, 300, 305, 400, 560, 561, 900]
SMALL_POINTS += [999, 1000, 1300, 1301, 1499, 1500, 1501, 1850, 1999, 2000, 2001, 2500]
B = 131072
LARGE_POINTS = [None, 0, 10, 200, 120000, B - 3000, B - 500, B - 50, B - 10, B - 1, B, B + 1, B + 70, B + 300]
LARGE_POINTS += [B + 4000, 2 * B - 10, 2 * B - 1, 2 * B, 2 * B + 1, 2 * B + 10, 2 * B + 900, 280000, 300000, 300001]


def position_grid(points, rng3, n):
    pairs = [(s, e) for s in points for e in points]
    rng3.shuffle(pairs)
    ordered = [(s, e) for s, e in pairs if s is None or e is None or s < e]
    unordered = [(s, e) for s, e in pairs if not (s is None or e is None or s < e)]
    always = [(None, None), (0, None), (None, points[-2])]
    return always + ordered[:n] + unordered[: n // 6]


def probe_position(results, colls):
    flags = list(itertools.product((False, True), (True, False), (False, True)))
    rng3 = random.Random(5)
    for name, ac in colls.items():
        points = LARGE_POINTS if name.startswith("large") else SMALL_POINTS
        n = 170 if name in ("small_chrom", "small_chunk", "large_chrom", "large_chunk", "small_chrom_variants") else 60
        for s, e in position_grid(points, rng3, n):
            for coding_only, completely_within, expand in flags:
                for cg in (False, True):
                    set_cgranges(cg)
                    key = f"pos|{name}|{s}|{e}|co={coding_only}|cw={completely_within}|ex={expand}|cg={cg}"
                    results[key] = attempt(
                        lambda: light_digest(
                            ac.query_by_position(
                                s,
                                e,
                                coding_only=coding_only,
                                completely_within=completely_within,
                                expand_location_to_children=expand,
                            )
                        )
                    )
        # non-bool flags: truthiness vs identity must be preserved
        for cw, co, ex in ((1, 0, 0), (0, 1, 1), (None, None, None), (1, 1, 1), ("yes", "", True), (True, 1, False)):
            for cg in (False, True):
                set_cgranges(cg)
                for s, e in ((None, None), (100, 600), (0, 1000), (B - 600, B + 400)):
                    key = f"posflags|{name}|{s}|{e}|{cw!r}|{co!r}|{ex!r}|cg={cg}"
                    results[key] = attempt(lambda: light_digest(ac.query_by_position(s, e, co, cw, ex)))
    set_cgranges(False)
    # full digests for a few queries, plus re-querying a result (collection already on a chunk)
    for name, (s, e) in {
        "small_chrom": (100, 600),
        "small_chrom_variants": (100, 1400),
        "small_chunk": (110, 1000),
        "small_noparent": (100, 600),
        "small_noseq": (100, 600),
        "large_chrom": (B - 600, B + 400),
        "large_chunk": (B - 3000, 2 * B + 10),
    }.items():
        for cw in (True, False):
            for cg in (False, True):
                set_cgranges(cg)
                ac = colls[name]
                key = f"posfull|{name}|{s}|{e}|cw={cw}|cg={cg}"
                first = attempt(lambda: ac.query_by_position(s, e, completely_within=cw))
                if isinstance(first, str):
                    results[key] = first
                    continue
                results[key] = digest_collection(first)
                mid = (first.start + first.end) // 2
                for s2, e2, cw2, ex2 in (
                    (first.start, mid, True, False),
                    (first.start, mid, False, False),
                    (first.start, mid, False, True),
                    (mid, first.end, False, False),
                    (None, None, True, False),
                    (first.start + 1, first.end - 1, True, False),
                    (first.start, first.end + 1, True, False),
                ):
                    key2 = key + f"|requery|{s2}|{e2}|cw={cw2}|ex={ex2}"
                    results[key2] = attempt(
                        lambda: digest_collection(
                            first.query_by_position(s2, e2, completely_within=cw2, expand_location_to_children=ex2)
                        )
                    )
    set_cgranges(False)


def probe_private_position(results, colls):
    """Call the two private implementations directly (they are also reachable independently of HAS_CGRANGES)."""
    for name in ("small_chrom", "small_chunk", "large_chrom", "small_chrom_variants", "small_noparent"):
        ac = colls[name]
        pts = [(0, 2000), (100, 600), (120, 281), (0, 0), (300, 305)] if name.startswith("small") else []
        pts += [(B - 600, B + 400), (0, 300000), (B, 2 * B), (1, B)] if name.startswith("large") else []
        for s, e in pts:
            for cw, co in itertools.product((True, False, 1, 0, None), (True, False, 1, 0, None)):
                set_cgranges(False)
                results[f"_qbp|{name}|{s}|{e}|{cw!r}|{co!r}"] = attempt(
                    lambda: [[str(x.guid) for x in part] for part in ac._query_by_position(s, e, cw, co)]
                )
                results[f"_oqbp_nocg|{name}|{s}|{e}|{cw!r}|{co!r}"] = attempt(
                    lambda: [[str(x.guid) for x in part] for part in ac._optimized_query_by_position(s, e, cw, co)]
                )
                set_cgranges(True)
                results[f"_oqbp|{name}|{s}|{e}|{cw!r}|{co!r}"] = attempt(
                    lambda: [
                        type(r).__name__ + ":" + ",".join(str(x.guid) for x in r)
                        for r in ac._optimized_query_by_position(s, e, cw, co)
                    ]
                )
    set_cgranges(False)


def probe_subset_parent(results, colls):
    for name, ac in colls.items():
        if name == "empty":
            continue
        pts = LARGE_POINTS[1:] if name.startswith("large") else SMALL_POINTS[2:]
        pairs = [(s, e) for s in pts[::2] for e in pts[1::2]]
        for s, e in pairs:

            def run():
                p = ac._subset_parent(s, e)
                if p is None:
                    return None
                return [repr(p), len(p.sequence), str(p.sequence)[:50], str(p.sequence)[-50:], p is ac._location.parent]

            results[f"subset|{name}|{s}|{e}"] = attempt(run)


def probe_id_queries(results, colls):
    bogus = UUID(int=12345)
    for name in ("small_chrom", "small_chrom_variants", "small_chunk", "small_noparent", "large_chunk", "empty_bounds"):
        ac = colls[name]
        child_guids = [c.guid for c in ac.iter_children()]
        interval_guids = [gc.guid for c in ac.iter_children() for gc in c.iter_children()]
        rng4 = random.Random(len(name))
        guid_sets = [[], [bogus], child_guids, list(reversed(child_guids))]
        guid_sets += [[g] for g in child_guids[:4]]
        guid_sets += [rng4.sample(child_guids, k) for k in (1, 2, 3, 4, 5) if k <= len(child_guids)]
        if child_guids:
            guid_sets += [[child_guids[0], bogus, child_guids[0], child_guids[-1]]]
        for i, ids in enumerate(guid_sets):
            results[f"guids|{name}|{i}"] = attempt(lambda: digest_collection(ac.query_by_guids(ids)))
            results[f"guids_tuple|{name}|{i}"] = attempt(lambda: light_digest(ac.query_by_guids(tuple(ids))))
            results[f"guids_iter|{name}|{i}"] = attempt(lambda: light_digest(ac.query_by_guids(iter(ids))))
        for g in child_guids[:3] + [bogus]:
            results[f"guid_single|{name}|{g}"] = attempt(lambda: light_digest(ac.query_by_guids(g)))
        results[f"guid_str|{name}"] = attempt(lambda: light_digest(ac.query_by_guids(str(bogus))))
        results[f"guid_none|{name}"] = attempt(lambda: light_digest(ac.query_by_guids(None)))

        iv_sets = [[], [bogus], interval_guids, list(reversed(interval_guids))]
        iv_sets += [[g] for g in interval_guids[:6]]
        iv_sets += [rng4.sample(interval_guids, k) for k in (1, 2, 3, 5, 8, 11) if k <= len(interval_guids)]
        if interval_guids:
            iv_sets += [[interval_guids[0], bogus, interval_guids[0], interval_guids[-1]]]
            iv_sets += [child_guids[:2] + interval_guids[:2]]
        for i, ids in enumerate(iv_sets):
            for meth in (
                "query_by_interval_guids",
                "query_by_transcript_interval_guids",
                "query_by_feature_interval_guids",
            ):
                fn = getattr(ac, meth)
                results[f"{meth}|{name}|{i}"] = attempt(lambda: digest_collection(fn(ids)))
                results[f"{meth}|tuple|{name}|{i}"] = attempt(lambda: light_digest(fn(tuple(ids))))
                results[f"{meth}|iter|{name}|{i}"] = attempt(lambda: light_digest(fn(iter(ids))))
        for g in interval_guids[:4] + [bogus]:
            for meth in (
                "query_by_interval_guids",
                "query_by_transcript_interval_guids",
                "query_by_feature_interval_guids",
            ):
                fn = getattr(ac, meth)
                results[f"{meth}|single|{name}|{g}"] = attempt(lambda: light_digest(fn(g)))
        for meth in ("query_by_interval_guids", "query_by_transcript_interval_guids", "query_by_feature_interval_guids"):
            fn = getattr(ac, meth)
            results[f"{meth}|none|{name}"] = attempt(lambda: light_digest(fn(None)))
            results[f"{meth}|unhashable|{name}"] = attempt(lambda: light_digest(fn([[1]])))

        ident_sets = [
            "G1",
            "gene1",
            "fc1",
            "FC1",
            "LT1",
            "nope",
            "",
            [],
            ["G1"],
            ["G1", "G6"],
            ["fc2", "gene3", "vc1"],
            ["VC2"],
            ("gene2", "gene2"),
            {"gene4", "fc3"},
            ["La", "Lfc2", "Le"],
            "Lb",
            ["nope", "gene5"],
            "gene",
        ]
        for i, ids in enumerate(ident_sets):
            results[f"ident|{name}|{i}"] = attempt(lambda: digest_collection(ac.query_by_feature_identifiers(ids)))
        results[f"ident|iter|{name}"] = attempt(
            lambda: light_digest(ac.query_by_feature_identifiers(iter(["G1", "fc1"])))
        )
        results[f"ident|none|{name}"] = attempt(lambda: light_digest(ac.query_by_feature_identifiers(None)))

        for t in ("feature", "transcript", "variant", "FEATURE", "Transcript", "VARIANT", "gene", "", "feature "):
            results[f"bytype|{name}|{t}"] = attempt(lambda: [str(x.guid) for x in ac.get_children_by_type(t)])
        from inscripta.biocantor.gene.interval import IntervalType

        for t in IntervalType:
            results[f"bytype_enum|{name}|{t.name}"] = attempt(lambda: [str(x.guid) for x in ac.get_children_by_type(t)])
            results[f"bytype_is|{name}|{t.name}"] = attempt(
                lambda: [
                    ac.get_children_by_type(t) is lst
                    for lst in (ac.feature_collections, ac.genes, ac.variant_collections)
                ]
            )
        results[f"bytype_none|{name}"] = attempt(lambda: ac.get_children_by_type(None))

        # child level query_by_guids
        for ci, child in enumerate(ac.iter_children()):
            gcs = [gc.guid for gc in child.iter_children()]
            subsets = [[], [bogus], gcs, list(reversed(gcs)), gcs[:1], gcs[-1:], gcs[:1] + [bogus] + gcs[:1]]
            for si, ids in enumerate(subsets):

                def run():
                    r = child.query_by_guids(ids)
                    return None if r is None else digest_child(r)

                results[f"child_guids|{name}|{ci}|{si}"] = attempt(run)
                results[f"child_guids_iter|{name}|{ci}|{si}"] = attempt(
                    lambda: (lambda r: None if r is None else [str(r), str(r.guid)])(child.query_by_guids(iter(ids)))
                )
            if gcs:
                results[f"child_guid_single|{name}|{ci}"] = attempt(
                    lambda: (lambda r: None if r is None else digest_child(r))(child.query_by_guids(gcs[0]))
                )
            results[f"child_guid_none|{name}|{ci}"] = attempt(lambda: child.query_by_guids(None))
            results[f"child_guid_str|{name}|{ci}"] = attempt(lambda: child.query_by_guids("abc"))


def probe_misc(results, colls):
    import pickle

    for name, ac in colls.items():
        results[f"digest|{name}"] = attempt(lambda: digest_collection(ac))
        results[f"roundtrip|{name}"] = attempt(
            lambda: digest_collection(AnnotationCollection.from_dict(ac.to_dict(export_parent=True)))
        )
        results[f"roundtrip_parent_arg|{name}"] = attempt(
            lambda: digest_collection(
                AnnotationCollection.from_dict(ac.to_dict(), parent_or_seq_chunk_parent=ac._parent_or_seq_chunk_parent)
            )
        )
        results[f"pickle|{name}"] = attempt(lambda: digest_collection(pickle.loads(pickle.dumps(ac))))
        results[f"gff|{name}"] = attempt(lambda: [str(r) for r in ac.to_gff()])
        results[f"eq_hash|{name}"] = attempt(
            lambda: [
                ac == AnnotationCollection.from_dict(ac.to_dict(), ac._parent_or_seq_chunk_parent),
                hash(ac) == hash(AnnotationCollection.from_dict(ac.to_dict(), ac._parent_or_seq_chunk_parent)),
            ]
        )
    # constructor errors / inference of bounds
    results["ctor|start_only"] = attempt(lambda: AnnotationCollection(start=5))
    results["ctor|end_only"] = attempt(lambda: AnnotationCollection(end=5))
    genes, fcs = small_members()
    results["ctor|infer_children"] = attempt(
        lambda: (lambda a: [a.start, a.end, a.bin])(AnnotationCollection(genes=genes[:3], feature_collections=fcs[1:]))
    )


def compute():
    results = {}
    colls = build_collections()
    probe_bins(results)
    probe_misc(results, colls)
    probe_position(results, colls)
    probe_private_position(results, colls)
    probe_subset_parent(results, colls)
    probe_id_queries(results, colls)
    return results


def main():
    mode, path = sys.argv[1], sys.argv[2]
    results = jsonable(compute())
    n_exc = sum(1 for v in results.values() if isinstance(v, str) and v.startswith("EXC "))
    print(f"{len(results)} probes computed ({n_exc} of them record an exception)")
    if mode == "record":
        with open(path, "w") as fh:
            json.dump(results, fh)
        print(f"recorded to {path}")
        return 0
    with open(path) as fh:
        expected = json.load(fh)
    bad = [k for k in sorted(set(expected) | set(results)) if expected.get(k, "<missing>") != results.get(k, "<missing>")]
    for k in bad[:25]:
        print("DIFF", k)
        print("   expected:", json.dumps(expected.get(k, "<missing>"))[:600])
        print("   got     :", json.dumps(results.get(k, "<missing>"))[:600])
    print(f"{len(bad)} differing probes out of {len(expected)}")
    return 1 if bad else 0


if __name__ == "__main__":
    sys.exit(main())
