"""
Equivalence harness for the chunk-relative / chromosome-relative code paths of
inscripta.biocantor.gene (interval.py, cds.py, transcript.py, feature.py, gene.py).

Usage (from the repository root):

    /venv/bin/python _refactor/R1/equiv.py dump /tmp/pristine.json      # on the pristine tree
    git apply _refactor/R1/patch.diff
    /venv/bin/python _refactor/R1/equiv.py dump /tmp/patched.json       # on the refactored tree
    /venv/bin/python _refactor/R1/equiv.py compare /tmp/pristine.json /tmp/patched.json

Every observation is stored as a string (repr / str / sorted dict form), exceptions are stored as
``EXC:<type>:<message>``, so that the two JSON files can be compared key by key.
"""
import sys
import os
import json
import random
import warnings

sys.path.insert(0, os.getcwd())

import inscripta.biocantor.location  # noqa: E402,F401  (must come first: circular import otherwise)
from inscripta.biocantor.gene.cds import CDSInterval  # noqa: E402
from inscripta.biocantor.gene.cds_frame import CDSFrame, CDSPhase  # noqa: E402
from inscripta.biocantor.gene.codon import TranslationTable  # noqa: E402
from inscripta.biocantor.gene.biotype import Biotype  # noqa: E402
from inscripta.biocantor.gene.transcript import TranscriptInterval  # noqa: E402
from inscripta.biocantor.gene.feature import FeatureInterval, FeatureIntervalCollection  # noqa: E402
from inscripta.biocantor.gene.gene import GeneInterval  # noqa: E402
from inscripta.biocantor.gene.collections import AnnotationCollection  # noqa: E402
from inscripta.biocantor.gene.interval import AbstractInterval, AbstractFeatureIntervalCollection  # noqa: E402
from inscripta.biocantor.location.location_impl import SingleInterval, CompoundInterval, EmptyLocation  # noqa: E402
from inscripta.biocantor.location.strand import Strand  # noqa: E402
from inscripta.biocantor.parent.parent import Parent, SequenceType  # noqa: E402
from inscripta.biocantor.sequence.alphabet import Alphabet  # noqa: E402
from inscripta.biocantor.sequence.sequence import Sequence  # noqa: E402

warnings.simplefilter("ignore")

# ``Parent`` is an lru_cache-wrapped factory here, not the class itself
PARENT_CLASS = type(Parent(id="__probe__"))

random.seed(7)
GENOME = "".join(random.choice("ACGT") for _ in range(90))
# sprinkle start / stop codons so that translation rules are exercised
GENOME = GENOME[:4] + "ATG" + GENOME[7:20] + "TAA" + GENOME[23:40] + "CAT" + GENOME[43:60] + "TTA" + GENOME[63:]
GENOME = GENOME[:85] + "N" + GENOME[86:]  # a codon that is not strict
assert len(GENOME) == 90
CHROM = "chrT"


# --- the two helper constructors of io/parser.py (cannot be imported in this environment) ---
def seq_to_parent(seq, alphabet=Alphabet.NT_EXTENDED_GAPPED, seq_id=None, seq_type=SequenceType.CHROMOSOME):
    return Parent(
        sequence=Sequence(seq, alphabet, type=seq_type, id=seq_id), location=SingleInterval(0, len(seq), Strand.PLUS)
    )


def seq_chunk_to_parent(seq, sequence_name, start, end, strand=Strand.PLUS, alphabet=Alphabet.NT_EXTENDED_GAPPED):
    chunk_id = f"{sequence_name}:{start}-{end}"
    return Parent(
        id=chunk_id,
        sequence=Sequence(
            seq,
            alphabet,
            id=chunk_id,
            type=SequenceType.SEQUENCE_CHUNK,
            parent=Parent(
                location=SingleInterval(
                    start,
                    end,
                    strand,
                    parent=Parent(id=sequence_name, sequence_type=SequenceType.CHROMOSOME),
                )
            ),
        ),
    )


def chunk(start, end):
    return seq_chunk_to_parent(GENOME[start:end], CHROM, start, end)


WINDOWS = [(0, 90), (0, 30), (5, 41), (6, 42), (7, 43), (10, 20), (13, 33), (17, 60), (22, 57), (31, 90), (50, 90), (70, 90), (0, 4), (0, 5), (3, 6)]


def parents():
    out = {
        "none": lambda: None,
        "chrom": lambda: seq_to_parent(GENOME, seq_id=CHROM),
        "chrom_noseq": lambda: Parent(id=CHROM, sequence_type=SequenceType.CHROMOSOME),
        "plain_id": lambda: Parent(id="other"),
        "plain_loc": lambda: Parent(id="other2", location=SingleInterval(0, 90, Strand.PLUS)),
        "untyped_seq": lambda: Parent(
            id="s", sequence=Sequence(GENOME, Alphabet.NT_EXTENDED_GAPPED), location=SingleInterval(0, 90, Strand.MINUS)
        ),
        "chunk_noseq_chrom": lambda: Parent(
            id="x",
            sequence=Sequence(GENOME[10:30], Alphabet.NT_EXTENDED_GAPPED, type=SequenceType.SEQUENCE_CHUNK),
        ),
    }
    for s, e in WINDOWS:
        out[f"chunk_{s}_{e}"] = (lambda s=s, e=e: chunk(s, e))
    return out


PARENTS = parents()

F = CDSFrame
CDS_CASES = {
    # name: (starts, ends, strand, frames)
    "se_p_f0": ([5], [35], Strand.PLUS, [F.ZERO]),
    "se_p_f1": ([5], [35], Strand.PLUS, [F.ONE]),
    "se_p_f2": ([4], [36], Strand.PLUS, [F.TWO]),
    "se_m_f0": ([12], [45], Strand.MINUS, [F.ZERO]),
    "se_m_f1": ([12], [45], Strand.MINUS, [F.ONE]),
    "se_m_f2": ([12], [44], Strand.MINUS, [F.TWO]),
    "me_p_f0": ([4, 18, 30], [12, 26, 41], Strand.PLUS, None),
    "me_p_f1": ([4, 18, 30], [12, 26, 41], Strand.PLUS, F.ONE),
    "me_p_f2": ([4, 18, 30, 50], [12, 26, 41, 60], Strand.PLUS, F.TWO),
    "me_m_f0": ([4, 18, 30], [12, 26, 41], Strand.MINUS, None),
    "me_m_f1": ([4, 18, 30], [12, 26, 41], Strand.MINUS, F.ONE),
    "me_m_f2": ([8, 20, 33, 52], [15, 27, 44, 63], Strand.MINUS, F.TWO),
    # frames that disagree with the block lengths (programmed frameshift / indel modelling)
    "me_p_shift": ([4, 18, 30], [12, 26, 41], Strand.PLUS, [F.ZERO, F.ZERO, F.ONE]),
    "me_m_shift": ([4, 18, 30], [12, 26, 41], Strand.MINUS, [F.TWO, F.ZERO, F.ZERO]),
    "me_p_shift2": ([4, 14, 16, 30], [12, 15, 26, 41], Strand.PLUS, [F.ZERO, F.ONE, F.ZERO, F.TWO]),
    # adjacent blocks (0bp intron) and overlapping blocks (-1 frameshift)
    "me_p_adjacent": ([4, 12, 30], [12, 26, 41], Strand.PLUS, [F.ZERO, F.ONE, F.ZERO]),
    "me_p_overlap": ([4, 11, 30], [12, 26, 41], Strand.PLUS, [F.ZERO, F.ZERO, F.ZERO]),
    "me_m_overlap": ([4, 11, 30], [12, 26, 41], Strand.MINUS, [F.ZERO, F.ZERO, F.ZERO]),
    # tiny blocks
    "me_p_tiny": ([4, 10, 14, 30], [6, 11, 26, 41], Strand.PLUS, None),
    "me_m_tiny": ([4, 10, 14, 30], [6, 11, 26, 39], Strand.MINUS, F.ONE),
    "se_p_short": ([20], [22], Strand.PLUS, [F.ZERO]),
    # the trailing partial codon before a frameshift spans a 1bp block and the block before it
    "me_p_pop": ([4, 14, 16, 30], [11, 15, 26, 41], Strand.PLUS, [F.ZERO, F.ONE, F.ZERO, F.ONE]),
    "me_m_pop": ([4, 16, 28, 30], [11, 26, 29, 37], Strand.MINUS, [F.ONE, F.ZERO, F.ONE, F.ZERO]),
    # contains an N
    "se_p_N": ([70], [90], Strand.PLUS, [F.ZERO]),
    "me_m_N": ([66, 80], [75, 89], Strand.MINUS, F.ONE),
}


def frames_for(starts, ends, strand, spec):
    if isinstance(spec, list):
        return spec
    loc = CompoundInterval(starts, ends, strand) if len(starts) > 1 else SingleInterval(starts[0], ends[0], strand)
    return CDSInterval.construct_frames_from_location(loc, spec if spec is not None else CDSFrame.ZERO)


# ---------------------------------------------------------------- recording
RESULTS = {}


def show(obj):
    if isinstance(obj, dict):
        return "{" + ", ".join(f"{show(k)}: {show(v)}" for k, v in sorted(obj.items(), key=lambda kv: str(kv[0]))) + "}"
    if isinstance(obj, (set, frozenset)):
        return "{" + ", ".join(sorted(show(x) for x in obj)) + "}"
    if isinstance(obj, tuple):
        return "(" + ", ".join(show(x) for x in obj) + ")"
    if isinstance(obj, list):
        return "[" + ", ".join(show(x) for x in obj) + "]"
    if isinstance(obj, Sequence):
        return f"Seq<{obj.alphabet.name}|{str(obj)}>"
    if isinstance(obj, PARENT_CLASS):
        return f"Parent<{obj!r}>"
    if hasattr(obj, "__next__"):
        return show(list(obj))
    return f"{type(obj).__name__}:{obj!r}"


def rec(key, thunk):
    assert key not in RESULTS, key
    try:
        RESULTS[key] = show(thunk())
    except Exception as e:  # noqa
        RESULTS[key] = f"EXC:{type(e).__name__}:{e}"


def loc_full(loc):
    """location with parent chain"""
    chain = []
    p = loc.parent
    while p is not None:
        chain.append((p.id, str(p.sequence_type), repr(p.location), str(p.sequence) if p.sequence else None))
        p = p.parent
    return (repr(loc), chain)


# ---------------------------------------------------------------- CDS
def observe_cds(k, cds, deep=True):
    rec(f"{k}|str", lambda: (str(cds), repr(cds), len(cds)))
    rec(f"{k}|guid", lambda: cds.guid)
    rec(f"{k}|hash_eq", lambda: (hash(cds), cds == cds, cds == 3))
    rec(f"{k}|chrom_loc", lambda: loc_full(cds.chromosome_location))
    rec(f"{k}|chunk_loc", lambda: loc_full(cds.chunk_relative_location))
    rec(f"{k}|bounded", lambda: loc_full(cds._chunk_relative_bounded_chromosome_location))
    rec(f"{k}|spans", lambda: (cds.chromosome_span, cds.chunk_relative_span, cds.chromosome_gaps_location, cds.chunk_relative_gaps_location))
    rec(f"{k}|lifted", lambda: loc_full(cds.lift_over_to_first_ancestor_of_type(SequenceType.CHROMOSOME)))
    rec(f"{k}|flags", lambda: (cds.is_chunk_relative, cds.has_sequence, cds.chunk_relative_size, cds.num_blocks, cds.num_chunk_relative_blocks, cds.strand, cds.chunk_relative_strand))
    rec(f"{k}|startend", lambda: (cds.start, cds.end, cds.chunk_relative_start, cds.chunk_relative_end))
    rec(f"{k}|blocks", lambda: (list(cds.blocks), list(cds.relative_blocks), cds.chunk_relative_blocks))
    rec(f"{k}|ids", lambda: (cds.id, cds.name, cds.identifiers, cds.identifiers_dict))
    rec(f"{k}|to_dict", lambda: cds.to_dict())
    rec(f"{k}|to_dict_chunk", lambda: cds.to_dict(chromosome_relative_coordinates=False))
    rec(f"{k}|parent_dict", lambda: cds._parent_to_dict())
    rec(f"{k}|parent_dict_chunk", lambda: cds._parent_to_dict(False))
    rec(f"{k}|frames", lambda: (cds.frames, cds.chunk_relative_frames))
    rec(f"{k}|frame_iter", lambda: (list(cds._frame_iter()), list(cds._frame_iter(False)), list(cds._frame_iter(chunk_relative_frames=1))))
    rec(f"{k}|exon_iter", lambda: (list(cds._exon_iter()), list(cds._exon_iter(False))))
    rec(f"{k}|extract_before_cache", lambda: cds.extract_sequence())
    rec(f"{k}|num_codons", lambda: (cds.num_codons, cds.num_chunk_relative_codons))
    rec(f"{k}|chunk_codons", lambda: [loc_full(x)[0] for x in cds.chunk_relative_codon_locations])
    rec(f"{k}|chunk_codons_lifted", lambda: [x.lift_over_to_first_ancestor_of_type(SequenceType.CHROMOSOME) for x in cds.chunk_relative_codon_locations])
    rec(f"{k}|chrom_codons", lambda: list(cds.chromosome_codon_locations))
    rec(f"{k}|deprecated_scan", lambda: list(cds.scan_codon_locations()))
    rec(f"{k}|scan_codons", lambda: ([str(c) for c in cds.scan_codons()], [str(c) for c in cds.scan_codons(True)]))
    rec(f"{k}|start_stop", lambda: (cds.has_canonical_start_codon, cds.has_valid_stop))
    rec(f"{k}|start_tbl", lambda: [cds.has_start_codon_in_specific_translation_table(t) for t in (TranslationTable.DEFAULT, TranslationTable.STANDARD, TranslationTable.PROKARYOTE)])
    rec(f"{k}|first_codon_on_chunk", lambda: cds._first_codon_is_on_chunk())
    rec(f"{k}|translate", lambda: cds.translate())
    rec(f"{k}|translate_trunc", lambda: cds.translate(truncate_at_in_frame_stop=True))
    rec(f"{k}|translate_prok", lambda: cds.translate(translation_table=TranslationTable.PROKARYOTE, strict=False))
    rec(f"{k}|in_frame_stop", lambda: cds.has_in_frame_stop)
    rec(f"{k}|extract_after_cache", lambda: cds.extract_sequence())
    rec(f"{k}|seqs", lambda: (cds.get_spliced_sequence(), cds.get_reference_sequence(), cds.get_genomic_sequence()))
    rec(f"{k}|export_qualifiers", lambda: (cds.export_qualifiers(), cds.export_qualifiers({"a": {"1"}, "product": {"zz"}}), cds.qualifiers))
    rec(f"{k}|gff", lambda: [str(r) for r in cds.to_gff(parent="par", parent_qualifiers={"q": {"v"}})])
    rec(f"{k}|gff_chunk", lambda: [str(r) for r in cds.to_gff(chromosome_relative_coordinates=False)])
    rec(f"{k}|bed", lambda: cds.to_bed12())
    if not deep:
        return
    for cs, ce, ex in [(None, None, False), (10, None, False), (None, 33, True), (13, 37, False), (13, 37, True), (19, 24, True), (21, 22, False), (25, 25, True), (0, 200, False), (60, 80, True)]:
        rec(f"{k}|scan_chunk|{cs},{ce},{ex}", lambda: [loc_full(x)[0] for x in cds.scan_chunk_relative_codon_locations(cs, ce, ex)])
        rec(f"{k}|scan_chrom|{cs},{ce},{ex}", lambda: list(cds.scan_chromosome_codon_locations(cs, ce, ex)))
        rec(f"{k}|window|{cs},{ce},{ex}", lambda: cds._convert_chromosome_start_end_to_relative_window(cs, ce, ex))
    rec(f"{k}|expand", lambda: [cds._expand_coordinates_to_codons(a, b) for a, b in [(0, 3), (6, 7), (13, 19), (20, 40), (41, 90), (11, 11)]])
    rec(f"{k}|optimize", lambda: (cds.optimize_blocks(), cds.optimize_blocks().to_dict()))
    rec(f"{k}|optimize_combine", lambda: (cds.optimize_and_combine_blocks(), cds.optimize_and_combine_blocks().to_dict()))
    for pos in (0, 5, 11, 12, 20, 30, 40):
        rec(f"{k}|pos|{pos}", lambda: (
            _try(lambda: cds.cds_pos_to_sequence(pos)),
            _try(lambda: cds.cds_pos_to_chunk_relative(pos)),
            _try(lambda: cds.sequence_pos_to_cds(pos)),
            _try(lambda: cds.chunk_relative_pos_to_cds(pos)),
            _try(lambda: cds.sequence_pos_to_amino_acid(pos)),
            _try(lambda: cds.sequence_pos_to_feature(pos)),
            _try(lambda: cds.chunk_relative_pos_to_feature(pos)),
            _try(lambda: cds.feature_pos_to_sequence(pos)),
            _try(lambda: cds.feature_pos_to_chunk_relative(pos)),
        ))
    for a, b, st in [(0, 9, Strand.PLUS), (3, 14, Strand.MINUS), (10, 25, Strand.PLUS)]:
        rec(f"{k}|ivl|{a},{b},{st.name}", lambda: (
            _try(lambda: cds.cds_interval_to_sequence(a, b, st)),
            _try(lambda: cds.cds_interval_to_chunk_relative(a, b, st)),
            _try(lambda: cds.sequence_interval_to_cds(a + 4, b + 10, st)),
            _try(lambda: cds.chunk_relative_interval_to_cds(a, b + 6, st)),
            _try(lambda: cds.sequence_interval_to_feature(a + 4, b + 10, st)),
            _try(lambda: cds.chunk_relative_interval_to_feature(a, b + 6, st)),
            _try(lambda: cds.feature_interval_to_sequence(a, b, st)),
            _try(lambda: cds.feature_interval_to_chunk_relative(a, b, st)),
        ))
    # lift to another chunk / the chromosome
    for pname in ("chunk_13_33", "chunk_17_60", "chrom", "chrom_noseq", "plain_id"):
        rec(f"{k}|liftover|{pname}", lambda: _cds_summary(cds.liftover_to_parent_or_seq_chunk_parent(PARENTS[pname]())))
    rec(f"{k}|roundtrip", lambda: _cds_summary(CDSInterval.from_dict(cds.to_dict(), cds._parent_or_seq_chunk_parent)))


def _try(thunk):
    try:
        return thunk()
    except Exception as e:  # noqa
        return f"EXC:{type(e).__name__}:{e}"


def _cds_summary(cds):
    return (
        str(cds),
        loc_full(cds.chunk_relative_location),
        cds.to_dict(),
        cds.guid,
        _try(lambda: cds.chunk_relative_frames),
        _try(lambda: cds.extract_sequence()),
        _try(lambda: list(cds.chunk_relative_codon_locations)),
        _try(lambda: cds.translate(strict=False)),
    )


def run_cds():
    for cname, (starts, ends, strand, spec) in CDS_CASES.items():
        for pname, mk in PARENTS.items():
            k = f"cds|{cname}|{pname}"
            try:
                cds = CDSInterval(
                    list(starts), list(ends), strand, frames_for(starts, ends, strand, spec),
                    sequence_name=CHROM, protein_id="prot1" if "f1" not in cname else None, product="prod" if "m_" in cname else None,
                    qualifiers={"note": ["b", "a"], "x": [1]} if "f0" in cname else None,
                    parent_or_seq_chunk_parent=mk(),
                )
            except Exception as e:  # noqa
                RESULTS[k + "|ctor"] = f"EXC:{type(e).__name__}:{e}"
                continue
            observe_cds(k, cds, deep=pname in ("none", "chrom", "chunk_5_41", "chunk_6_42", "chunk_7_43", "chunk_13_33", "chunk_22_57", "chunk_31_90"))

    # constructor validation
    rec("cds|ctor|mismatch_len", lambda: CDSInterval([1, 5], [3, 9], Strand.PLUS, [F.ZERO]))
    rec("cds|ctor|mix1", lambda: CDSInterval([1, 5, 12], [3, 9, 15], Strand.PLUS, [F.ZERO, CDSPhase.ONE, F.ONE]))
    rec("cds|ctor|mix2", lambda: CDSInterval([1, 5, 12], [3, 9, 15], Strand.PLUS, [CDSPhase.ZERO, CDSPhase.ONE, F.ONE]))
    rec("cds|ctor|phases", lambda: _cds_summary(CDSInterval([1, 5, 12], [3, 9, 15], Strand.MINUS, [CDSPhase.ZERO, CDSPhase.ONE, CDSPhase.TWO], parent_or_seq_chunk_parent=chunk(0, 30))))
    rec("cds|ctor|empty", lambda: CDSInterval([5], [5], Strand.PLUS, [F.ZERO]))
    rec("cds|ctor|startsends", lambda: CDSInterval([5, 7], [6], Strand.PLUS, [F.ZERO, F.ZERO]))
    rec("cds|ctor|guid", lambda: CDSInterval([5], [9], Strand.PLUS, [F.ZERO], guid="abc").guid)

    # construct_frames_from_location
    for strand in (Strand.PLUS, Strand.MINUS):
        for sf in (F.ZERO, F.ONE, F.TWO):
            for starts, ends in [([0, 7, 12], [5, 11, 18]), ([3], [30]), ([0, 4, 9, 20, 31], [2, 5, 15, 30, 32]), ([0, 5], [5, 9])]:
                loc = CompoundInterval(starts, ends, strand) if len(starts) > 1 else SingleInterval(starts[0], ends[0], strand)
                rec(f"cds|construct_frames|{strand.name}|{sf.name}|{starts}", lambda: CDSInterval.construct_frames_from_location(loc, sf))
    rec("cds|construct_frames|empty", lambda: CDSInterval.construct_frames_from_location(EmptyLocation()))
    rec("cds|construct_frames|default", lambda: CDSInterval.construct_frames_from_location(CompoundInterval([0, 7], [5, 11], Strand.PLUS)))

    # from_location / from_chunk_relative_location
    rec("cds|from_location|chrom", lambda: _cds_summary(CDSInterval.from_location(CompoundInterval([4, 18], [12, 26], Strand.PLUS, parent=seq_to_parent(GENOME, seq_id=CHROM)), [F.ZERO, F.ONE], protein_id="p")))
    rec("cds|from_location|chunk", lambda: CDSInterval.from_location(SingleInterval(2, 12, Strand.PLUS, parent=chunk(10, 40)), [F.ZERO]))
    rec("cds|from_chunk_loc|ok", lambda: _cds_summary(CDSInterval.from_chunk_relative_location(CompoundInterval([2, 14], [9, 25], Strand.MINUS, parent=chunk(10, 40)), [F.ONE, F.ZERO], product="pp")))
    rec("cds|from_chunk_loc|bad", lambda: CDSInterval.from_chunk_relative_location(SingleInterval(2, 12, Strand.PLUS), [F.ZERO]))


# ---------------------------------------------------------------- transcripts / features
TX_CASES = {
    # name: exon starts, exon ends, strand, cds case name or None
    "tx_p_3": ([2, 16, 28], [14, 27, 48], Strand.PLUS, "me_p_f0"),
    "tx_p_3_f1": ([2, 16, 28], [14, 27, 48], Strand.PLUS, "me_p_f1"),
    "tx_m_3": ([2, 16, 28], [14, 27, 48], Strand.MINUS, "me_m_f0"),
    "tx_m_3_shift": ([2, 16, 28], [14, 27, 48], Strand.MINUS, "me_m_shift"),
    "tx_p_full": ([4, 18, 30], [12, 26, 41], Strand.PLUS, "me_p_f0"),
    "tx_p_se": ([2], [50], Strand.PLUS, "se_p_f1"),
    "tx_m_se": ([10], [47], Strand.MINUS, "se_m_f2"),
    "tx_p_nc": ([2, 16, 28], [14, 27, 48], Strand.PLUS, None),
    "tx_m_nc": ([2, 40], [30, 70], Strand.MINUS, None),
    "tx_p_4": ([1, 17, 29, 49], [13, 27, 43, 70], Strand.PLUS, "me_p_f2"),
    "tx_m_4": ([6, 19, 31, 50], [16, 28, 45, 66], Strand.MINUS, "me_m_f2"),
}


def make_tx(name, parent, **extra):
    es, ee, strand, cname = TX_CASES[name]
    kw = {}
    if cname:
        cs, ce, cstrand, spec = CDS_CASES[cname]
        kw = dict(cds_starts=list(cs), cds_ends=list(ce), cds_frames=frames_for(cs, ce, cstrand, spec))
    return TranscriptInterval(
        list(es), list(ee), strand,
        qualifiers={"k": ["v2", "v1"], "n": [3]} if "_3" in name else None,
        transcript_id=f"{name}_id", transcript_symbol=f"{name}_sym" if "_m_" in name else None,
        transcript_type=Biotype.protein_coding if cname else None,
        sequence_name=CHROM, protein_id="P1" if cname else None, product="prod" if "se" in name else None,
        parent_or_seq_chunk_parent=parent, **kw, **extra,
    )


def observe_interval_common(k, iv):
    rec(f"{k}|str", lambda: (str(iv), repr(iv), len(iv)))
    rec(f"{k}|guid", lambda: iv.guid)
    rec(f"{k}|hash_eq", lambda: (hash(iv), iv == iv, iv == "x"))
    rec(f"{k}|chrom_loc", lambda: loc_full(iv.chromosome_location))
    rec(f"{k}|chunk_loc", lambda: loc_full(iv.chunk_relative_location))
    rec(f"{k}|bounded", lambda: loc_full(iv._chunk_relative_bounded_chromosome_location))
    rec(f"{k}|lifted", lambda: loc_full(iv.lift_over_to_first_ancestor_of_type(SequenceType.CHROMOSOME)))
    rec(f"{k}|ancestors", lambda: [(_try(lambda: iv.has_ancestor_of_type(t)), _try(lambda: iv.first_ancestor_of_type(t))) for t in (SequenceType.CHROMOSOME, SequenceType.SEQUENCE_CHUNK, "chromosome")])
    rec(f"{k}|flags", lambda: (iv.is_chunk_relative, iv.has_sequence, iv.chunk_relative_size, iv.num_blocks, iv.num_chunk_relative_blocks, iv.strand, iv.chunk_relative_strand, iv.bin))
    rec(f"{k}|startend", lambda: (iv.start, iv.end, iv.chunk_relative_start, iv.chunk_relative_end))
    rec(f"{k}|blocks", lambda: (list(iv.blocks), iv.chunk_relative_blocks))
    rec(f"{k}|ids", lambda: (iv.id, iv.name, iv.identifiers, iv.identifiers_dict))
    rec(f"{k}|to_dict", lambda: iv.to_dict())
    rec(f"{k}|to_dict_chunk", lambda: iv.to_dict(chromosome_relative_coordinates=False))
    rec(f"{k}|parent_dict", lambda: iv._parent_to_dict())
    rec(f"{k}|parent_dict_chunk", lambda: iv._parent_to_dict(False))
    rec(f"{k}|gff", lambda: [str(r) for r in iv.to_gff()])
    rec(f"{k}|gff_chunk", lambda: [str(r) for r in iv.to_gff(chromosome_relative_coordinates=False)])
    rec(f"{k}|refseq", lambda: iv.get_reference_sequence())
    rec(f"{k}|qual", lambda: (iv.qualifiers, iv._export_qualifiers_to_list(), iv.export_qualifiers()))


def observe_feature_like(k, iv, deep):
    observe_interval_common(k, iv)
    rec(f"{k}|spans", lambda: (iv.chromosome_span, iv.chunk_relative_span, iv.chromosome_gaps_location, iv.chunk_relative_gaps_location))
    rec(f"{k}|rel_blocks", lambda: list(iv.relative_blocks))
    rec(f"{k}|seqs", lambda: (iv.get_spliced_sequence(), iv.get_genomic_sequence()))
    rec(f"{k}|bed", lambda: iv.to_bed12())
    rec(f"{k}|bed_chunk", lambda: iv.to_bed12(score=10, name="guid", chromosome_relative_coordinates=False))
    rec(f"{k}|gff_parent", lambda: [str(r) for r in iv.to_gff(parent="G", parent_qualifiers={"k": {"zz"}, "gene_id": {"g"}})])
    rec(f"{k}|merge_qual", lambda: (iv._merge_qualifiers({"k": {"zz"}, "new": {"1"}}), iv.qualifiers))
    rec(f"{k}|primary", lambda: (iv.is_primary_feature, iv._is_primary_feature))
    if not deep:
        return
    for pos in (0, 3, 12, 14, 20, 29, 45):
        rec(f"{k}|pos|{pos}", lambda: (
            _try(lambda: iv.sequence_pos_to_feature(pos)),
            _try(lambda: iv.chunk_relative_pos_to_feature(pos)),
            _try(lambda: iv.feature_pos_to_sequence(pos)),
            _try(lambda: iv.feature_pos_to_chunk_relative(pos)),
        ))
    for a, b, st in [(0, 9, Strand.PLUS), (3, 20, Strand.MINUS)]:
        rec(f"{k}|ivl|{a},{b},{st.name}", lambda: (
            _try(lambda: iv.sequence_interval_to_feature(a + 4, b + 10, st)),
            _try(lambda: iv.chunk_relative_interval_to_feature(a, b + 6, st)),
            _try(lambda: iv.feature_interval_to_sequence(a, b, st)),
            _try(lambda: iv.feature_interval_to_chunk_relative(a, b, st)),
        ))
    for loc in (SingleInterval(10, 30, Strand.PLUS), SingleInterval(60, 80, Strand.MINUS), CompoundInterval([0, 20], [13, 45], Strand.MINUS)):
        rec(f"{k}|intersect|{loc!r}", lambda: _iv_summary(iv.intersect(loc.reset_parent(iv.chunk_relative_location.parent) if not iv.chunk_relative_location.is_empty else loc)))
        rec(f"{k}|intersect_noparent|{loc!r}", lambda: _iv_summary(iv.intersect(loc, new_qualifiers={"q": ["1"]})))
    for pname in ("chunk_13_33", "chunk_17_60", "chunk_70_90", "chrom", "chrom_noseq", "plain_id"):
        rec(f"{k}|liftover|{pname}", lambda: _iv_summary(iv.liftover_to_parent_or_seq_chunk_parent(PARENTS[pname]())))
    rec(f"{k}|roundtrip", lambda: _iv_summary(type(iv).from_dict(iv.to_dict(), iv._parent_or_seq_chunk_parent)))


def _iv_summary(iv):
    out = [str(iv), loc_full(iv.chunk_relative_location), loc_full(iv.chromosome_location), iv.to_dict(), iv.guid, _try(lambda: iv.get_spliced_sequence())]
    if isinstance(iv, TranscriptInterval) and iv.cds:
        out.append(_cds_summary(iv.cds))
    return tuple(out)


def observe_tx(k, tx, deep):
    observe_feature_like(k, tx, deep)
    rec(f"{k}|coding", lambda: (tx.is_coding, tx.cds_size, tx.chunk_relative_cds_size, tx.is_primary_tx, tx._cds_frames))
    rec(f"{k}|cds_locs", lambda: (loc_full(tx.cds_location), loc_full(tx.cds_chunk_relative_location)))
    rec(f"{k}|cds_startend", lambda: (tx.cds_start, tx.cds_end))
    rec(f"{k}|cds_startend_chunk", lambda: (tx.chunk_relative_cds_start, tx.chunk_relative_cds_end))
    rec(f"{k}|cds_blocks", lambda: (list(tx.cds_blocks), tx.chunk_relative_cds_blocks))
    rec(f"{k}|introns", lambda: (tx.chromosome_intron_location, tx.chunk_relative_intron_location))
    rec(f"{k}|utr5", lambda: loc_full(tx.get_5p_interval()))
    rec(f"{k}|utr3", lambda: loc_full(tx.get_3p_interval()))
    rec(f"{k}|tx_seq", lambda: tx.get_transcript_sequence())
    rec(f"{k}|cds_seq", lambda: tx.get_cds_sequence())
    rec(f"{k}|protein", lambda: (tx.get_protein_sequence(), tx.get_protein_sequence(truncate_at_in_frame_stop=True)))
    rec(f"{k}|stop", lambda: tx.has_in_frame_stop)
    if tx.cds is not None:
        observe_cds(f"{k}|CDS", tx.cds, deep=False)
    if not deep:
        return
    for pos in (0, 3, 12, 20, 29):
        rec(f"{k}|txpos|{pos}", lambda: (
            _try(lambda: tx.sequence_pos_to_transcript(pos)),
            _try(lambda: tx.chunk_relative_pos_to_transcript(pos)),
            _try(lambda: tx.transcript_pos_to_sequence(pos)),
            _try(lambda: tx.transcript_pos_to_chunk_relative(pos)),
            _try(lambda: tx.cds_pos_to_sequence(pos)),
            _try(lambda: tx.cds_pos_to_chunk_relative(pos)),
            _try(lambda: tx.sequence_pos_to_cds(pos)),
            _try(lambda: tx.chunk_relative_pos_to_cds(pos)),
            _try(lambda: tx.cds_pos_to_transcript(pos)),
            _try(lambda: tx.transcript_pos_to_cds(pos)),
        ))
    for a, b, st in [(0, 9, Strand.PLUS), (3, 20, Strand.MINUS)]:
        rec(f"{k}|txivl|{a},{b},{st.name}", lambda: (
            _try(lambda: tx.sequence_interval_to_transcript(a + 4, b + 10, st)),
            _try(lambda: tx.chunk_relative_interval_to_transcript(a, b + 6, st)),
            _try(lambda: tx.transcript_interval_to_sequence(a, b, st)),
            _try(lambda: tx.transcript_interval_to_chunk_relative(a, b, st)),
            _try(lambda: tx.cds_interval_to_sequence(a, b, st)),
            _try(lambda: tx.cds_interval_to_chunk_relative(a, b, st)),
            _try(lambda: tx.sequence_interval_to_cds(a + 4, b + 10, st)),
            _try(lambda: tx.chunk_relative_interval_to_cds(a, b + 6, st)),
        ))


FEAT_CASES = {
    "ft_p_1": ([8], [37], Strand.PLUS),
    "ft_m_1": ([8], [37], Strand.MINUS),
    "ft_p_3": ([3, 15, 40], [11, 29, 62], Strand.PLUS),
    "ft_m_3": ([3, 15, 40], [11, 29, 62], Strand.MINUS),
    "ft_u_2": ([20, 50], [30, 55], Strand.UNSTRANDED),
}


def make_feat(name, parent, **extra):
    s, e, strand = FEAT_CASES[name]
    return FeatureInterval(
        list(s), list(e), strand,
        qualifiers={"fk": ["y", "x"]} if "_3" in name else None,
        sequence_name=CHROM,
        feature_types=["promoter", "binding"] if "_p_" in name else None,
        feature_name=f"{name}_name", feature_id=f"{name}_id" if "_1" in name else None,
        parent_or_seq_chunk_parent=parent, **extra,
    )


DEEP_PARENTS = ("none", "chrom", "chunk_5_41", "chunk_13_33", "chunk_22_57", "chunk_31_90", "chunk_70_90")


def run_tx_feat():
    for name in TX_CASES:
        for pname, mk in PARENTS.items():
            k = f"tx|{name}|{pname}"
            try:
                tx = make_tx(name, mk())
            except Exception as e:  # noqa
                RESULTS[k + "|ctor"] = f"EXC:{type(e).__name__}:{e}"
                continue
            observe_tx(k, tx, deep=pname in DEEP_PARENTS)
    for name in FEAT_CASES:
        for pname, mk in PARENTS.items():
            k = f"feat|{name}|{pname}"
            try:
                ft = make_feat(name, mk())
            except Exception as e:  # noqa
                RESULTS[k + "|ctor"] = f"EXC:{type(e).__name__}:{e}"
                continue
            observe_feature_like(k, ft, deep=pname in DEEP_PARENTS)

    # transcript constructor validation
    base = dict(exon_starts=[2, 16], exon_ends=[14, 27], strand=Strand.PLUS)
    rec("tx|ctor|no_end", lambda: TranscriptInterval(**base, cds_starts=[4]))
    rec("tx|ctor|no_start", lambda: TranscriptInterval(**base, cds_ends=[4]))
    rec("tx|ctor|len", lambda: TranscriptInterval(**base, cds_starts=[4, 16], cds_ends=[14], cds_frames=[F.ZERO]))
    rec("tx|ctor|before", lambda: TranscriptInterval(**base, cds_starts=[1], cds_ends=[14], cds_frames=[F.ZERO]))
    rec("tx|ctor|after", lambda: TranscriptInterval(**base, cds_starts=[4], cds_ends=[28], cds_frames=[F.ZERO]))
    rec("tx|ctor|no_frames", lambda: TranscriptInterval(**base, cds_starts=[4], cds_ends=[14]))
    rec("tx|ctor|frames_len", lambda: TranscriptInterval(**base, cds_starts=[4], cds_ends=[14], cds_frames=[F.ZERO, F.ONE]))
    rec("tx|ctor|exon_len", lambda: TranscriptInterval([2, 16], [14], Strand.PLUS))
    rec("tx|ctor|only_frames", lambda: _iv_summary(TranscriptInterval(**base, cds_frames=[F.ZERO])))
    rec("tx|ctor|guid", lambda: _iv_summary(TranscriptInterval(**base, guid="g", transcript_guid="tg", is_primary_tx=True)))
    rec("tx|ctor|empty_cds_lists", lambda: TranscriptInterval(**base, cds_starts=[], cds_ends=[], cds_frames=[]))

    # from_location / from_chunk_relative_location
    for pname in ("none", "chrom", "chunk_5_41"):
        loc = CompoundInterval([3, 15], [11, 29], Strand.MINUS, parent=PARENTS[pname]())
        cds = _try(lambda: CDSInterval.from_location(SingleInterval(5, 11, Strand.MINUS, parent=PARENTS[pname]()), [F.ZERO]))
        rec(f"tx|from_location|{pname}", lambda: _iv_summary(TranscriptInterval.from_location(loc, transcript_id="a", transcript_type="protein_coding")))
        rec(f"tx|from_location_cds|{pname}", lambda: _iv_summary(TranscriptInterval.from_location(loc, cds=cds, guid="gg")))
        rec(f"feat|from_location|{pname}", lambda: _iv_summary(FeatureInterval.from_location(loc, feature_types=["a"], feature_name="n")))
    cloc = CompoundInterval([1, 12], [8, 30], Strand.PLUS, parent=chunk(5, 41))
    ccds = CDSInterval.from_chunk_relative_location(CompoundInterval([3, 12], [8, 25], Strand.PLUS, parent=chunk(5, 41)), [F.ZERO, F.ONE])
    rec("tx|from_chunk_loc", lambda: _iv_summary(TranscriptInterval.from_chunk_relative_location(cloc, transcript_symbol="s")))
    rec("tx|from_chunk_loc_cds", lambda: _iv_summary(TranscriptInterval.from_chunk_relative_location(cloc, cds=ccds, protein_id="p")))
    rec("tx|from_chunk_loc_badcds", lambda: TranscriptInterval.from_chunk_relative_location(cloc, cds=CDSInterval([8], [13], Strand.PLUS, [F.ZERO])))
    rec("tx|from_chunk_loc_bad", lambda: TranscriptInterval.from_chunk_relative_location(SingleInterval(1, 5, Strand.PLUS)))
    rec("feat|from_chunk_loc", lambda: _iv_summary(FeatureInterval.from_chunk_relative_location(cloc, feature_id="i", is_primary_feature=True)))
    rec("feat|from_chunk_loc_bad", lambda: FeatureInterval.from_chunk_relative_location(SingleInterval(1, 5, Strand.PLUS)))
    rec("feat|ctor|exon_len", lambda: FeatureInterval([2, 16], [14], Strand.PLUS))
    rec("feat|ctor|qual_not_dict", lambda: FeatureInterval([2], [14], Strand.PLUS, qualifiers=[1]))
    rec("feat|ctor|qual_not_list", lambda: FeatureInterval([2], [14], Strand.PLUS, qualifiers={"a": "b"}))


# ---------------------------------------------------------------- static location helpers
def run_static():
    for pname, mk in PARENTS.items():
        for starts, ends, strand in [([5], [35], Strand.PLUS), ([4, 18, 30], [12, 26, 41], Strand.MINUS), ([4, 12], [12, 20], Strand.PLUS), ([75], [85], Strand.MINUS), ([0, 60], [3, 89], Strand.UNSTRANDED)]:
            rec(f"static|init|{pname}|{starts}|{strand.name}", lambda: loc_full(AbstractInterval.initialize_location(starts, ends, strand, mk())))
        rec(f"static|init_bad|{pname}", lambda: AbstractInterval.initialize_location([1, 2], [3], Strand.PLUS, mk()))
        # relifting chunk-relative locations
        for src in ("chunk_5_41", "chunk_13_33", "chrom", "chrom_noseq", "none", "plain_id", "chunk_noseq_chrom"):
            rec(f"static|relift|{src}->{pname}", lambda: loc_full(AbstractInterval.liftover_location_to_seq_chunk_parent(
                AbstractInterval.initialize_location([8, 20], [15, 38], Strand.MINUS, PARENTS[src]()), mk())))
    other_chrom_chunk = seq_chunk_to_parent(GENOME[5:41], "chrOther", 5, 41)
    rec("static|relift|other_chrom", lambda: loc_full(AbstractInterval.liftover_location_to_seq_chunk_parent(
        AbstractInterval.initialize_location([8, 20], [15, 38], Strand.MINUS, chunk(5, 41)), other_chrom_chunk)))
    chunk_no_seq = Parent(id="c", sequence_type=SequenceType.SEQUENCE_CHUNK, parent=Parent(location=SingleInterval(5, 41, Strand.PLUS, parent=Parent(id=CHROM, sequence_type=SequenceType.CHROMOSOME))))
    rec("static|lift|chunk_no_seq", lambda: loc_full(AbstractInterval.liftover_location_to_seq_chunk_parent(SingleInterval(8, 20, Strand.PLUS), chunk_no_seq)))
    rec("static|feat_other_chrom", lambda: _iv_summary(make_feat("ft_p_3", chunk(5, 41)).liftover_to_parent_or_seq_chunk_parent(other_chrom_chunk)))
    rec("static|feat_other_chrom2", lambda: _iv_summary(make_feat("ft_p_3", seq_to_parent(GENOME, seq_id=CHROM)).liftover_to_parent_or_seq_chunk_parent(seq_to_parent(GENOME[::-1], seq_id=CHROM))))
    rec("static|feat_other_chrom3", lambda: _iv_summary(make_feat("ft_p_3", seq_to_parent(GENOME, seq_id=CHROM)).liftover_to_parent_or_seq_chunk_parent(other_chrom_chunk)))
    orphan_chunk_loc = CompoundInterval([2, 9], [6, 15], Strand.PLUS, parent=PARENTS["chunk_noseq_chrom"]())
    for pname in ("chunk_5_41", "chrom", "plain_id"):
        rec(f"static|relift_orphan|{pname}", lambda: loc_full(AbstractInterval.liftover_location_to_seq_chunk_parent(orphan_chunk_loc, PARENTS[pname]())))

        def orphan_feature():
            ft = FeatureInterval([2, 9], [6, 15], Strand.PLUS, feature_name="orphan")
            ft._reset_parent(PARENTS["chunk_noseq_chrom"]())
            return ft
        rec(f"static|feat_orphan|{pname}", lambda: (loc_full(orphan_feature().chunk_relative_location), _iv_summary(orphan_feature().liftover_to_parent_or_seq_chunk_parent(PARENTS[pname]()))))
    # in-place liftover of intervals / collections that are already chunk-relative
    for src in ("chunk_5_41", "chunk_0_90", "chrom", "none"):
        for dst in ("chunk_13_33", "chunk_17_60", "chunk_70_90"):
            def inplace(obj):
                obj._liftover_this_location_to_seq_chunk_parent(PARENTS[dst]())
                return obj
            rec(f"static|inplace_feat|{src}->{dst}", lambda: _iv_summary(inplace(make_feat("ft_m_3", PARENTS[src]()))))
            rec(f"static|inplace_tx|{src}->{dst}", lambda: _iv_summary(inplace(make_tx("tx_m_4", PARENTS[src]()))))
            rec(f"static|inplace_gene|{src}->{dst}", lambda: _coll_summary(inplace(make_gene("g_mixed", PARENTS[src]()))))
            rec(f"static|inplace_fcoll|{src}->{dst}", lambda: _coll_summary(inplace(make_fcoll("fc_all", PARENTS[src]()))))
    rec("static|feat_noseqchrom_chunk", lambda: _iv_summary(make_feat("ft_p_3", PARENTS["chunk_noseq_chrom"]())))


# ---------------------------------------------------------------- collections
def observe_collection(k, coll):
    observe_interval_common(k, coll)
    rec(f"{k}|repr", lambda: repr(coll))
    rec(f"{k}|children", lambda: ([str(c) for c in coll], coll.children_guids, coll.is_coding))
    rec(f"{k}|primary", lambda: (str(coll.get_primary_feature()), coll.get_primary_feature_sequence()))
    rec(f"{k}|merged", lambda: _iv_summary(coll.get_merged_feature()))
    rec(f"{k}|query", lambda: [_coll_summary(coll.query_by_guids(g)) for g in sorted(coll.children_guids)])
    rec(f"{k}|query_none", lambda: coll.query_by_guids([]))
    rec(f"{k}|children_locs", lambda: [loc_full(c.chunk_relative_location) for c in coll])
    for pname in ("chunk_13_33", "chunk_17_60", "chrom", "chunk_70_90"):
        rec(f"{k}|liftover|{pname}", lambda: _coll_summary(coll.liftover_to_parent_or_seq_chunk_parent(PARENTS[pname]())))
    if isinstance(coll, GeneInterval):
        rec(f"{k}|gene", lambda: (str(coll.get_primary_transcript()), str(coll.get_primary_cds()), coll.get_primary_transcript_sequence(), _try(lambda: coll.get_primary_cds_sequence()), _try(lambda: coll.get_primary_protein())))
        rec(f"{k}|merged_tx", lambda: _iv_summary(coll.get_merged_transcript()))
        rec(f"{k}|merged_cds", lambda: _iv_summary(coll.get_merged_cds()))


def _coll_summary(coll):
    if coll is None:
        return None
    return (repr(coll), loc_full(coll.chunk_relative_location), loc_full(coll.chromosome_location), coll.to_dict(), coll.guid,
            [loc_full(c.chunk_relative_location) for c in coll], _try(lambda: coll.get_reference_sequence()))


GENE_CASES = {
    "g_mixed": ["tx_p_3", "tx_m_4", "tx_p_nc"],
    "g_nc": ["tx_p_nc", "tx_m_nc"],
    "g_one": ["tx_m_se"],
    "g_tie": ["tx_p_3", "tx_p_3_f1", "tx_p_full"],
}
FCOLL_CASES = {
    "fc_all": ["ft_p_1", "ft_m_3", "ft_u_2"],
    "fc_one": ["ft_p_3"],
}


def make_gene(name, parent, primary=None):
    txs = [make_tx(t, parent, **({"is_primary_tx": True} if primary is not None and i in primary else {})) for i, t in enumerate(GENE_CASES[name])]
    return GeneInterval(txs, gene_id=f"{name}_id", gene_symbol=f"{name}_sym" if name != "g_one" else None,
                        gene_type=Biotype.protein_coding if name != "g_nc" else None, locus_tag="lt" if name == "g_one" else None,
                        qualifiers={"gq": ["b", "a"]} if name == "g_mixed" else None, sequence_name=CHROM, parent_or_seq_chunk_parent=parent)


def make_fcoll(name, parent, primary=None):
    fts = [make_feat(f, parent, **({"is_primary_feature": True} if primary is not None and i in primary else {})) for i, f in enumerate(FCOLL_CASES[name])]
    return FeatureIntervalCollection(fts, feature_collection_name=f"{name}_n", feature_collection_id=f"{name}_id" if name == "fc_all" else None,
                                     feature_collection_type="tfbs" if name == "fc_all" else None, locus_tag="flt",
                                     qualifiers={"cq": [2, 1]} if name == "fc_one" else None, sequence_name=CHROM, parent_or_seq_chunk_parent=parent)


def run_collections():
    for pname, mk in PARENTS.items():
        for name in GENE_CASES:
            k = f"gene|{name}|{pname}"
            try:
                g = make_gene(name, mk())
            except Exception as e:  # noqa
                RESULTS[k + "|ctor"] = f"EXC:{type(e).__name__}:{e}"
                continue
            observe_collection(k, g)
        for name in FCOLL_CASES:
            k = f"fcoll|{name}|{pname}"
            try:
                c = make_fcoll(name, mk())
            except Exception as e:  # noqa
                RESULTS[k + "|ctor"] = f"EXC:{type(e).__name__}:{e}"
                continue
            observe_collection(k, c)
    # primary feature selection
    rec("gene|primary|one", lambda: str(make_gene("g_mixed", None, primary={1}).get_primary_transcript()))
    rec("gene|primary|last", lambda: str(make_gene("g_tie", None, primary={2}).get_primary_transcript()))
    rec("gene|primary|two", lambda: make_gene("g_mixed", None, primary={0, 2}))
    rec("fcoll|primary|one", lambda: str(make_fcoll("fc_all", None, primary={2}).get_primary_feature()))
    rec("fcoll|primary|two", lambda: make_fcoll("fc_all", None, primary={0, 1}))
    rec("gene|empty", lambda: GeneInterval([]))
    rec("fcoll|empty", lambda: FeatureIntervalCollection([]))
    rec("find_primary|empty", lambda: AbstractFeatureIntervalCollection._find_primary_feature([]))

    # annotation collections built on chunks and queried by position (creates new chunk parents)
    for pname in ("none", "chrom", "chunk_0_90", "chunk_5_41", "chunk_17_60", "chunk_70_90"):
        k = f"anno|{pname}"
        try:
            parent = PARENTS[pname]()
            ac = AnnotationCollection(
                feature_collections=[make_fcoll("fc_all", parent), make_fcoll("fc_one", parent)],
                genes=[make_gene("g_mixed", parent), make_gene("g_one", parent)],
                name="ac", sequence_name=CHROM, parent_or_seq_chunk_parent=parent,
            )
        except Exception as e:  # noqa
            RESULTS[k + "|ctor"] = f"EXC:{type(e).__name__}:{e}"
            continue
        rec(f"{k}|summary", lambda: _coll_summary(ac))
        rec(f"{k}|to_dict_parent", lambda: ac.to_dict(export_parent=True))
        rec(f"{k}|to_dict_chunk", lambda: ac.to_dict(chromosome_relative_coordinates=False))
        rec(f"{k}|gff", lambda: [str(r) for r in ac.to_gff()])
        rec(f"{k}|gff_chunk", lambda: [str(r) for r in ac.to_gff(chromosome_relative_coordinates=False)])
        for qs, qe, cw in [(10, 40, False), (10, 40, True), (20, 30, False), (0, 90, True), (45, 80, False), (80, 90, False)]:
            def q():
                sub = ac.query_by_position(qs, qe, completely_within=cw)
                out = [_coll_summary(sub)]
                for child in sub:
                    out.append(_coll_summary(child))
                    for leaf in child:
                        out.append(_iv_summary(leaf))
                return out
            rec(f"{k}|query|{qs},{qe},{cw}", q)
        rec(f"{k}|roundtrip", lambda: _coll_summary(AnnotationCollection.from_dict(ac.to_dict(export_parent=True))))


# ---------------------------------------------------------------- seeded random CDS / transcript x chunk window
def run_fuzz(n=400):
    rng = random.Random(20240611)
    frames_all = [F.ZERO, F.ONE, F.TWO]
    for case in range(n):
        nblocks = rng.choice([1, 1, 2, 3, 3, 4, 5])
        cuts = sorted(rng.sample(range(2, 84), 2 * nblocks))
        starts, ends = cuts[0::2], cuts[1::2]
        if rng.random() < 0.15 and nblocks > 1:  # adjacent blocks
            starts[1] = ends[0]
        strand = rng.choice([Strand.PLUS, Strand.MINUS])
        if rng.random() < 0.6:
            frames = frames_for(starts, ends, strand, rng.choice(frames_all))
        else:
            frames = [rng.choice(frames_all) for _ in starts]
        ws = rng.randrange(0, 80)
        we = rng.randrange(ws + 1, 91)
        parent_kind = rng.choice(["chunk", "chunk", "chunk", "chrom", "none"])
        mk = {"chunk": lambda: chunk(ws, we), "chrom": PARENTS["chrom"], "none": PARENTS["none"]}[parent_kind]
        k = f"fuzz|{case}|{starts}|{ends}|{strand.name}|{[f.value for f in frames]}|{parent_kind}:{ws}-{we}"
        try:
            cds = CDSInterval(list(starts), list(ends), strand, list(frames), parent_or_seq_chunk_parent=mk())
        except Exception as e:  # noqa
            RESULTS[k + "|ctor"] = f"EXC:{type(e).__name__}:{e}"
            continue
        rec(k + "|cds", lambda: _cds_summary(cds))
        rec(k + "|cds_more", lambda: (
            loc_full(cds.chromosome_location), _try(lambda: loc_full(cds._chunk_relative_bounded_chromosome_location)),
            _try(lambda: cds.to_dict(False)), _try(lambda: list(cds.chromosome_codon_locations)), cds.num_codons,
            _try(lambda: cds.num_chunk_relative_codons), _try(lambda: cds._first_codon_is_on_chunk()),
            _try(lambda: cds.translate(truncate_at_in_frame_stop=True, strict=False)), _try(lambda: cds.translate()),
            _try(lambda: [str(c) for c in cds.scan_codons(True)]),
            _try(lambda: [str(r) for r in cds.to_gff(chromosome_relative_coordinates=False)]),
            _try(lambda: list(cds.scan_chunk_relative_codon_locations(ws + 3, we - 2, case % 2 == 0))),
            _try(lambda: list(cds.scan_chromosome_codon_locations(starts[0] + 2, None, case % 2 == 1))),
            _try(lambda: _cds_summary(cds.optimize_blocks())), _try(lambda: _cds_summary(cds.optimize_and_combine_blocks())),
        ))
        # a transcript around this CDS, with UTRs
        ex_starts = [max(0, starts[0] - rng.randrange(0, 3))] + list(starts[1:])
        ex_ends = list(ends[:-1]) + [min(90, ends[-1] + rng.randrange(0, 4))]
        rec(k + "|tx", lambda: _tx_fuzz_summary(TranscriptInterval(
            ex_starts, ex_ends, strand, cds_starts=list(starts), cds_ends=list(ends), cds_frames=list(frames),
            sequence_name=CHROM, transcript_id=f"t{case}", parent_or_seq_chunk_parent=mk())))
        rec(k + "|feat", lambda: _iv_summary(FeatureInterval(ex_starts, ex_ends, strand, sequence_name=CHROM, parent_or_seq_chunk_parent=mk())))
        rec(k + "|relift", lambda: _iv_summary(FeatureInterval(ex_starts, ex_ends, strand, parent_or_seq_chunk_parent=mk()).liftover_to_parent_or_seq_chunk_parent(chunk(min(ws + 5, 80), min(we + 7, 90)))))


def _tx_fuzz_summary(tx):
    return _iv_summary(tx) + (
        tx.is_coding, _try(lambda: tx.to_dict(False)), _try(lambda: loc_full(tx.get_5p_interval())), _try(lambda: loc_full(tx.get_3p_interval())),
        _try(lambda: tx.get_protein_sequence()), _try(lambda: tx.to_bed12(chromosome_relative_coordinates=False)), _try(lambda: tx.to_bed12()),
        _try(lambda: [str(r) for r in tx.to_gff(chromosome_relative_coordinates=False)]), _try(lambda: tx._parent_to_dict()),
    )


def main():
    if os.environ.get("PYTHONHASHSEED") != "0":
        # hashes of str-containing objects are recorded: make them reproducible across runs
        os.environ["PYTHONHASHSEED"] = "0"
        os.execv(sys.executable, [sys.executable] + sys.argv)
    mode = sys.argv[1]
    if mode == "dump":
        run_cds()
        run_tx_feat()
        run_static()
        run_collections()
        run_fuzz()
        with open(sys.argv[2], "w") as fh:
            json.dump(RESULTS, fh, indent=0, sort_keys=True)
        n_exc = sum(1 for v in RESULTS.values() if v.startswith("EXC:"))
        print(f"{len(RESULTS)} observations written ({n_exc} are exceptions)")
    elif mode == "compare":
        a = json.load(open(sys.argv[2]))
        b = json.load(open(sys.argv[3]))
        bad = [k for k in sorted(set(a) | set(b)) if a.get(k) != b.get(k)]
        for k in bad[:40]:
            print("DIFF", k, "\n   A:", str(a.get(k))[:400], "\n   B:", str(b.get(k))[:400])
        print(f"{len(a)} vs {len(b)} observations, {len(bad)} differences")
        sys.exit(1 if bad else 0)
    else:
        raise SystemExit("usage: equiv.py dump OUT.json | compare A.json B.json")


if __name__ == "__main__":
    main()
