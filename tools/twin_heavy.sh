#!/bin/bash
# the three expensive properties (C02, C05, C07) for the twins whose patch touches a file they are anchored in (and that are not the
# twin's own property, which tools/twin_own.sh covers); usage: tools/twin_heavy.sh [shards=4] [glob]
cd "$(dirname "$0")/.."
export VERIF_JOBS=${VERIF_JOBS:-4}
ls -d refactor_twins/${2:-*}/ | xargs -n1 basename | xargs -P "${1:-4}" -I{} bash -c 't={}; own=C${t:1:2}; props=$(python3 tools/twin_props.py refactor_twins/$t/patch.diff $t | tr " " "\n" | grep -E "^(C02|C05|C07)$" | grep -v "^$own$" | tr "\n" " "); [ -n "$props" ] && tools/twin_matrix.sh $t $props' | tee /dev/shm/twin_heavy.progress | sort
