#!/usr/bin/env python3
"""dev helper: tools/mut.py <relpath under repo> <old> <new> <prop> [<prop>...]  [--tier T] [--count N]
Copies /repo/inscripta (working tree) to a scratch dir, replaces the N-th (default: the only) occurrence of <old>
by <new> in the file, runs the checks on the copy, deletes it."""
import os, shutil, subprocess, sys, tempfile
args = sys.argv[1:]
tier = None; nth = None
if "--tier" in args:
    i = args.index("--tier"); tier = args[i+1]; del args[i:i+2]
if "--count" in args:
    i = args.index("--count"); nth = int(args[i+1]); del args[i:i+2]
rel, old, new, props = args[0], args[1], args[2], args[3:]
tmp = tempfile.mkdtemp(prefix="mut.", dir="/dev/shm")
try:
    shutil.copytree("/repo/inscripta", os.path.join(tmp, "repo", "inscripta"))
    p = os.path.join(tmp, "repo", rel)
    s = open(p).read()
    c = s.count(old)
    if c == 0 or (c > 1 and nth is None):
        print(f"pattern occurs {c} times"); sys.exit(3)
    if nth is None:
        s = s.replace(old, new)
    else:
        parts = s.split(old); s = old.join(parts[:nth+1]) + new + old.join(parts[nth+1:])
    open(p, "w").write(s)
    rc = 0
    for pr in props:
        env = dict(os.environ, VERIF_REPO=os.path.join(tmp, "repo"), VERIF_EVIDENCE_DIR=os.path.join(tmp, "ev"))
        cmd = [os.path.join(os.path.dirname(__file__), "..", "check"), pr] + (["--tier", tier] if tier else [])
        out = subprocess.run(cmd, env=env, capture_output=True, text=True)
        lines = [l for l in out.stdout.splitlines() if not l.startswith("KNOWN-FINDING")]
        print("\n".join(l.replace(tmp + "/repo/", "").replace(tmp, "<tmp>")[:400] for l in lines[-10:]))
        rc = max(rc, out.returncode)
    sys.exit(rc)
finally:
    shutil.rmtree(tmp, ignore_errors=True)
