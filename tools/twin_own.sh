#!/bin/bash
# every refactor twin against its own property only (fast pass); usage: tools/twin_own.sh [shards=8] [glob]
cd "$(dirname "$0")/.."
export VERIF_JOBS=${VERIF_JOBS:-3}
ls -d refactor_twins/${2:-*}/ | xargs -n1 basename | xargs -P "${1:-8}" -I{} bash -c 't={}; p=C${t:1:2}; tools/twin_matrix.sh $t $p' | tee /dev/shm/twin_own.progress | sort
