#!/bin/bash
# runs the seed matrix and the twin matrix in parallel shards (each entry on its own scratch copy)
# usage: tools/par_matrix.sh seeds|twins [shards=4] [glob='*']   -> one line per entry on stdout, sorted
cd "$(dirname "$0")/.."
what=$1; shards=${2:-4}; pat=${3:-*}
export VERIF_JOBS=${VERIF_JOBS:-4}
if [ "$what" = seeds ]; then
  ls -d seeded/$pat/ | xargs -n1 basename | xargs -P "$shards" -I{} bash -c 's={}; p=${s%-*}; res=$(TIER=${TIER:-quick} tools/try_patch.sh seeded/$s/patch.diff $p 2>&1 | grep -E "^C[0-9]+ \[|PATCH DOES NOT" | awk '"'"'{ if ($0 ~ /PATCH/) printf "NOAPPLY "; else {split($5,a,"="); split($8,e,"="); if (a[2]>0) printf "%s ", $1; else if (e[2]>0) printf "%s(errors) ", $1}}'"'"'); echo "$s: ${res:-MISSED}"' | tee /dev/shm/par_matrix.progress | sort
else
  ls -d refactor_twins/$pat/ | xargs -n1 basename | xargs -P "$shards" -I{} tools/twin_matrix.sh {} | tee /dev/shm/par_matrix.progress | sort
fi
