#!/bin/bash
# runs every stored seeded change against its own property's check (and optionally all checks) on a scratch copy
# usage: tools/seed_matrix.sh [all]
cd "$(dirname "$0")/.."
for d in seeded/*/; do
  s=$(basename "$d"); p=${s%-*}
  if [ "${1:-}" = "all" ]; then props=$(printf "C%02d " $(seq 1 20)); else props=$p; fi
  res=$(TIER=${TIER:-quick} tools/try_patch.sh "$d/patch.diff" $props 2>&1 | grep -E "^C[0-9]+ \[|PATCH DOES NOT" | awk '{ if ($0 ~ /PATCH/) printf "NOAPPLY "; else {split($5,a,"="); if (a[2]>0) printf "%s ", $1}}')
  echo "$s: ${res:-MISSED}"
done
