#!/bin/bash
# applies each behaviour-preserving refactoring of a refactor agent to a scratch copy and runs ALL checks: every check
# must stay at exit 0 (only KNOWN-FINDING lines).  usage: tools/refactor_matrix.sh /tmp/wt3/R19 [props...]
cd "$(dirname "$0")/.."
dir=$1; shift
props=${*:-$(printf "C%02d " $(seq 1 20))}
for r in "$dir"/_refactor/R*/; do
  out=$(tools/try_patch.sh "$r/patch.diff" $props 2>&1 | grep -E "^C[0-9]+ \[|PATCH DOES NOT" | awk '{ if ($0 ~ /PATCH/) print "NOAPPLY"; else { split($5,a,"="); split($7,u,"="); split($8,e,"="); if (a[2]>0 || u[2]>0 || e[2]>0) printf "%s(v=%s,u=%s,e=%s) ", $1, a[2], u[2], e[2] } }')
  echo "$(basename $dir)/$(basename $r): ${out:-quiet}"
done
