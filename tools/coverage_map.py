#!/usr/bin/env python3
"""Development aid: which statements of /repo's package did the evaluated rules actually interpret?
usage: tools/coverage_map.py [--tier quick] [props...]     (runs the checks with VERIF_COV set, then reports)
       tools/coverage_map.py --report <covdir>
Lists, per module and function, the executable statements never reached by any evaluated rule: these are the blind
spots where a change could only be seen by a structural rule.  Not part of any registered check."""
import ast
import os
import subprocess
import sys
import tempfile

HERE = os.path.dirname(os.path.abspath(__file__))
ROOT = os.environ.get("VERIF_REPO", "/repo")
PKG = os.path.join(ROOT, "inscripta", "biocantor")


def report(covdir, only_modules=None):
    hit = {}
    covfiles = [os.path.join(dp, fn) for dp, _, fs in os.walk(covdir) for fn in fs if fn.endswith(".cov")]
    for fn in covfiles:
        if True:
            for ln in open(fn):
                m, l = ln.rstrip("\n").split("\t")
                hit.setdefault(m, set()).add(int(l))
    tot_s = tot_h = 0
    for dirpath, _, files in sorted(os.walk(PKG)):
        for f in sorted(files):
            if not f.endswith(".py"):
                continue
            path = os.path.join(dirpath, f)
            mod = os.path.relpath(path, PKG)[:-3].replace(os.sep, ".")
            if mod.endswith(".__init__"):
                mod = mod[: -len(".__init__")]
            if only_modules and not any(mod.startswith(x) for x in only_modules):
                continue
            tree = ast.parse(open(path).read())
            h = hit.get(mod, set())
            rows = []
            for node in ast.walk(tree):
                if isinstance(node, (ast.FunctionDef, ast.AsyncFunctionDef)):
                    stmts = []
                    stack = list(node.body)
                    while stack:
                        st = stack.pop()
                        if isinstance(st, (ast.FunctionDef, ast.AsyncFunctionDef, ast.ClassDef)):
                            continue
                        if isinstance(st, ast.Expr) and isinstance(st.value, ast.Constant) and isinstance(st.value.value, str):
                            continue
                        stmts.append(st)
                        for fld in ("body", "orelse", "finalbody"):
                            stack.extend(getattr(st, fld, []) or [])
                        for hd in getattr(st, "handlers", []) or []:
                            stack.extend(hd.body)
                    lines = sorted({s.lineno for s in stmts})
                    miss = [l for l in lines if l not in h]
                    tot_s += len(lines)
                    tot_h += len(lines) - len(miss)
                    if miss:
                        rows.append((node.lineno, node.name, len(lines), miss))
            if rows:
                print(f"== {mod}")
                for ln, name, n, miss in sorted(rows):
                    tag = "NEVER" if len(miss) == n else "part "
                    print(f"  {tag} {name}:{ln}  missed {len(miss)}/{n}: {miss[:40]}")
    print(f"TOTAL statements {tot_s} reached {tot_h} ({100.0 * tot_h / max(1, tot_s):.1f}%)")


def main():
    args = sys.argv[1:]
    if args and args[0] == "--report":
        report(args[1], args[2:] or None)
        return
    tier = "quick"
    if args and args[0] == "--tier":
        tier = args[1]
        args = args[2:]
    props = args or [f"C{i:02d}" for i in range(1, 21)]
    covdir = tempfile.mkdtemp(prefix="cov.", dir="/dev/shm")
    evdir = tempfile.mkdtemp(prefix="covev.", dir="/dev/shm")
    for p in props:
        os.makedirs(os.path.join(covdir, p))
        env = dict(os.environ, VERIF_COV=os.path.join(covdir, p), VERIF_EVIDENCE_DIR=evdir)
        subprocess.run([os.path.join(HERE, "..", "check"), p, "--tier", tier], env=env, stdout=subprocess.DEVNULL)
    print("coverage dir (one sub-directory per property):", covdir)
    report(covdir)


if __name__ == "__main__":
    main()
