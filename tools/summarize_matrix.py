#!/usr/bin/env python3
"""summary of tools/par_matrix.sh logs: seeds reported by their own property, twins that stay quiet
usage: tools/summarize_matrix.py <seed log> <twin log>"""
import collections
import re
import sys

seed_log, twin_log = sys.argv[1], sys.argv[2]
rounds = {"A": 1, "B": 1, "C": 2, "D": 2, "E": 2, "F": 3, "G": 3, "H": 4, "I": 4, "J": 5, "K": 5, "L": 6, "M": 6}
per_round = collections.defaultdict(lambda: [0, 0])
missed = []
for ln in open(seed_log):
    m = re.match(r"(C\d\d)-([A-Z]): (.*)", ln.strip())
    if not m:
        continue
    prop, tag, res = m.groups()
    rd = rounds.get(tag, 0)
    per_round[rd][1] += 1
    if prop in res.split() or f"{prop}(errors)" in res:
        per_round[rd][0] += 1 if prop in res.split() else 0
    if prop not in res.split():
        missed.append(ln.strip())
print("| round | changes | reported by their own property's quick check |")
print("|---|---|---|")
for rd in sorted(per_round):
    print(f"| {rd} | {per_round[rd][1]} | {per_round[rd][0]} |")
print(f"| all | {sum(v[1] for v in per_round.values())} | {sum(v[0] for v in per_round.values())} |")
print("not reported:", missed or "none")
quiet = noisy = 0
bad = []
for ln in open(twin_log):
    if re.match(r"R\d\d-R\d", ln):
        if ln.strip().endswith("quiet"):
            quiet += 1
        else:
            noisy += 1
            bad.append(ln.strip())
print(f"twins: {quiet + noisy}, quiet on every property run: {quiet}")
print("not quiet:", bad or "none")
