#!/bin/bash
# refactor twins against their own property and every property anchored in a touched file, except the three most expensive ones
# (C02, C05, C07) unless they are the twin's own; usage: tools/twin_wide.sh [shards=8] [glob]
cd "$(dirname "$0")/.."
export VERIF_JOBS=${VERIF_JOBS:-3}
ls -d refactor_twins/${2:-*}/ | xargs -n1 basename | xargs -P "${1:-8}" -I{} bash -c 't={}; own=C${t:1:2}; props=$(python3 tools/twin_props.py refactor_twins/$t/patch.diff $t | tr " " "\n" | grep -v -E "^(C02|C05|C07)$" | tr "\n" " "); tools/twin_matrix.sh $t $own $(echo $props | tr " " "\n" | grep -v "^$own$" | tr "\n" " ")' | tee /dev/shm/twin_wide.progress | sort
