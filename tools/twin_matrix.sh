#!/bin/bash
# applies each stored behaviour-preserving refactoring (refactor_twins/<name>/patch.diff) to a scratch copy of /repo and runs
# the checks on it: every check must stay at exit 0 (only KNOWN-FINDING lines).
# usage: tools/twin_matrix.sh [glob, default '*'] [all | props...]
#   default property set per twin: the twin's own property + every property whose anchors name a file the patch touches
cd "$(dirname "$0")/.."
pat=${1:-*}; shift
sel=${*:-auto}
for r in refactor_twins/$pat/; do
  if [ "$sel" = "all" ]; then props=$(printf "C%02d " $(seq 1 20));
  elif [ "$sel" = "auto" ]; then props=$(python3 tools/twin_props.py "$r/patch.diff" "$(basename $r)");
  else props=$sel; fi
  out=$(TIER=${TIER:-quick} tools/try_patch.sh "$r/patch.diff" $props 2>&1 | grep -E "^C[0-9]+ \[|PATCH DOES NOT" | awk '{ if ($0 ~ /PATCH/) print "NOAPPLY"; else { split($5,a,"="); split($7,u,"="); split($8,e,"="); if (a[2]>0 || u[2]>0 || e[2]>0) printf "%s(v=%s,u=%s,e=%s) ", $1, a[2], u[2], e[2] } }')
  echo "$(basename $r) [$(echo $props | tr ' ' ',')]: ${out:-quiet}"
done
