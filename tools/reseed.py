import sys, re, subprocess, os
seed=sys.argv[1]
os.chdir('/tmp/wt/rb')
def edit(path, old, new, count=1):
    s=open(path).read()
    assert s.count(old)>=1, (seed, old[:60])
    s=s.replace(old,new,count); open(path,'w').write(s)
cds='inscripta/biocantor/gene/cds.py'; loc='inscripta/biocantor/location/location_impl.py'
if seed=='C02-H':
    edit(loc,'''        if self.parent or other.parent:
            if not (self.parent and other.parent):
                return False
            if not self.parent.equals_except_location(other.parent):
                return False
        # an empty location has no strand''','''        # same parent ID on both sides; the parents themselves must agree too (type, sequence)
        if self.parent and other.parent and not self.parent.equals_except_location(other.parent):
            return False
        # an empty location has no strand''')
elif seed=='C05-A':
    edit(cds,'''                shift = sum((coords[1] - coords[0] for coords in zip(cleaned_rel_starts, cleaned_rel_ends))) % 3''','''                shift = (cleaned_rel_ends[-1] - cleaned_rel_starts[-1]) % 3 if cleaned_rel_ends else 0''')
elif seed=='C05-F':
    edit(cds,'''                shift = sum((coords[1] - coords[0] for coords in zip(cleaned_rel_starts, cleaned_rel_ends))) % 3''','''                # cleaned blocks are laid out along the relative (spliced) coordinate axis, so their total
                # length is the distance from the first cleaned start to the last cleaned end
                shift = (cleaned_rel_ends[-1] - cleaned_rel_starts[0]) % 3 if cleaned_rel_starts else 0''')
elif seed=='C05-D':
    edit(cds,'''        translated_seq = []
        for i in range(0, len(seq), 3):
            codon_str = seq[i : i + 3]

            codon = Codon(codon_str)
            if (
                i == 0
                and first_codon_is_visible
                and codon.is_start_codon_in_specific_translation_table(translation_table)
            ):
                translated_seq.append(Codon("ATG").translate())
            else:
                if strict and not codon.is_strict_codon:
                    raise ValueError(f"Codon is not a strict codon: '{codon}'")
                translated_seq.append(codon.translate(strict=strict))
''','''        translated_seq = []
        # a CDS reuses a small set of codons; only translate each distinct codon once
        residues = {}
        for i in range(0, len(seq), 3):
            codon_str = seq[i : i + 3]

            codon = Codon(codon_str)
            if codon_str not in residues:
                if (
                    i == 0
                    and first_codon_is_visible
                    and codon.is_start_codon_in_specific_translation_table(translation_table)
                ):
                    residues[codon_str] = Codon("ATG").translate()
                else:
                    if strict and not codon.is_strict_codon:
                        raise ValueError(f"Codon is not a strict codon: '{codon}'")
                    residues[codon_str] = codon.translate(strict=strict)
            translated_seq.append(residues[codon_str])
''')
elif seed=='C05-G':
    edit(cds,'''        # the start codon rule applies to the first codon of this CDS, which a sequence chunk may have cut off
        first_codon_is_visible = self._first_codon_is_on_chunk()''','''        # callers that forward an unset table pass None; fall back to the NCBI standard code
        translation_table = translation_table or TranslationTable.STANDARD
        # the start codon rule applies to the first codon of this CDS, which a sequence chunk may have cut off
        first_codon_is_visible = self._first_codon_is_on_chunk()''')
elif seed=='C07-A':
    edit(cds,'''            offset = self._calculate_frame_offset(cleaned_location, loc_on_chrom)''','''            offset = self._calculate_frame_offset(loc, loc_on_chrom)''')
