#!/bin/bash
# usage: tools/try_patch.sh <patch.diff> <prop> [<prop>...] [-- extra check args]
# Applies the patch to a scratch copy of /repo's tracked files (never /repo itself), runs the checks on it,
# removes the copy.  For development / seeded-change triage only.
set -u
patch=$(readlink -f "$1"); shift
tmp=$(mktemp -d /dev/shm/trypatch.XXXXXX)
trap 'rm -rf "$tmp"' EXIT
mkdir -p "$tmp/repo" "$tmp/ev"
git -C /repo archive HEAD inscripta | tar -x -C "$tmp/repo"
# include uncommitted working-tree state of /repo
( cd /repo && git diff HEAD -- inscripta ) | ( cd "$tmp/repo" && git apply --allow-empty - 2>/dev/null || true )
( cd "$tmp/repo" && git apply "$patch" ) || { echo "PATCH DOES NOT APPLY"; exit 3; }
rc=0
for p in "$@"; do
  VERIF_REPO="$tmp/repo" VERIF_EVIDENCE_DIR="$tmp/ev" "$(dirname "$0")/../check" "$p" ${TIER:+--tier $TIER} ${RULE:+--rule $RULE} | sed "s#$tmp/repo/##g; s#$tmp/ev#<ev>#g" | grep -v '^KNOWN-FINDING' | tail -${LINES_MAX:-12}
  c=${PIPESTATUS[0]}; [ $c -gt $rc ] && rc=$c
done
exit $rc
