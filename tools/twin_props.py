#!/usr/bin/env python3
"""properties to run for a refactor twin: its own property + every property whose anchors name a file the patch touches"""
import json, re, sys
patch, name = sys.argv[1], sys.argv[2]
files = set(re.findall(r"^\+\+\+ b/(\S+)", open(patch).read(), re.M))
own = "C" + name[1:3]
out = {own}
for line in open("/verif/properties.jsonl"):
    d = json.loads(line)
    if files & set(d["anchors"]["files"]):
        out.add(d["id"])
print(" ".join(sorted(out)))
