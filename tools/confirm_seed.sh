#!/bin/bash
# usage: tools/confirm_seed.sh C01 A [srcroot=/tmp/wt] [dsttag=A]  -- confirm a sub-agent's seeded change in a fresh scratch worktree of /repo HEAD
# (patch applies, suite still 1466 passed with no failures, demo fails with / passes without), then store it
# under /verif/seeded/<prop>-<tag>/ .  Removes the scratch worktree afterwards.
set -u
prop=$1; tag=$2; root=${3:-/tmp/wt}; dtag=${4:-$tag}
src=$root/$prop/_seed/$tag
dst=/verif/seeded/$prop-$dtag
mkdir -p /tmp/wt
wt=$(mktemp -d /tmp/wt/confirm.XXXXXX); rmdir "$wt"
git -C /repo worktree add --detach "$wt" HEAD >/dev/null 2>&1 || { echo "worktree failed"; exit 3; }
cleanup() { git -C /repo worktree remove --force "$wt" >/dev/null 2>&1; rm -rf "$wt"; }
trap cleanup EXIT
cd "$wt"
mkdir -p _seed/$tag && cp "$src"/demo.py _seed/$tag/ 
# demos may reference the original worktree path; point them at this one
sed -i "s#$root/$prop#$wt#g" _seed/$tag/demo.py
/venv/bin/python _seed/$tag/demo.py >$wt.pre.log 2>&1; pre=$?
git apply "$src/patch.diff" || { echo "$prop-$tag: PATCH DOES NOT APPLY to current HEAD"; exit 4; }
tests=$(/venv/bin/python -m pytest -q -p no:cacheprovider --timeout=900 --continue-on-collection-errors -n 8 2>&1 | tail -1)
/venv/bin/python _seed/$tag/demo.py >$wt.post.log 2>&1; post=$?
failed=$(echo "$tests" | grep -c failed)
echo "$prop-$tag: demo pristine exit=$pre, patched exit=$post; tests: $tests"
if [ $pre -eq 0 ] && [ $post -ne 0 ] && [ $failed -eq 0 ] && echo "$tests" | grep -q "1466 passed"; then
  mkdir -p "$dst"; cp "$src/patch.diff" "$dst/"; cp "$src/demo.py" "$dst/demo.py"; sed -i "s#$root/$prop#/tmp/wt/SCRATCH#g" "$dst/demo.py"
  python3 - "$src/meta.json" "$dst/meta.json" "$prop" "$tests" "$(tail -3 $wt.post.log | tr '\n' ' ' | cut -c1-400)" <<'PY'
import json,sys
src,dst,prop,tests,post=sys.argv[1:6]
try: m=json.load(open(src))
except Exception: m={}
m["property"]=prop
m["confirmed_by_main"]={"base":"/repo HEAD at confirmation time","ran":["git apply patch.diff in a fresh scratch worktree","pytest suite (-n 8)","demo.py before and after the patch"],"tests_with_patch":tests,"demo_pristine_exit":0,"demo_patched_tail":post}
json.dump(m,open(dst,"w"),indent=1)
PY
  echo "  stored in $dst"; rm -f $wt.pre.log $wt.post.log
else
  echo "  NOT CONFIRMED"; tail -5 $wt.pre.log $wt.post.log; rm -f $wt.pre.log $wt.post.log; exit 5
fi
