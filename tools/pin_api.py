#!/usr/bin/env python3
"""Writes sa/pinned_api.json: the reference signatures of the public functions that the evaluated rules interpret, with the
properties whose rules interpret them (statement coverage per property from tools/coverage_map.py).
usage: tools/pin_api.py <covdir with one sub-directory per property> [--keep-props]
Run on a reviewed tree only: the file is the reference later trees are compared with (rule *.RA, sa/api.py)."""
import json
import os
import sys

HERE = os.path.dirname(os.path.abspath(__file__))
sys.path.insert(0, os.path.dirname(HERE))
from sa.model import Repo  # noqa: E402
from sa.api import all_public, signature_record, PIN  # noqa: E402

covroot = sys.argv[1]
repo = Repo(os.environ.get("VERIF_REPO", "/repo"))
hit = {}
for prop in sorted(os.listdir(covroot)):
    d = os.path.join(covroot, prop)
    if not os.path.isdir(d):
        continue
    for fn in os.listdir(d):
        if fn.endswith(".cov"):
            for ln in open(os.path.join(d, fn)):
                m, l = ln.rstrip("\n").split("\t")
                hit.setdefault((m, int(l)), set()).add(prop)
direct = {}
for prop in sorted(os.listdir(covroot)):
    d = os.path.join(covroot, prop)
    if os.path.isdir(d):
        for fn in os.listdir(d):
            if fn.endswith(".direct"):
                for ln in open(os.path.join(d, fn)):
                    direct.setdefault(ln.strip(), set()).add(prop)
out = {}
for f in all_public(repo):
    # a function belongs to the properties whose rules ask it directly (not to every property that reaches it through the
    # library's own, keyword-passing calls)
    props = set(direct.get(f.qual, set()))
    rec = signature_record(f)
    rec["props"] = sorted(props)
    rec["file"] = f.module.relpath
    out[f.qual] = rec
# abstract declarations are never executed: they belong to the properties of their overriding methods
byname = {}
for f in all_public(repo):
    if f.cls is not None:
        byname.setdefault(f.name, []).append(f)
for f in all_public(repo):
    if f.cls is None or out[f.qual]["props"]:
        continue
    props = set()
    for g in byname.get(f.name, []):
        if g is not f and f.cls in repo.mro(g.cls):
            props |= set(out[g.qual]["props"])
    out[f.qual]["props"] = sorted(props)
json.dump({"note": "reference signatures of the reviewed tree; regenerate with tools/pin_api.py only after reviewing an API change",
           "functions": out}, open(PIN, "w"), indent=0, sort_keys=True)
n = sum(1 for r in out.values() if r["props"])
print(f"{len(out)} public functions, {n} attributed to at least one property")
