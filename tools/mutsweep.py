#!/usr/bin/env python3
"""Development aid (not part of any registered check): automated sensitivity sweep of the rule set.

For a sample of small source mutations of /repo's package (comparison / arithmetic / boolean operator swaps, off-by-one
constants, start<->end, min<->max, PLUS<->MINUS, negated conditions, dropped statements ...):
  1. write the mutant to a scratch copy of /repo (never /repo itself),
  2. run the pinned test-suite on it; a mutant the tests kill is of no interest (the brief asks for changes the tests miss),
  3. run the checks whose evaluated rules reach the mutated line (per-property statement coverage from
     tools/coverage_map.py --per-prop) plus the checks whose anchors name the file,
  4. log the outcome.  Survivors (tests pass, every check quiet) are *candidates* for blind spots: each is triaged by
     reading - equivalent mutant, outside every property, or a genuine miss that needs a wider domain.

usage: tools/mutsweep.py --out DIR [--cov COVDIR] [--files a.py,b.py] [--n 200] [--seed 1] [--workers 4] [--jobs 4]
       tools/mutsweep.py --list --files ...        (just count candidate sites)
"""
import argparse
import ast
import copy
import json
import multiprocessing
import os
import random
import re
import shutil
import subprocess
import sys
import tempfile

HERE = os.path.dirname(os.path.abspath(__file__))
VERIF = os.path.dirname(HERE)
REPO = "/repo"
PKG = "inscripta/biocantor"

CMP_SWAP = {ast.Lt: ast.LtE, ast.LtE: ast.Lt, ast.Gt: ast.GtE, ast.GtE: ast.Gt, ast.Eq: ast.NotEq, ast.NotEq: ast.Eq,
            ast.Is: ast.IsNot, ast.IsNot: ast.Is, ast.In: ast.NotIn, ast.NotIn: ast.In}
BIN_SWAP = {ast.Add: ast.Sub, ast.Sub: ast.Add, ast.Mult: ast.FloorDiv, ast.FloorDiv: ast.Mult, ast.Mod: ast.FloorDiv,
            ast.LShift: ast.RShift, ast.RShift: ast.LShift, ast.BitOr: ast.BitAnd, ast.BitAnd: ast.BitOr}
NAME_SWAP = {"min": "max", "max": "min", "any": "all", "all": "any", "PLUS": "MINUS", "MINUS": "PLUS",
             "start": "end", "end": "start", "ZERO": "ONE", "ONE": "TWO", "TWO": "ZERO",
             "chunk_relative_location": "chromosome_location", "chromosome_location": "chunk_relative_location",
             "chunk_relative_start": "start", "chunk_relative_end": "end", "_start": "_end", "_end": "_start",
             "union": "union_preserve_overlaps", "union_preserve_overlaps": "union", "extend": "append",
             "sorted": "list", "reversed": "list", "has_overlap": "contains"}


def sites(tree, source):
    """yield (kind, node, replacement_source, description)"""
    parents = {}
    for p in ast.walk(tree):
        for c in ast.iter_child_nodes(p):
            parents[c] = p
    infunc = set()
    for f in ast.walk(tree):
        if isinstance(f, (ast.FunctionDef, ast.AsyncFunctionDef)):
            for n in ast.walk(f):
                infunc.add(n)
    for n in ast.walk(tree):
        if n not in infunc or not hasattr(n, "lineno"):
            continue
        if isinstance(n, ast.Compare):
            for i, op in enumerate(n.ops):
                if type(op) in CMP_SWAP:
                    m = copy.deepcopy(n)
                    m.ops[i] = CMP_SWAP[type(op)]()
                    yield ("cmp", n, ast.unparse(m), f"{type(op).__name__}->{CMP_SWAP[type(op)].__name__}")
        elif isinstance(n, ast.BinOp) and type(n.op) in BIN_SWAP:
            if isinstance(n.op, (ast.Mod, ast.Add)) and isinstance(n.left, ast.Constant) and isinstance(n.left.value, str):
                continue
            m = copy.deepcopy(n)
            m.op = BIN_SWAP[type(n.op)]()
            yield ("bin", n, ast.unparse(m), f"{type(n.op).__name__}->{BIN_SWAP[type(n.op)].__name__}")
        elif isinstance(n, ast.BoolOp):
            m = copy.deepcopy(n)
            m.op = ast.Or() if isinstance(n.op, ast.And) else ast.And()
            yield ("bool", n, ast.unparse(m), "and<->or")
        elif isinstance(n, ast.UnaryOp) and isinstance(n.op, ast.Not):
            yield ("not", n, "(" + ast.unparse(n.operand) + ")", "drop not")
        elif isinstance(n, ast.Constant) and not isinstance(parents.get(n), ast.Expr):
            if isinstance(n.value, bool):
                yield ("const", n, str(not n.value), f"{n.value}->{not n.value}")
            elif isinstance(n.value, int) and abs(n.value) <= 3:
                yield ("const", n, str(n.value + 1), f"{n.value}->{n.value + 1}")
                if n.value > 0:
                    yield ("const", n, str(n.value - 1), f"{n.value}->{n.value - 1}")
        elif isinstance(n, ast.Name) and n.id in NAME_SWAP and isinstance(n.ctx, ast.Load):
            yield ("name", n, NAME_SWAP[n.id], f"{n.id}->{NAME_SWAP[n.id]}")
        elif isinstance(n, ast.Attribute) and n.attr in NAME_SWAP and isinstance(n.ctx, ast.Load):
            m = copy.deepcopy(n)
            m.attr = NAME_SWAP[n.attr]
            yield ("attr", n, ast.unparse(m), f".{n.attr}->.{NAME_SWAP[n.attr]}")
        elif isinstance(n, (ast.If, ast.While)):
            yield ("negif", n.test, "not (" + ast.unparse(n.test) + ")", "negate condition")
        elif isinstance(n, ast.IfExp):
            yield ("negif", n.test, "not (" + ast.unparse(n.test) + ")", "negate conditional expression")
        elif isinstance(n, ast.Expr) and isinstance(n.value, ast.Call):
            yield ("drop", n, "pass", "drop call statement")
        elif isinstance(n, ast.AugAssign):
            yield ("drop", n, "pass", "drop augmented assignment")
        elif isinstance(n, ast.Slice):
            if n.upper is not None:
                m = copy.deepcopy(n)
                m.upper = ast.BinOp(left=m.upper, op=ast.Sub(), right=ast.Constant(1))
                yield ("slice", n, ast.unparse(m), "slice upper-1")
            if n.lower is not None:
                m = copy.deepcopy(n)
                m.lower = ast.BinOp(left=m.lower, op=ast.Add(), right=ast.Constant(1))
                yield ("slice", n, ast.unparse(m), "slice lower+1")
        elif isinstance(n, ast.Return) and n.value is not None and isinstance(n.value, (ast.Name, ast.Attribute, ast.Call)) \
                and isinstance(parents.get(n), (ast.If,)):
            pass
        elif isinstance(n, ast.keyword) and n.arg is not None and isinstance(parents.get(n), ast.Call) and \
                not isinstance(n.value, ast.Constant):
            pass


def apply_edit(source, node, new):
    lines = source.split("\n")
    l0, c0, l1, c1 = node.lineno - 1, node.col_offset, node.end_lineno - 1, node.end_col_offset
    # col offsets are utf8 byte offsets; the package is ascii except a few docstrings: convert per line
    def bcol(line, col):
        return len(line.encode("utf8")[:col].decode("utf8", "ignore"))
    pre = lines[l0][: bcol(lines[l0], c0)]
    post = lines[l1][bcol(lines[l1], c1):]
    lines[l0: l1 + 1] = [pre + new + post]
    return "\n".join(lines)


def enclosing_function(tree, lineno):
    best = None
    for f in ast.walk(tree):
        if isinstance(f, (ast.FunctionDef, ast.AsyncFunctionDef)) and f.lineno <= lineno <= f.end_lineno:
            if best is None or f.lineno > best.lineno:
                best = f
    return best.name if best else "?"


def all_mutants(files):
    out = []
    for rel in files:
        src = open(os.path.join(REPO, rel)).read()
        tree = ast.parse(src)
        seen = set()
        for kind, node, new, desc in sites(tree, src):
            old = ast.get_source_segment(src, node)
            if old is None or old == new:
                continue
            key = (node.lineno, node.col_offset, node.end_lineno, node.end_col_offset, new)
            if key in seen:
                continue
            seen.add(key)
            out.append(dict(file=rel, line=node.lineno, col=node.col_offset, end_line=node.end_lineno,
                            end_col=node.end_col_offset, kind=kind, desc=desc, old=old, new=new,
                            func=enclosing_function(tree, node.lineno)))
    return out


class _Span:
    def __init__(self, d):
        self.lineno, self.col_offset, self.end_lineno, self.end_col_offset = d["line"], d["col"], d["end_line"], d["end_col"]


def load_cov(covroot):
    """covroot/<prop>/*.cov -> {(module, line): set(props)}"""
    m = {}
    if not covroot or not os.path.isdir(covroot):
        return m
    for prop in os.listdir(covroot):
        d = os.path.join(covroot, prop)
        if not os.path.isdir(d):
            continue
        for fn in os.listdir(d):
            if fn.endswith(".cov"):
                for ln in open(os.path.join(d, fn)):
                    mod, l = ln.rstrip("\n").split("\t")
                    m.setdefault((mod, int(l)), set()).add(prop)
    return m


def anchored_props():
    m = {}
    for line in open(os.path.join(VERIF, "properties.jsonl")):
        d = json.loads(line)
        for f in d["anchors"]["files"]:
            m.setdefault(f, set()).add(d["id"])
    return m


def mod_of(rel):
    m = rel[len(PKG) + 1: -3].replace("/", ".")
    return m[: -len(".__init__")] if m.endswith(".__init__") else m


_W = {}


def run_one(mu):
    tmp = tempfile.mkdtemp(prefix="mutsweep.", dir="/dev/shm")
    try:
        repo = os.path.join(tmp, "repo")
        os.makedirs(repo)
        subprocess.run(f"git -C {REPO} archive HEAD | tar -x -C {repo}", shell=True, check=True)
        p = os.path.join(repo, mu["file"])
        src = open(p).read()
        new_src = apply_edit(src, _Span(mu), mu["new"])
        try:
            compile(new_src, p, "exec")
        except SyntaxError as e:
            return dict(mu, outcome="nocompile", detail=str(e))
        open(p, "w").write(new_src)
        t = subprocess.run(["/venv/bin/python", "-m", "pytest", "-q", "-p", "no:cacheprovider", "--timeout=300",
                            "--continue-on-collection-errors", "-n", str(_W["tjobs"])], cwd=repo, capture_output=True, text=True)
        tail = t.stdout.strip().splitlines()[-1] if t.stdout.strip() else ""
        if "1466 passed" not in tail or "failed" in tail:
            return dict(mu, outcome="tests-kill", detail=tail[:200])
        props = sorted(_W["cov"].get((mod_of(mu["file"]), mu["line"]), set()) | _W["anch"].get(mu["file"], set()))
        reached = sorted(_W["cov"].get((mod_of(mu["file"]), mu["line"]), set()))
        res = {}
        caught = []
        env = dict(os.environ, VERIF_REPO=repo, VERIF_EVIDENCE_DIR=os.path.join(tmp, "ev"), VERIF_JOBS=str(_W["jobs"]))
        env.pop("VERIF_COV", None)
        # reached properties first; stop at the first that reports
        order = reached + [x for x in props if x not in reached]
        for pr in order:
            c = subprocess.run([os.path.join(VERIF, "check"), pr, "--tier", "quick"], env=env, capture_output=True, text=True)
            res[pr] = c.returncode
            if c.returncode == 1:
                caught.append(pr)
                if not _W["allprops"]:
                    break
            elif c.returncode == 2:
                lines = [l for l in c.stdout.splitlines() if "ANALYSIS-ERROR" in l or "undecided" in l][:3]
                res[pr + ":err"] = " | ".join(lines)[:400]
        if caught:
            return dict(mu, outcome="caught", by=caught, reached=reached, res=res)
        if any(v == 2 for v in res.values() if isinstance(v, int)):
            return dict(mu, outcome="exit2", reached=reached, res=res)
        return dict(mu, outcome="SURVIVED", reached=reached, res=res)
    except Exception as e:  # noqa
        return dict(mu, outcome="error", detail=f"{type(e).__name__}: {e}")
    finally:
        shutil.rmtree(tmp, ignore_errors=True)


def main():
    ap = argparse.ArgumentParser()
    ap.add_argument("--out")
    ap.add_argument("--cov")
    ap.add_argument("--files")
    ap.add_argument("--n", type=int, default=100)
    ap.add_argument("--seed", type=int, default=1)
    ap.add_argument("--workers", type=int, default=4)
    ap.add_argument("--jobs", type=int, default=4)
    ap.add_argument("--tjobs", type=int, default=2)
    ap.add_argument("--list", action="store_true")
    ap.add_argument("--allprops", action="store_true")
    ap.add_argument("--only-reached", action="store_true")
    ap.add_argument("--kinds")
    ap.add_argument("--funcs")
    a = ap.parse_args()
    anch = anchored_props()
    files = a.files.split(",") if a.files else sorted(f for f in anch if f.endswith(".py"))
    files = [f if f.startswith("inscripta") else f"{PKG}/{f}" for f in files]
    mus = all_mutants(files)
    if a.kinds:
        mus = [m for m in mus if m["kind"] in a.kinds.split(",")]
    if a.funcs:
        mus = [m for m in mus if m["func"] in a.funcs.split(",")]
    cov = load_cov(a.cov)
    if a.only_reached:
        mus = [m for m in mus if (mod_of(m["file"]), m["line"]) in cov]
    if a.list:
        from collections import Counter
        c = Counter(m["file"] for m in mus)
        for f, n in sorted(c.items()):
            print(f"{n:6d} {f}")
        print(len(mus), "candidate mutants")
        return
    rnd = random.Random(a.seed)
    rnd.shuffle(mus)
    done = set()
    os.makedirs(a.out, exist_ok=True)
    logp = os.path.join(a.out, "log.jsonl")
    if os.path.exists(logp):
        for ln in open(logp):
            d = json.loads(ln)
            done.add((d["file"], d["line"], d["col"], d["new"]))
    mus = [m for m in mus if (m["file"], m["line"], m["col"], m["new"]) not in done][: a.n]
    _W.update(cov=cov, anch=anch, jobs=a.jobs, tjobs=a.tjobs, allprops=a.allprops)
    ctx = multiprocessing.get_context("fork")
    with ctx.Pool(a.workers) as pool, open(logp, "a") as log:
        for r in pool.imap_unordered(run_one, mus):
            log.write(json.dumps(r) + "\n")
            log.flush()
            print(f"{r['outcome']:10s} {r['file'].split('/')[-1]}:{r['line']} {r['func']} [{r['desc']}] {r.get('by', '')}", flush=True)


if __name__ == "__main__":
    main()
