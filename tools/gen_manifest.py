#!/usr/bin/env python3
"""Regenerates /verif/MANIFEST.json from the per-property table below (only properties whose rule module exists
are claimed; the others are listed under not_applicable until their rules land)."""
import json
import os

HERE = os.path.dirname(os.path.dirname(os.path.abspath(__file__)))

CHECKS = {
    "C15": dict(
        technique="constant folding of the tables from the AST + abstract interpretation of the table-driven "
                  "functions over their complete finite domains + mod-3 affine normal form for CDSFrame.shift",
        text="Complete for the finite domains the property names: every table row is compared with reference tables "
             "embedded in the checker, and every table-driven function is interpreted by the analyser on every element "
             "of its domain (64 codons, 4096 IUPAC triplets, all letters/cases, frames x shifts, strand pairs). "
             "A static decision over a finite domain; no repository code is executed.",
        note="Trusted: CPython ast; the analyser's interpreter (sa/interp.py); the embedded reference tables (standard "
             "code in TCAG order, IUPAC expansion/complement, NCBI start codons of tables 1 and 11). U is identified "
             "with T for the involution clause (U->A->T is what the IUPAC complement does).",
        design="DESIGN.md section 4, C15",
    ),
}

NOT_YET = "rules for this property are not implemented in this commit (see DESIGN.md section 6b for the order)"


def main():
    checks, na = [], []
    for i in range(1, 21):
        pid = f"C{i:02d}"
        have = os.path.exists(os.path.join(HERE, "sa", "rules", f"{pid.lower()}.py"))
        if have and pid in CHECKS:
            c = CHECKS[pid]
            checks.append(dict(
                property_id=pid,
                quick_cmd=f"./check {pid} --tier quick",
                thorough_cmd=f"./check {pid} --tier thorough",
                evidence_file=f"/verif/evidence/{pid}.json",
                replay_cmd_template="./check --replay {path}",
                engine="sa",
                level_claimed=dict(category="other", text=c["text"], design_ref=c["design"]),
                level_note=c["note"],
                technique=c["technique"],
            ))
        else:
            na.append(dict(property_id=pid, reason=c_reason(pid)))
    man = dict(
        version=1,
        setup_cmd="./check --selftest",
        hooks=dict(
            guard="INSCRIPTALABS_BIOCANTOR_VERIF",
            enable="none needed: the checks parse /repo's working tree and never import or instrument it",
            baseline_off_cmd="cd /repo && /venv/bin/python -m pytest -ra -q -p no:cacheprovider --timeout=900 "
                             "--continue-on-collection-errors",
            source_commits=[],
            add_only=True,
        ),
        engines=[dict(name="sa", path="/verif/sa", serves_properties=[c["property_id"] for c in checks],
                      kind_free_text="repository-specific static analysis over the Python AST: program model, "
                                     "constant folding, order-type/affine/mod-3 abstract domains, structured "
                                     "dominance facts, effect and taint rules, reader/writer agreement extractors")],
        checks=checks,
        notes="All checks are static: they parse $VERIF_REPO (default /repo) at run time with the stdlib ast module. "
              "Exit 0 held / only known findings; 1 VIOLATION; 2 ANALYSIS-ERROR. Known findings: /verif/known_findings.txt.",
        not_applicable=na,
    )
    with open(os.path.join(HERE, "MANIFEST.json"), "w") as fh:
        json.dump(man, fh, indent=1)
    print(f"claimed {len(checks)}; not_applicable {len(na)}")


NA_REASONS = {}


def c_reason(pid):
    return NA_REASONS.get(pid, NOT_YET)


if __name__ == "__main__":
    main()
