#!/usr/bin/env python3
"""Regenerates /verif/MANIFEST.json from the per-property table below (only properties whose rule module exists
are claimed; the others are listed under not_applicable until their rules land)."""
import json
import os

HERE = os.path.dirname(os.path.dirname(os.path.abspath(__file__)))

IT = ("abstract interpretation of the repository source by the analyser's own evaluator (sa/interp.py; nothing is "
      "imported or executed by Python) ")

CHECKS = {
    "C01": dict(
        technique="affine normal forms of the single-block maps per strand path (all integers) + order-type "
                  "enumeration of block layouts interpreted by the analyser against a base-enumeration oracle",
        text="Single-block point/interval maps are decided for all integers by affine normal forms against the 5'->3' "
             "enumeration oracle. Multi-block maps (parent<->relative positions, relative intervals with every relative "
             "strand, parent intervals to relative locations) are interpreted by the analyser on one representative of "
             "every order type of 1-2 block layouts (3 in thorough: empty, adjacent, overlapping blocks, both strands, "
             "every position and sub-interval) and compared with the oracle. This is a static decision of the kernels "
             "on a finite abstract domain, not a proof of the block-walk loops for arbitrary block counts."
             " Added: relative-location form with multi-block queries (every query of 1-3 blocks over the reference span, both entry points, both optimize_blocks values) and scan_windows (C01.R5); maps of reverse_strand()/reset_strand() results derived from an object whose lazily built parts already exist. The affine rule C01.R1 is a strengthening-only rule (adds the all-integers argument when the source form is recognised, never alarms).",
        note="Trusted: CPython ast, sa/interp.py, the enumeration oracle in sa/rules/c01.py. Representatives use "
             "non-uniform (triangular) spacing so that mirror-symmetric layouts do not hide errors. Layouts with more "
             "blocks than enumerated are not decided.",
        design="DESIGN.md section 4, C01",
    ),
    "C02": dict(
        technique="order-type abstract interpretation of the set-algebra kernels (all weak orderings of the operand "
                  "bounds x strands x flags) against the position-set oracle",
        text="has_overlap / intersection / union / minus / contains / compare and the compound normalisation kernels "
             "(optimize_blocks, optimize_and_combine_blocks, is_overlapping, is_contiguous, gap_list, merge_overlapping, "
             "constructor sort) are interpreted by the analyser on every weak ordering of the operand bounds under the "
             "class invariants (single x single, 2-block compound x single both ways, 2x2 blocks; 3 blocks in thorough), "
             "every strand pair and flag combination, and compared with position-set semantics and the structural "
             "well-formedness of every returned location. For comparison-only kernels (checked syntactically) this is "
             "exhaustive for all integers."
             " Added: three-block receivers against 1-3-block arguments as all pairs of position sets over a small universe, and closest-block distance in both receiver orders over a wider universe (C02.R6); derived operations extend/shift/reverse/reset_strand/gaps_location/distance_to on all order types (C02.R5); _EmptyLocation identities (C02.R4)."
             " The optional interval-index branch of the compound x compound intersection (cgranges, not installed here) is followed through a native model of the index (C02.R7).",
        note="Trusted: CPython ast, sa/interp.py, the oracle in sa/rules/c02.py. Not decided: operands with more blocks "
             "than enumerated; the real cgranges library (its branch is followed through a native model of the index), parents.",
        design="DESIGN.md section 4, C02",
    ),
    "C03": dict(
        technique="interpretation of extract_sequence / Sequence.__getitem__ / reverse_complement / append on order "
                  "types of block layouts against the base-image oracle + structural slice/complement discipline",
        text="For every order type of 1-2 block layouts (3 in thorough), both strands, over a genome containing every "
             "letter of NT_EXTENDED_GAPPED in both cases, the analyser interprets extraction, strand reversal, splitting "
             "into relative sub-intervals and the derived-sequence operations (all slice bound forms, reverse complement, "
             "append) and compares with the image oracle; a derived sequence's recorded location must spell its characters."
             " Unstranded locations must be refused. The literal-slice rule C03.R1 only writes a note (all-integers strengthening)."
             " Extraction is asked twice on the same object and of the blocks after the whole was extracted.",
        note="Trusted: CPython ast, sa/interp.py (Bio.Seq is modelled as str), IUPAC tables of C15. U is identified with T "
             "for complement round trips. Other alphabets' tables are decided in C15.",
        design="DESIGN.md section 4, C03",
    ),
    "C04": dict(
        technique="interpretation of the lift-over API on enumerated hierarchies (depth 1-3, single/multi-block levels on "
                  "either strand) and chunk windows against base-by-base composition",
        text="Hierarchies chromosome <- level-1 <- level-2 are built inside the analyser's interpreter; every small child "
             "location is lifted by type and by sequence and compared with the composed enumeration, composed strand, "
             "ancestor parent and preserved sequence; refusals (missing ancestor, non-contiguous) are checked; "
             "liftover_location_to_seq_chunk_parent is compared with 'the part inside the chunk' for every window "
             "(block structure retained, EmptyLocation outside)."
             " Added: the same hierarchies given as an explicit Parent chain whose Sequence objects carry no / a naming-only / a shallow parent; chunk-to-chunk re-lifts (same window on the opposite strand, shifted window); refusal of incomplete hierarchies by interpretation (C04.R1).",
        note="Trusted: CPython ast, sa/interp.py. Depth and layouts are bounded as stated.",
        design="DESIGN.md section 4, C04",
    ),
    "C05": dict(
        technique="interpretation of CDSInterval against a reference reading-frame walker for every frame vector on "
                  "enumerated exon layouts; shift/phase algebra decided mod 3 (shared with C15)",
        text="For every order type of 1-2 exon layouts (3 in thorough, 0-bp gaps included), both strands and every frame "
             "vector in {0,1,2}^k the analyser interprets codon locations, coding sequence (value and type, before and after "
             "the codon cache is filled), translation per table, num_codons, stop detection and chromosome windows, and "
             "compares with a walker written from the property statement; construct_frames_from_location is checked to "
             "describe one uninterrupted frame."
             " Added: designed coding sequences with every initiator of any table as first codon under every table and with the table omitted, repeated initiators downstream (C05.RT); chunk_relative_frames values on plus- and minus-strand chunks (C05.RC).",
        note="Trusted: CPython ast, sa/interp.py, the walker in sa/rules/c05.py, tables of C15. One known finding "
             "(single-exon window offset).",
        design="DESIGN.md section 4, C05",
    ),
    "C07": dict(
        technique="interpretation of chromosome-built and chunk-built twins (CDS, transcript, feature) for every chunk "
                  "window + structural source check of identifier digests",
        text="Twins are built on the whole chromosome and on every chunk window inside the analyser's interpreter: "
             "chromosome-level answers must be identical, the chunk-relative location/sequence/codons must be the "
             "chromosome answers restricted to the chunk, and an interval outside the chunk must be empty. Digest call "
             "sites are checked not to read chunk-relative accessors."
             " Added: coding transcripts in the twin comparison, minus-strand chunks for CDS twins, chunk_relative_frames values, and identifier equality of chunk-built and chromosome-built twins for all seven classes by interpretation (C07.RG; four known findings).",
        note="Trusted: CPython ast, sa/interp.py, reference walker of C05. Known findings: single-exon codon offset, "
             "stand-alone CDS outside the chunk, collection-level digests of the chunk-relative location.",
        design="DESIGN.md section 4, C07",
    ),
    "C06": dict(
        technique="structural wiring table of the 35 coordinate wrappers + guard dominance for the optional CDS + "
                  "interpretation of the coordinate API on every CDS placement over small exon layouts",
        text="R1-R3 decide, structurally, that each wrapper resolves to the Location method, coordinate system and object "
             "its name encodes, that cds<->transcript conversions use one genomic leg each way and that every use of the "
             "optional CDS is guarded. RK interprets TranscriptInterval construction and its coordinate API for every CDS "
             "placement on every order type of 1-2 exon layouts (3 in thorough), both strands, against a base-enumeration "
             "oracle: commutation, inverses, rejection, aa index, UTR/CDS partition, introns, empty UTRs."
             " Added: every <src>_(pos|interval)_to_<dst> wrapper found by name is interpreted over its whole small domain on parent-less, chromosome and offset-chunk objects (C06.RW); start frames 0/1/2 in RK; non-coding transcripts through every method that touches the optional CDS (C06.R3i). The structural wiring / composition / guard-dominance rules are strengthening-only (never alarm).",
        note="Trusted: CPython ast, sa/interp.py, oracle in sa/rules/c06.py. digest_object is hooked out (identifiers are "
             "C08). Chunk-cut transcripts and larger layouts are not decided.",
        design="DESIGN.md section 4, C06",
    ),
    "C08": dict(
        technique="interpretation of dictionary / data-model / pickle round trips and of the library's own digest_object "
                  "under permuted insertion orders + structural to_dict-key vs model-field agreement",
        text="to_dict->from_dict, schema load (modelled: unknown key rejected, enums by name, nested models)->Model.to_<object>, "
             "and __getstate__->__setstate__ are interpreted for every interval/collection class on no parent, chromosome "
             "and chunk (also with completely_within set); the dictionary form must be reproduced. digest_object is "
             "interpreted: guid invariant under every rotation/reversal of qualifier key and value insertion order (incl. "
             "case-twin keys), sensitive to coordinates, strand, frames, qualifier values. Structural: to_dict keys are "
             "model fields and every model field is forwarded."
             " Added: value-less qualifier flags at every level, comparison of the re-built object's qualifiers and guid, hash-order taint for lists built from sets reaching a digest, to_dict keys compared with the model fields by interpretation (C08.R2).",
        note="Trusted: CPython ast, sa/interp.py (hashlib/uuid run natively), the marshmallow-dataclass load model stated "
             "above. Hash-seed independence follows because the interpreter rejects str() of a multi-element set. One known "
             "finding (VariantInterval 'guid' key).",
        design="DESIGN.md section 4, C08",
    ),
    "C09": dict(
        technique="interpretation of position and identifier queries against a coordinate oracle over cut points at member "
                  "bounds and bin boundaries + structural interface completeness of the child union",
        text="query_by_position (all flag combinations; ranges at member bounds, 0, collection bounds, across 128 kb bin "
             "boundaries; collections with and without sequence) and all GUID / identifier queries (all small subsets) are "
             "interpreted and compared with a coordinate oracle: exact membership, documented bounds, retained member "
             "dictionaries, member sequences restricted to the new bounds, InvalidQueryError for invalid ranges. Attribute "
             "reads on union members are checked against every member class."
             " Added: the small collection on a sequence chunk and on a chunk with declared bounds wider than the chunk, a variant collection among the members."
             " The optional interval-index implementation of the position query is followed through a native model of cgranges (C09.RX).",
        note="Trusted: CPython ast, sa/interp.py, the native model of the cgranges index (add / index / overlap on half-open intervals, results in ascending start order).",
        design="DESIGN.md section 4, C09",
    ),
    "C10": dict(
        technique="interpretation of operation histories on separately built twins (answers and recursive operand state "
                  "compared) + structural memoisation-key and identity-comparison rules",
        text="For locations, sequences, transcripts, CDSs, features, genes, feature collections and annotation collections "
             "(chromosome and chunk parents) every public zero-argument accessor and a list of binary/export operations are "
             "interpreted in forward and reverse order; every answer (value and type) must equal a fresh twin's and the "
             "recursive non-memo state of operands and arguments must be unchanged. Structural: every constructor field of "
             "the lru_cache'd Parent is hashed; key classes hash what they compare; no identity comparison on cached objects."
             " Added: construction of a container around existing children leaves them unchanged (C10.RC); module-level and class-level containers keep their contents between interpreted calls, so caches with incomplete keys show up as history dependence.",
        note="Trusted: CPython ast, sa/interp.py (cached properties are memoised per object as methodtools does; "
             "functools.lru_cache eviction itself is trusted). Histories are the enumerated orders, not all permutations.",
        design="DESIGN.md section 4, C10",
    ),
    "C11": dict(
        technique="interpretation of the GFF3 writers; the produced text is decoded by an independent reader in the checker "
                  "and compared with an oracle built from the constructor arguments; constant folding of the escape tables",
        text="AnnotationCollection.to_gff / collection_to_gff3 / GFFRow / GFFAttributes are interpreted for generated "
             "collections with special characters in keys and values, on chromosome and chunk, both modes: nine columns, "
             "1-based inclusive coordinates of the source blocks, strand, phase only on CDS rows and frame-derived, unique "
             "IDs, Parent defined earlier, rows ordered by start, exact attribute sets per row, reserved keys refused or "
             "dropped, repeatable export, header/FASTA layout. Escape tables decided by constant folding."
             " Added: re-parse leg - the exported text is loaded into a native model of the gffutils database and the library's own _parse_genes is interpreted on it (C11.RP; one known finding).",
        note="Trusted: CPython ast, sa/interp.py (re runs natively), the decoder in sa/rules/c11.py. The re-parse leg through "
             "gffutils is not decided (third-party reader).",
        design="DESIGN.md section 4, C11",
    ),
    "C12": dict(
        technique="interpretation of the GenBank writer's record construction (Biopython records modelled as plain data) + "
                  "structural writer/parser agreement of feature-type tables, qualifier keys and parse pipelines",
        text="gene_to_feature / transcripts_to_feature / add_cds_feature / feature_intervals_to_features and "
             "Location.to_biopython are interpreted for generated gene models x flavour x update_translations: record types per "
             "flavour, locations with exactly the source blocks and strand, identifiers in qualifiers, /translation equal to the "
             "reference translation under the flavour's table. Structural: GENBANK_GENE_FEATURES vs enums, keys the parser "
             "reads for the recovered attributes vs keys the writer stores, identical stages of the three parse() pipelines."
             " Added: a second export of the same models on another sequence in the same interpreter must show that sequence's proteins."
             " Added: re-parse leg (C12.RP) - the written records, normalised to what Biopython hands back, are given to the library's own Sorted / LocusTag / Hybrid parser classes interpreted up to GeneFeature.to_gene_model; recovered structure, strand, identifiers and frames are compared with the models and the three modes must agree.",
        note="Trusted: CPython ast, sa/interp.py, the Biopython record model in sa/rules/c12.py. SeqIO's file syntax and reader are "
             "third-party and not analysed, so the file round trip and parser-mode agreement on content are not decided. Known "
             "finding: /codon_start is never written.",
        design="DESIGN.md section 4, C12",
    ),
    "C13": dict(
        technique="interpretation of variant application and incorporate_variants against a literal string-editing oracle + "
                  "structural groupby-sortedness of the VCF reader",
        text="alternative_genomic_sequence (single variant and collections of 1-3 variants: SNV / insertion / deletion, padded, "
             "unpadded, flush with block boundaries), parent_with_alternative_sequence and incorporate_variants on features / "
             "transcripts (single / multi-block, both strands) are interpreted on chromosome and offset chunk and compared with "
             "literal substitution; dictionary round trips keep the parent; VCF grouping is checked structurally."
             " Added: coding transcripts after length-preserving edits keep their reading frame (C13.RC; found and repaired a minus-strand defect); alternative_haplotype_mapping on the pure-Python and on the interval-index branch (C13.RM)."
             " The VCF grouping is decided by interpreting convert_vcf_records_to_model on modelled records in several orders (C13.R4; known finding).",
        note="Trusted: CPython ast, sa/interp.py, oracle in sa/rules/c13.py. The vcf package is absent, the VCF reader is only "
             "analysed structurally. Known findings: sequential lift-over with several length-changing variants; unsorted "
             "CHROM grouping.",
        design="DESIGN.md section 4, C13",
    ),
    "C17": dict(
        technique="interpretation of collection_to_tbl (random replaced by a seeded stand-in); text parsed by an independent "
                  "5-column reader and compared with an oracle from model and genome",
        text="For generated collections x flavour x translation table the .tbl text is produced by interpretation and parsed: "
             "header, feature sequence per flavour, merged source blocks as 1-based inclusive intervals 5'->3', '<' / '>' marks, "
             "codon_start, pseudo, unique stepping locus tags, identical output for equal seeds (0 included)."
             " Added: reproducibility with generated locus-tag prefix / lab name and a disturbed process-wide generator.",
        note="Trusted: CPython ast, sa/interp.py, reference walker of C05, parser in sa/rules/c17.py.",
        design="DESIGN.md section 4, C17",
    ),
    "C18": dict(
        technique="interpretation of extract_feature_name_id on every small subset and ordering of recognised keys + "
                  "enum/set/regex agreement + interprocedural sortedness of the locus-tag groupby input",
        text="extract_feature_name_id is interpreted for all subsets (<= 3) of the nine recognised keys in every order and three "
             "spellings with look-alike keys interleaved; extract_feature_types and merge_qualifiers against set semantics; "
             "tables: lower-cased member names = literal sets = anchored IGNORECASE alternatives, distinct priorities; the "
             "locus-tag groupby consumes lists that every store fills sorted by locus tag (or order-preserving filters)."
             " Added: interval-level merge (_merge_qualifiers / export_qualifiers with parent qualifiers) as key-wise union with unchanged inputs (C18.R5)."
             " Record-order independence is decided by interpretation: the written GenBank records in other orders through the locus-tag and hybrid parser classes (C18.R4).",
        note="Trusted: CPython ast, sa/interp.py. Whole-record permutation invariance of GenBank parses (Biopython objects) is "
             "not decided beyond the sortedness rule. Known finding: rank-0 truthiness.",
        design="DESIGN.md section 4, C18",
    ),
    "C19": dict(
        technique="interpretation of ~80 systematically corrupted constructions / operations (outcome must be a documented "
                  "exception, siblings alike) + structural raise discipline, recursion audit and optional-attribute guards",
        text="Every enumerated corruption (coordinates, counts, frames, parents, alphabets, variants, duplicates, empties, "
             "undirected strands, window arguments) must end in a BioCantorException subclass / ValueError / TypeError, never in "
             "an object or an internal error; all raise sites use documented classes; self-recursive functions are classified "
             "(data-sized recursion is reported); optional constructor attributes guarded consistently."
             " Added: shifts past the parent sequence on nested layouts; malformed codons constructed twice.",
        note="Trusted: CPython ast, sa/interp.py. A general may-raise analysis is out of reach: only the enumerated corruptions "
             "and the named structural sources of internal errors are decided.",
        design="DESIGN.md section 4, C19",
    ),
    "C20": dict(
        technique="interpretation of gene / feature-collection / annotation-collection aggregates against an integer oracle",
        text="Generated child sets (1-3 members, strand mix, coding mix, primary flags none/one/two, ties in CDS and spliced "
             "length, with and without gene_type; no parent / chromosome / offset chunk) are built by interpretation: span, "
             "is_coding, feature_types, primary member and its accessors, merged transcript / CDS / feature blocks (also "
             "chunk-relative), children order and inferred bounds are compared with the oracle."
             " Added: a second gene built around the same transcript objects infers its primary member from its own children only.",
        note="Trusted: CPython ast, sa/interp.py. Known findings: merging children on both strands raises ValueError.",
        design="DESIGN.md section 4, C20",
    ),
    "C14": dict(
        technique="interpretation of to_bed12 and BED12.__str__; text decoded by an independent 12-column reader",
        text="For every enumerated transcript (coding placements, non-coding) and feature, both strands, chromosome and chunk "
             "parents and both coordinate modes the BED12 text is produced by interpretation and decoded: format invariants "
             "and decoded blocks / strand / name / CDS bounds must equal the exported ones in the mode's coordinates."
             " Every mode is exported again on the same object (single-use generators are modelled).",
        note="Trusted: CPython ast, sa/interp.py, decoder in sa/rules/c14.py.",
        design="DESIGN.md section 4, C14",
    ),
    "C16": dict(
        technique="interpretation of bins() on bands around every bin boundary against a geometric model + structural "
                  "call-site convention, non-interference and constant rules",
        text="bins() is interpreted for every (start,end) pair of band points around each boundary of each level, both "
             "formats and modes; the single bin must be the smallest containing bin and every query's bin set must contain "
             "the assigned bin of every contained or overlapping interval (checked exhaustively over the band pairs). "
             "Structural rules extend this to all coordinates: same fmt and own chromosome (start,end) at every stored-bin "
             "site, one=False at the query site, start/stop arithmetic independent of `one`, strict-mode-only pre-filter, "
             "constant relations; chunk-built twins with large offsets store the chromosome bin."
             " The call-site rules are decided by interpretation: every class that assigns self.bin is constructed at bin-boundary layouts without parent and on an offset chunk (C16.R1); strict and relaxed range queries at bin-boundary coordinates (C16.R3).",
        note="Trusted: CPython ast, sa/interp.py, monotonicity of x -> (x-c)>>k. Identity with kent's numbering is not "
             "decided (gffutils offsets, inclusive stop).",
        design="DESIGN.md section 4, C16",
    ),
    "C15": dict(
        technique="constant folding of the tables from the AST + abstract interpretation of the table-driven "
                  "functions over their complete finite domains + mod-3 affine normal form for CDSFrame.shift",
        text="Complete for the finite domains the property names: every table row is compared with reference tables "
             "embedded in the checker, and every table-driven function is interpreted by the analyser on every element "
             "of its domain (64 codons, 4096 IUPAC triplets, all letters/cases, frames x shifts, strand pairs). "
             "A static decision over a finite domain; no repository code is executed."
             " Added: codons are constructed through the library's own __new__/__init__; interned codons keep their answers whatever other spellings are constructed, refused spellings are refused every time (C15.R3c); CDSInterval.translate uses exactly the start set of the table it is given (C15.R8).",
        note="Trusted: CPython ast; the analyser's interpreter (sa/interp.py); the embedded reference tables (standard "
             "code in TCAG order, IUPAC expansion/complement, NCBI start codons of tables 1 and 11). U is identified "
             "with T for the involution clause (U->A->T is what the IUPAC complement does).",
        design="DESIGN.md section 4, C15",
    ),
}

# coverage added in the third round (appended to the level text of the property)
ROUND3 = {
    "C01": "On overlapping blocks the order of the bases is compared as well (one known finding).",
    "C02": "Operands located in coordinate systems (same / different chunk of one chromosome, different grandparents): parent refusals and answers of every binary operation (C02.R8).",
    "C03": "Slices and repeated extraction on sequences whose location has overlapping blocks; appends of operands that are themselves appended across a gap.",
    "C05": "Exons shorter than a codon (1-2 bases; first, inner, last) under every frame vector.",
    "C06": "Coordinate API also on 3- and 4-exon transcripts.",
    "C07": "Multi-exon layouts with exons entirely 5' of the chunk, gene-level twins; a chunk holding CDS bases but no complete codon must answer with no codons.",
    "C08": "Explicit parent argument overrides an embedded parent; collection guid sensitive to variant members; digest arguments kept apart (one known finding).",
    "C09": "Expansion past either edge of a sequence-carrying collection refused; members reaching the chunk's last base; feature sequences; ranges wholly beyond the chunk.",
    "C10": "Repeatable outcomes (C10.RR): the same call, import or __setstate__ twice gives the same value or refusal and leaves its arguments unchanged.",
    "C11": "Export on cutting chunks (C11.RC) and with one-shot iterables.",
    "C12": "Multi-isoform non-coding genes (feature key per transcript).",
    "C13": "Coding incorporation also on chunks cutting the CDS 5' end.",
    "C14": "Alternate constructors give the same records; names with blanks survive.",
    "C15": "reverse_complement is letter-wise (C15.R4b).",
    "C16": "Query sets for ranges reaching beyond 2^29; a gene's bin comes from its own span when isoforms sit in sibling bins.",
    "C17": "Several collections in one export (running locus-tag offset); /pseudo from any isoform.",
    "C18": "Merge values of different lengths stay in plain sorted order.",
    "C19": "Objects built at extreme coordinates (up to and at 2^29) are well formed (C19.RB); distance_to refusals across parents.",
    "C20": "Members large enough to overflow a packed ranking key.",
}

# coverage added in the fourth round
RA = ("Calling conventions (Cnn.RA, exact and syntactic): the public functions these rules ask directly keep positional order, "
      "parameter names and default values of the reference signatures (sa/pinned_api.json, reviewed tree), and overriding "
      "methods agree with the declaration they override.")
ROUND4 = {
    "C01": "Feature-level interval wrappers are asked with unstranded queries too; records held in native containers compare through the interpreted __eq__.",
    "C02": "Parents without an id (typed / sequence-only) against parent-less operands (C02.R8); unstranded gaps (finding fixed).",
    "C03": "Every integer index -L..L-1 of a located sequence.",
    "C04": "Levels whose placement carries its own parent handle (io.parser shape) with the lifted location's sequence; the round trip chromosome -> chunk -> chromosome through an interval object, incl. chunks that miss it.",
    "C05": "-",
    "C06": "-",
    "C07": "Chromosome-level answers re-asked after the chunk-relative ones exist on the same object; is_coding / cds_size / cds_start / cds_end / cds_blocks of coding transcripts on chunks holding only UTR, intron or nothing.",
    "C08": "CDS built from phases (documented alternative input) has the guid of the same CDS built from frames, also after a dictionary round trip.",
    "C09": "Soft-masked (lower-case) genome: result sequences are the source's characters, case included.",
    "C10": "C10.RC with members of different type sets (the first not a superset).",
    "C11": "Isoforms sharing a coding block (one known finding: duplicate CDS IDs).",
    "C12": "collection_to_genbank itself with several collections per call (SeqRecord / SeqIO.write modelled): one record per collection with its own sequence and features; /translation re-calculated when the source carries a stale one.",
    "C13": "Variants touching the first / last base of the chromosome or chunk.",
    "C14": "CDS shorter than one codon (1-2 bases, also split over a junction).",
    "C15": "-",
    "C16": "-",
    "C17": "A single-exon transcript whose CDS is written as adjacent blocks.",
    "C18": "The merged dictionary is a plain dict of sorted lists (a lookup of an absent key raises and inserts nothing).",
    "C19": "-",
    "C20": "Read-through primary CDS (in-frame stop): primary protein = member's translation; children order and primary after an export and a dictionary round trip.",
}

# coverage added in the fifth round
ROUND5 = {
    "C01": "No identity comparison between Parent / Location / Sequence values (C01.R6i, shared with C10.R6).",
    "C02": "Strict parent refusal with a strand mismatch on top, EmptyLocation() as argument of located receivers (one finding fixed), identity rule (C02.R6i); operands with 40 blocks and with more blocks than any size threshold found in the module (C02.R9).",
    "C03": "Chains on compound-located operands: append accepted exactly when wholly 3', reverse complement and slices of products (C03.RC).",
    "C04": "Chunk-relative locations lifted onto the whole chromosome; identity rule (C04.R6i).",
    "C05": "Ambiguity letters in the first / a later codon under strict (given or left out) and non-strict translation.",
    "C06": "Transcripts whose CDS skips a base inside an exon.",
    "C07": "Merged transcript / CDS of chunk-built genes; from_chunk_relative_location with an annotated frameshift.",
    "C08": "Objects derived by incorporate_variants with moved coordinates have a new identifier, for every sibling class (C08.RD); equality and hash of re-built objects; hash-seed independence of guid and dictionary.",
    "C09": "Members named by two requested identifiers; identifier queries under the opposite set order; get_children_by_type; variant-collection queries.",
    "C10": "The same object asked again; objects derived from warmed-up operands (C10.RR).",
    "C11": "Keys that differ only in case; several collections (one un-annotated) in one file; export under the opposite set order.",
    "C12": "Collections with bounds narrower than the sequence; export of a derived collection; records under the opposite set order.",
    "C13": "Containers built without sequence; haplotype mapping on chunks beyond the first 128 kb bin; container-level incorporation (C13.RN).",
    "C14": "Mode flag as 1 / 0 / None; unnamed transcripts under both set orders.",
    "C15": "Start sets asked with the NCBI table number.",
    "C16": "Feature and variant collections in every boundary query.",
    "C17": "Mixed-strand genes; multi-valued qualifiers and genes without a symbol under both set orders (one finding fixed).",
    "C18": "Mixed-case merge values, also under the opposite set order.",
    "C19": "Validators (C19.RV), intersect (C19.RI), overlap refusal independent of the supplied order.",
    "C20": "The feature returned by get_merged_* is itself well formed.",
}

ROUND6 = {
    "C01": "Feature-level windows that reach the last base of the chromosome.",
    "C02": "Designed 3-4 block layouts where summed lengths equal the span although a gap is left; the same id with and without sequence data as three coordinate systems; structural questions on one-block locations.",
    "C03": "-",
    "C04": "Levels that carry their ancestor's name and length (whole-chromosome views on either strand); the interval-level lift wrapper with every kind of target type.",
    "C05": "Codon windows inside introns and across their edges (expanded and plain).",
    "C06": "Windows on a chromosome that ends with the last exon.",
    "C07": "Chunk-built twins: .blocks, UTR intervals (one finding fixed), BED12 in chromosome coordinates, dictionaries in chunk coordinates, variant dictionaries, gene-level coordinate accessors.",
    "C08": "Dictionaries in chunk coordinates on clipping chunks (C08.RQ); exported parent of a collection whose sequence_name is an alias.",
    "C09": "Identifiers shared by several members, asked again of the result.",
    "C10": "No state keyed by id(...) in a container that outlives the call (C10.R6, with a built-in positive example).",
    "C11": "FASTA records of sequences whose length sits around the line width.",
    "C12": "force_strand=False; record annotations; reserved qualifier keys on the source objects.",
    "C13": "Insertions flush with a block end; several same-length haplotypes of one chunk built one after the other with the class-level memo of Parent modelled.",
    "C14": "The name argument (any attribute of the record, else the literal).",
    "C15": "has_name / has_value of every enumeration agree with look-up, synonyms included.",
    "C16": "Range queries on a chromosome longer than 2^29.",
    "C17": "Source models that differ only in the frames annotated 3' of the first CDS block export the same file.",
    "C18": "-",
    "C19": "ParentModel and cross-chromosome refusals; alphabet violations by blanks, line ends, tabs and digits at either end.",
    "C20": "Members that receive the gene's parent late; a chunk that cuts into the members (ranking by whole lengths); every way of walking an annotation collection, also on query results.",
}

NOT_YET = "rules for this property are not implemented in this commit (see DESIGN.md section 6b for the order)"


def main():
    checks, na = [], []
    for i in range(1, 21):
        pid = f"C{i:02d}"
        have = os.path.exists(os.path.join(HERE, "sa", "rules", f"{pid.lower()}.py"))
        if have and pid in CHECKS:
            c = CHECKS[pid]
            checks.append(dict(
                property_id=pid,
                quick_cmd=f"./check {pid} --tier quick",
                thorough_cmd=f"./check {pid} --tier thorough",
                evidence_file=f"/verif/evidence/{pid}.json",
                replay_cmd_template="./check --replay {path}",
                engine="sa",
                level_claimed=dict(category="other", text=c["text"] + (" Added later: " + ROUND3[pid] if pid in ROUND3 else "")
                                   + (" Round 4: " + ROUND4[pid] if ROUND4.get(pid, "-") != "-" else "") + (" Round 5: " + ROUND5[pid] if pid in ROUND5 else "") + (" Round 6 / mutation sweeps: " + ROUND6[pid] if ROUND6.get(pid, "-") != "-" else "") + ("" if pid == "C10" else " " + RA),
                                   design_ref=c["design"]),
                level_note=c["note"],
                technique=c["technique"],
            ))
        else:
            na.append(dict(property_id=pid, reason=c_reason(pid)))
    man = dict(
        version=1,
        setup_cmd="./check --selftest",
        hooks=dict(
            guard="INSCRIPTALABS_BIOCANTOR_VERIF",
            enable="none needed: the checks parse /repo's working tree and never import or instrument it",
            baseline_off_cmd="cd /repo && /venv/bin/python -m pytest -ra -q -p no:cacheprovider --timeout=900 "
                             "--continue-on-collection-errors",
            source_commits=[],
            add_only=True,
        ),
        engines=[dict(name="sa", path="/verif/sa", serves_properties=[c["property_id"] for c in checks],
                      kind_free_text="repository-specific static analysis over the Python AST: program model, "
                                     "constant folding, order-type/affine/mod-3 abstract domains, structured "
                                     "dominance facts, effect and taint rules, reader/writer agreement extractors")],
        checks=checks,
        notes="All checks are static: they parse $VERIF_REPO (default /repo) at run time with the stdlib ast module. "
              "Exit 0 held / only known findings; 1 VIOLATION; 2 ANALYSIS-ERROR. Known findings: /verif/known_findings.txt.",
        not_applicable=na,
    )
    with open(os.path.join(HERE, "MANIFEST.json"), "w") as fh:
        json.dump(man, fh, indent=1)
    print(f"claimed {len(checks)}; not_applicable {len(na)}")


NA_REASONS = {}


def c_reason(pid):
    return NA_REASONS.get(pid, NOT_YET)


if __name__ == "__main__":
    main()
