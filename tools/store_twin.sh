#!/bin/bash
# usage: tools/store_twin.sh <NN> <srcdir with R1/ R2/> <first target index>   e.g. tools/store_twin.sh 01 /tmp/wt/T01/_refactor 5
# confirms each refactoring in a fresh scratch worktree (patch applies to HEAD, suite 1466 passed) and stores it as refactor_twins/R<NN>-R<k>/
nn=$1; src=$2; k=$3
for r in R1 R2; do
  [ -f "$src/$r/patch.diff" ] || { echo "R$nn-$r: no patch"; continue; }
  wt=$(mktemp -d /tmp/wt/tw.XXXXXX); rmdir $wt
  git -C /repo worktree add --detach $wt HEAD >/dev/null 2>&1
  if (cd $wt && git apply "$src/$r/patch.diff"); then
    tests=$(cd $wt && /venv/bin/python -m pytest -q -p no:cacheprovider --timeout=900 --continue-on-collection-errors -n 8 2>&1 | tail -1)
    if echo "$tests" | grep -q "1466 passed" && ! echo "$tests" | grep -q failed; then
      dst=/verif/refactor_twins/R$nn-R$k; mkdir -p $dst; cp "$src/$r/patch.diff" "$src/$r/equiv.py" "$src/$r/meta.json" $dst/ 2>/dev/null
      echo "R$nn-R$k: stored ($tests)"
    else echo "R$nn-$r: NOT stored ($tests)"; fi
  else echo "R$nn-$r: patch does not apply"; fi
  git -C /repo worktree remove --force $wt >/dev/null 2>&1
  k=$((k+1))
done
