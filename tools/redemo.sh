#!/bin/bash
# usage: redemo.sh <seed name>  : demo passes on pristine, fails with patch, suite still passes
s=$1
wt=$(mktemp -d /tmp/wt/rd.XXXXXX); rmdir $wt
git -C /repo worktree add --detach $wt HEAD >/dev/null 2>&1
cd $wt; mkdir -p _seed/A; sed "s#/tmp/wt/SCRATCH#$wt#g" /verif/seeded/$s/demo.py > _seed/A/demo.py
PYTHONPATH=$wt /venv/bin/python _seed/A/demo.py > /dev/null 2>&1; pre=$?
git apply /verif/seeded/$s/patch.diff || echo NOAPPLY
PYTHONPATH=$wt /venv/bin/python _seed/A/demo.py > /dev/null 2>&1; post=$?
t=$(/venv/bin/python -m pytest -q -p no:cacheprovider --timeout=900 --continue-on-collection-errors -n 6 2>&1 | tail -1)
echo "$s: demo pristine=$pre patched=$post tests: $t"
cd /; git -C /repo worktree remove --force $wt
